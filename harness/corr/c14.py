"""C14 — `-c` and `-r` discard exactly what they should, atomically.

Correspondence: data files are produced by real sessions (2-6 runs, 1-2
experiments, benchmark and profile files, files larger than the I/O buffer).
For a selection (experiment name + e:/s: filters) a real `-r` session runs in a
forked child under the file-system tracer, with TMPDIR on the data file's
file system and on /dev/shm: the sequence of mutating calls is compared with the
model's operation list (`c14.rewrite`), the file content after the rewrite with
the model's filter output, the started invocations with the model's plan.
The crash injector kills the child before every mutating call; the surviving
file is compared with the model's crash states.
Oracle (independent): expected content = old lines minus the measurement
lines of the selected runs, by an independent parser and an independent
selection function; the surviving file is the old or the expected content.
"""
import os
import shutil

import lib
import drive_datafile as dd
import drive_fs

LV = 'repaired'
RV = os.environ.get('VERIF_MODEL_VARIANT', 'repaired')
THEOREMS = ['RB.Rewrite.c14_rerun_filters_exactly', 'RB.Rewrite.c14_rewrite_atomic', 'RB.Rewrite.c14_rewrite_atomic_multi',
            'RB.Rewrite.c14_rerun_regenerates', 'RB.Rewrite.c14_clean_empties']


# ------------------------------------------------------------------ scenarios
def gen_params(rng, idx, tier):
    fixed = [
        # the data file is a symbolic link to a file on another file system
        {'t': ['B', 'C'], 'u': None, 'u_file': None, 'invocations': 2, 'iterations': 1, 'crits': 1, 'profile': False,
         'link': 'other_fs'},
        # text fields with characters that str.splitlines treats as line breaks but file iteration does
        # not (they are written as they are into the measurement lines), and a data file name of NAME_MAX bytes
        {'t': ['B', 'C'], 'u': ['X'], 'u_file': None, 'invocations': 2, 'iterations': 1, 'crits': 1, 'profile': False,
         'text_fields': {'variable_values': [u'a\u2028b\x0cc'], 'input_sizes': [u'1\x0b2\x85\x1c']},
         'long_name': [255, True]},
        # falsy but valid values in the run's variables (input size 0, variable value false), a tab inside
        # the extra arguments, a ValidationLog suite (boolean Success measurements) and lines in the
        # 14-column layout of older versions
        {'t': ['B', 'C'], 'u': ['X', 'Y'], 'u_file': None, 'invocations': 2, 'iterations': 1, 'crits': 1,
         'profile': False, 'text_fields': {'input_sizes': [0], 'variable_values': [False]},
         'bench_args': {'B': '--size\t5', 'C': '0'}, 'u_adapter': 'ValidationLog', 'old_layout': True},
        # the data file is in another directory than the working directory, and a relative link
        {'t': ['B', 'C', 'D'], 'u': ['X', 'Y'], 'u_file': None, 'invocations': 2, 'iterations': 2, 'crits': 0,
         'profile': False, 'data_dir': 'out', 'link': 'relative'},
        {'t': ['B', 'C'], 'u': None, 'u_file': None, 'invocations': 2, 'iterations': 1, 'crits': 0, 'profile': True},
        # three experiments, three data files: one -r rewrites up to three files one after the other
        {'t': ['B', 'C'], 'u': ['X'], 'u_file': 'u.data', 'v': ['P', 'Q'], 'v_file': 'v.data', 'invocations': 1,
         'iterations': 2, 'crits': 1, 'profile': False},
        # damaged data lines inside the files that are rewritten (dropped by the filter)
        {'t': ['B', 'C', 'D'], 'u': ['X'], 'u_file': None, 'invocations': 2, 'iterations': 2, 'crits': 1,
         'profile': False, 'damaged': [6, 11]},
        {'t': ['B', 'C'], 'u': None, 'u_file': None, 'invocations': 2, 'iterations': 1, 'crits': 0, 'profile': True,
         'damaged': [3, 5]},
        # larger than the I/O buffer (8192 bytes) after filtering as well
        {'t': ['B', 'C', 'D'], 'u': ['X', 'Y', 'Z'], 'u_file': None, 'invocations': 4, 'iterations': 4, 'crits': 2,
         'profile': False},
        {'t': ['B', 'C', 'D'], 'u': None, 'u_file': None, 'invocations': 3, 'iterations': 1, 'crits': 0, 'profile': True},
    ]
    if idx < len(fixed):
        return fixed[idx]
    nt = rng.randint(1, 4)
    nu = rng.choice([0, 0, 1, 2]) if nt < 4 else rng.randint(0, 2)
    if nt + nu < 2:
        nt = 2
    profile = rng.random() < 0.25
    if profile and nt < 2:
        nt = 2
    nv = rng.choice([0, 0, 1, 2]) if (nu and not profile) else 0
    return {'v': rng.sample(['P', 'Q', 'R'], nv) if nv else None,
            'v_file': rng.choice([None, 'v.data']) if nv else None,
            't': rng.sample(['B', 'C', 'D', 'F', 'G'], nt),
            'u': None if (nu == 0 or profile) else rng.sample(['X', 'Y', 'Z'], nu),
            'u_file': rng.choice([None, 'u.data']) if nu and not profile else None,
            'invocations': rng.randint(1, 3), 'iterations': 1 if profile else rng.randint(1, 3),
            'crits': 0 if profile else rng.randint(0, 2), 'profile': profile,
            'damaged': [rng.randint(1, 5), rng.randint(0, 10 ** 6)] if rng.random() < 0.35 else None,
            'text_fields': rng.choice([None, None, {'variable_values': [u'v\u2029w']}, {'input_sizes': [u'\x1dz\x1e']},
                                       {'input_sizes': [0]}, {'variable_values': [0.0]}, {'variable_values': ['0'], 'input_sizes': [False]},
                                       {'variable_values': [u'p\x0cq'], 'input_sizes': [u'3\u0085']}]),
            'long_name': rng.choice([None, None, None, [255, False], [243, False], [250, True]]),
            'bench_args': rng.choice([None, None, {'B': 'a\tb'}, {'C': '-x\t-y\t1'}]),
            'old_layout': rng.random() < 0.3,
            'link': rng.choice([None, None, 'other_fs', 'same_fs', 'relative']),
            'data_dir': rng.choice([None, None, 'out'])}


def run_keys(params):
    """the runs of the configuration: (experiment, suite, executor, benchmark), index = model key"""
    ks = [('T', 'S', 'E', b) for b in params['t']]
    if params['u']:
        ks += [('U', 'S2', 'E2', b) for b in params['u']]
    if params.get('v'):
        ks += [('V', 'S3', 'E3', b) for b in params['v']]
    return ks


def gen_selections(rng, params, n):
    """(experiment argument, filters)"""
    sels = [(None, []), ('all', [])]
    t, u = params['t'], params['u'] or []
    sels.append((None, ['s:S:' + t[0]]))
    if len(t) > 1:
        sels.append(('T', ['s:S:' + t[-1], 's:S:' + t[0]]))
    v = params.get('v') or []
    if u:
        sels += [('U', []), ('all', ['e:E2']), ('all', ['s:S:' + t[0], 's:S2:' + u[-1]] + (['s:S3:' + v[0]] if v else [])),
                 ('all', ['e:E', 's:S2'])]
        if v:
            sels += [('V', ['s:S3:' + v[-1]]), ('all', ['e:E3', 'e:E'])]
    else:
        sels += [('all', ['e:E']), (None, ['s:S'])]
    sels.append((None, ['s:S:nosuch']))
    extra = []
    for _ in range(max(0, n - len(sels))):
        exp = rng.choice([None, 'T', 'all'] + (['U'] if u else []) + (['V'] if v else []))
        fs = []
        for b in t:
            if rng.random() < 0.3:
                fs.append('s:S:' + b)
        for b in u:
            if rng.random() < 0.3:
                fs.append('s:S2:' + b)
        for b in v:
            if rng.random() < 0.3:
                fs.append('s:S3:' + b)
        if rng.random() < 0.2:
            fs.append(rng.choice((['e:E', 'e:E2'] if u else ['e:E']) + (['e:E3'] if v else [])))
        extra.append((exp, fs))
    return (sels + extra)[:max(n, 4)] if n < len(sels) else sels + extra


def select(params, exp, filters):
    """independent statement of which runs a session is about (keys)"""
    exps = {'T', 'U', 'V'} if exp == 'all' else {exp or 'T'}
    e_f = [f.split(':')[1] for f in filters if f.startswith('e:')]
    s_f = [f.split(':')[1:] for f in filters if f.startswith('s:')]
    out = []
    for k, (x, suite, exe, bench) in enumerate(run_keys(params)):
        if x not in exps:
            continue
        if e_f and exe not in e_f:
            continue
        if s_f and not any(sf[0] in ('*', suite) and (len(sf) == 1 or sf[1] == bench) for sf in s_f):
            continue
        out.append(k)
    return out


def base_name(params):
    """name of the first data file; `long_name`: [bytes, multi-byte?] - up to NAME_MAX = 255 bytes"""
    ln = params.get('long_name')
    if not ln:
        return 't.data'
    n, multi = ln
    n -= len('.profiles') if params['profile'] else 0
    stem = (u'\u00e4' * ((n - 5) // 2)) if multi else 'd' * (n - 5)
    pad = 'x' * (n - 5 - len(stem.encode('utf-8')))
    return stem + pad + '.data'


def file_of(params, key_tuple):
    name = (params.get('data_dir') + '/' if params.get('data_dir') else '') + base_name(params)
    if key_tuple[0] == 'U' and params['u_file']:
        name = params['u_file']
    if key_tuple[0] == 'V' and params.get('v_file'):
        name = params['v_file']
    if params['profile']:
        name += '.profiles'
    return name


class World(object):
    def __init__(self, wd, params, shm=None):
        shutil.rmtree(wd, ignore_errors=True)
        self.params = params
        self.shm = shm
        if params.get('data_dir'):
            os.makedirs(os.path.join(wd, params['data_dir']))
        second = {'benchmarks': params['u'], 'data_file': params['u_file'],
                  'adapter': params.get('u_adapter', 'RebenchLog')} if params['u'] else None
        third = {'benchmarks': params['v'], 'data_file': params.get('v_file')} if params.get('v') else None
        self.scn = dd.Scenario(wd, params['t'], params['invocations'], params['iterations'], params['crits'],
                               data_file=(params['data_dir'] + '/' if params.get('data_dir') else '') + base_name(params),
                               second_exp=second, profile=params['profile'], third_exp=third,
                               text_fields=params.get('text_fields'), bench_args=params.get('bench_args'))
        r = self.scn.run(filters=['all'])
        self.problem = None
        if r.crash or r.exit not in (0, 1):
            self.problem = ('base session', r.status(), r.crash, r.stderr[-300:])
        self.keys = run_keys(params)
        self.files = sorted(set(file_of(params, k) for k in self.keys))
        self.paths = [os.path.join(wd, f) for f in self.files]
        self.old = {}
        for f, p in zip(self.files, self.paths):
            with open(p, 'r', newline='') as fh:
                self.old[f] = fh.read()
        self.base_starts = list(self.scn.starts)
        self.base_serial = self.scn.serial
        self.base_session = self.scn.session
        if params.get('damaged'):
            self.inject_damaged(params['damaged'])
        if params.get('old_layout'):
            # the lines of the last run as an older ReBench wrote them: 14 columns, no machine column
            # (the loader reads the first five columns and the last one)
            last = self.keys[-1]
            f = file_of(params, last)
            out = []
            for d in dd.parse_file(self.old[f]):
                line = self.old[f][d['start']:d['end']]
                if d['kind'] == 'meas' and (d['exe'], d['bench']) == (last[2], last[3]):
                    cols = line.rstrip('\n').split('\t')
                    line = '\t'.join(cols[:-2] + cols[-1:]) + '\n'
                out.append(line)
            self.old[f] = ''.join(out)
        # the first data file is a symbolic link (results kept elsewhere): target on the same file
        # system, given relatively, or on another file system
        self.link = None
        if params.get('link'):
            f = self.files[0]
            store = os.path.join(self.shm, 'store-' + os.path.basename(wd)) if params['link'] == 'other_fs' \
                else os.path.join(wd, 'store')
            os.makedirs(store, exist_ok=True)
            target = os.path.join(store, 'real' + ('.profiles' if params['profile'] else '.data'))
            self.link = (f, target, os.path.relpath(target, os.path.dirname(self.paths[0]))
                         if params['link'] == 'relative' else target)
            self.reset()

    def inject_damaged(self, spec):
        """damaged data lines (remains of interrupted writes, hand edits) inside the files that are
        going to be rewritten: lines whose parsing raises ValueError / IndexError.  spec: [n, seed]"""
        import random
        n, seed = spec
        rng = random.Random(seed)
        for f in self.files:
            lines = self.old[f].split('\n')[:-1]
            data = [l for l in lines if l and not l.startswith('#') and l != dd.HDR]
            first = next((i for i, l in enumerate(lines) if not l.startswith('#')), len(lines))
            for _ in range(n):
                kind = rng.choice(['glued', 'int', 'short1', 'short4', 'float', 'word', 'meta_run', 'meta_bench',
                                   'comment'])
                if self.params['profile'] and kind in ('short4', 'float'):
                    kind = 'short1'
                # (a glued remainder in a profile line is rejected by the JSON check of the last column)
                src = rng.choice(data) if data else '1\t1\t2.000000\tms\ttotal'
                if kind == 'meta_run':
                    # a session was killed while writing a metadata record, the next one appended its '#!' line
                    bad = '# run_id: 9={"cmdline":"/x/exe h Q","loca' + '#!rebench -D ' + self.scn.conf
                elif kind == 'meta_bench':
                    bad = '# benchmark: 9={"name":"Q","comm'[:rng.randint(13, 32)] + '#!rebench -D ' + self.scn.conf
                elif kind == 'comment':
                    bad = '# a note that somebody added by hand'
                elif kind == 'glued':
                    bad = src[:rng.randint(1, max(1, len(src) - 1))] + '#!rebench -D ' + self.scn.conf
                elif kind == 'int':
                    bad = 'x' + src
                elif kind == 'short1':
                    bad = '7'
                elif kind == 'short4':
                    bad = '\t'.join(src.split('\t')[:4])
                elif kind == 'float':
                    cols = src.split('\t')
                    cols[2] = 'n/a'
                    bad = '\t'.join(cols)
                else:
                    bad = 'damaged line'
                lines.insert(rng.randint(first, len(lines)), bad)
            self.old[f] = '\n'.join(lines) + '\n'

    def reset(self):
        for f, p in zip(self.files, self.paths):
            if self.link and self.link[0] == f:
                # the data file is a link again, its target holds the old content
                if os.path.islink(p) or os.path.exists(p):
                    os.unlink(p)
                with open(self.link[1], 'w', newline='') as fh:
                    fh.write(self.old[f])
                os.symlink(self.link[2], p)
                continue
            with open(p, 'w', newline='') as fh:
                fh.write(self.old[f])
        keep = set(os.path.abspath(p) for p in self.paths) | {os.path.abspath(self.scn.conf)}
        dirs = set(os.path.dirname(os.path.abspath(p)) for p in self.paths) | {os.path.abspath(self.scn.wd)}
        for d in dirs:
            for n in os.listdir(d):
                q = os.path.join(d, n)
                if q not in keep and not os.path.isdir(q):
                    try:
                        os.unlink(q)
                    except OSError:
                        pass
        self.scn.starts = list(self.base_starts)
        self.scn.serial = self.base_serial
        self.scn.session = self.base_session

    def survivors(self):
        out = {}
        for f, p in zip(self.files, self.paths):
            try:
                with open(p, 'r', newline='') as fh:
                    out[f] = fh.read()
            except IOError:
                out[f] = None
        return out

    def key_of(self, exe, bench):
        for k, (_x, _s, e, b) in enumerate(self.keys):
            if e == exe and b == bench:
                return k
        return 99

    def expected_new(self, f, sel):
        """independent: old lines minus the measurement lines of the selected runs"""
        sel_eb = set((self.keys[k][2], self.keys[k][3]) for k in sel)
        out = []
        for d in dd.parse_file(self.old[f]):
            if d['kind'] in ('meas', 'prof') and (d['exe'], d['bench']) in sel_eb:
                continue
            out.append(self.old[f][d['start']:d['end']])
        return ''.join(out)

    def model_op(self, f, sel, same_fs):
        names = self.keys

        def key_of_bench(obj):
            return self.key_of(obj['suite']['executor']['name'], obj['name'])

        def key_of_run(obj):
            toks = obj['cmdline'].split()
            exe = {'exe': 'E', 'exe2': 'E2', 'exe3': 'E3'}.get(toks[0].rsplit('/', 1)[-1], '?')
            return self.key_of(exe, toks[2])     # exe, h/h2/h3, benchmark, extra arguments
        bp, rp = dd.payload_tables(dd.parse_file(self.old[f]), key_of_bench, key_of_run)
        pj = sorted(set(d['json'] for d in dd.parse_file(self.old[f]) if d['kind'] == 'prof')) if self.params['profile'] else None
        op = {'op': 'c14.rewrite', 'text': self.old[f], 'hdr': dd.HDR, 'lvariant': LV, 'rvariant': RV, 'profile_json': pj,
              'bench_payloads': bp, 'run_payloads': rp, 'profile': self.params['profile'], 'same_fs': same_fs,
              'cap': 8192, 'sel': sel, 'runs': list(range(len(names))), 'invocations': self.params['invocations']}
        if RV.startswith('custom:'):
            a, b, c, d = [x == '1' for x in RV[7:].split(',')]
            op.update({'rvariant': 'custom', 'copyHeader': a, 'profileReturnsPair': b, 'atomicReplace': c,
                       'closeBeforeMove': d})
        return op


EV2OP = {'mktemp': 'create:tmp', 'write': 'write', 'close': 'close', 'flush': 'flush'}


def op_of_event(ev):
    k = ev[0]
    if k in EV2OP:
        return EV2OP[k]
    if k == 'unlink':
        return 'unlink:' + ('data' if ev[1].startswith('data') else ev[1])
    if k in ('replace', 'rename'):
        return 'rename:%s:%s' % (ev[1], 'data' if ev[2].startswith('data') else ev[2])
    if k == 'move':
        return ('rename' if ev[3] == 'same_fs' else 'copymove') + ':%s:%s' % (ev[1], 'data' if ev[2].startswith('data') else ev[2])
    if k == 'truncate':
        return 'truncate:data'
    if k == 'copy-open':
        return 'copy-open:%s:%s' % (ev[1], 'data' if ev[2].startswith('data') else ev[2])
    if k == 'copy-close':
        return 'copy-close:' + ('data' if ev[1].startswith('data') else ev[1])
    return k


def groups_of(events):
    """split the event list into one group per rewrite (each starts with mktemp); returns
    [(start index, end index, data class or None)]"""
    gs = []
    cur = None
    for i, ev in enumerate(events):
        if ev[0] == 'mktemp':
            if cur is not None:
                gs.append(cur)
            cur = [i, i + 1, None]
        elif cur is not None:
            cur[1] = i + 1
            if ev[0] in ('replace', 'rename', 'move') and ev[2].startswith('data'):
                cur[2] = ev[2]
            if ev[0] == 'unlink' and ev[1].startswith('data') and cur[2] is None:
                cur[2] = ev[1]
            if ev[0] == 'copy-open' and ev[2].startswith('data') and cur[2] is None:
                cur[2] = ev[2]
    if cur is not None:
        gs.append(cur)
    return gs


def session_fn(world, argv_extra, exp, filters):
    scn = world.scn

    def fn():
        n0 = len(scn.starts)
        r = scn.run(argv_extra, ([exp] if exp else []) + list(filters))
        return {'status': r.status(), 'crash': list(r.crash) if r.crash else None, 'stderr': r.stderr[-300:],
                'starts': [({'exe': 'E', 'exe2': 'E2', 'exe3': 'E3'}.get(s['exe'], s['exe']), s['bench']) for s in scn.starts[n0:]]}
    return fn


def check_selection(acc, world, exp, filters, tmpdir, placement, model_fn, crash_points):
    """one `-r` session (plus crash runs); model comparison and oracle"""
    obs = observe_selection(acc, world, exp, filters, tmpdir, placement, crash_points)
    if obs is not None:
        answers = model_fn(obs['ops'])
        judge_selection(acc, world, obs, answers)
        judge_faults(acc, world, obs)
        m = multi_op(world, obs, dict(zip(obs['rewritten'], answers)))
        if m is not None:
            judge_multi(acc, world, obs, model_fn([m])[0])


def observe_selection(acc, world, exp, filters, tmpdir, placement, crash_points):
    """phase 1 (implementation only): the traced -r session and the crash runs"""
    params = world.params
    sel = select(params, exp, filters)
    inp = {'params': params, 'experiment': exp, 'filters': filters, 'tmp': placement, 'selected': sel}
    same_fs = os.stat(tmpdir).st_dev == os.stat(world.scn.wd).st_dev
    world.reset()
    res = drive_fs.run_traced(session_fn(world, ['-r'], exp, filters), world.paths, tmpdir)
    acc.impl_traces += 1
    acc.count('tmp:' + placement)
    acc.count('selected-runs:%d' % len(sel))
    acc.case(nontrivial_key=(str(params), exp, tuple(filters), placement) if sel else None,
             sample={'params': params, 'experiment': exp, 'filters': filters, 'tmp': placement, 'selected': sel})
    if res['exit'] != 'ok':
        acc.disagree('c14: traced child did not finish', inp, res, None, THEOREMS)
        return None
    rewritten = sorted(set(file_of(params, world.keys[k]) for k in sel))
    ops = [world.model_op(f, sel, same_fs) for f in rewritten]
    crashes = []
    events = res['events']
    if crash_points and rewritten:
        for k in crash_points(events):
            world.reset()
            cr = drive_fs.run_traced(session_fn(world, ['-r'], exp, filters), world.paths, tmpdir, crash_at=k)
            acc.impl_traces += 1
            acc.count('crash-runs')
            crashes.append((k, cr['exit'], world.survivors() if cr['exit'] == 'killed' else None))
    faults = []
    if crash_points and rewritten and getattr(crash_points, 'faults', False):
        for (k, err) in fault_points(events):
            world.reset()
            fr = drive_fs.run_traced(session_fn(world, ['-r'], exp, filters), world.paths, tmpdir, fault=(k, err))
            acc.impl_traces += 1
            acc.count('fault-runs')
            faults.append((k, err, fr))
    return {'inp': inp, 'sel': sel, 'same_fs': same_fs, 'res': res, 'rewritten': rewritten, 'ops': ops,
            'crashes': crashes, 'faults': faults}


def fault_points(events):
    """(index of the mutating call, errno): an OSError at each kind of file-system call of the rewrite"""
    out = []
    kinds = {}
    for i, e in enumerate(events):
        kinds.setdefault(e[0], []).append(i)
    if 'mktemp' in kinds:
        out += [(kinds['mktemp'][0], 'ENAMETOOLONG'), (kinds['mktemp'][0], 'EACCES'), (kinds['mktemp'][-1], 'ENOSPC')]
    if 'write' in kinds:
        w = kinds['write']
        out += [(w[0], 'ENOSPC'), (w[len(w) // 2], 'ENOSPC'), (w[-1], 'EIO')]
    if 'close' in kinds:
        out += [(kinds['close'][0], 'ENOSPC')]
    for k in ('replace', 'rename', 'move'):
        if k in kinds:
            out += [(kinds[k][0], 'EXDEV'), (kinds[k][-1], 'EACCES')]
    return out


def judge_faults(acc, world, obs):
    """an OSError inside the rewrite: either the rewrite happened exactly, or the session stops with an
    error before it executes anything and every data file is unchanged - never "nothing removed and the
    selected runs executed again on top of the old data" """
    params = world.params
    for (k, err, fr) in obs['faults']:
        inp = dict(obs['inp'], fault_at_call=k, errno=err)
        events = obs['res']['events']
        kind = op_of_event(events[k]) if k < len(events) else 'end'
        acc.count('fault-at:' + kind.split(':')[0] + ':' + err)
        acc.case(nontrivial_key=(str(params), obs['inp']['experiment'], tuple(obs['inp']['filters']), obs['inp']['tmp'],
                                 'fault', k, err))
        sig = {'fault_at': kind.split(':')[0], 'errno': err}
        if fr['exit'] != 'ok':
            acc.disagree('c14: traced child did not finish (fault run)', inp, fr, None, THEOREMS)
            continue
        status = fr['result']['status']
        starts = fr['result']['starts']
        if status.startswith('crash') or status == 'thread_exc':
            acc.oracle_fail('fault_handled', inp, {'status': status, 'crash': fr['result']['crash']},
                            dict(sig, outcome='traceback'))
            continue
        stopped = status == 'ui_error'
        for f in world.files:
            p = os.path.join(world.scn.wd, f)
            if stopped:
                # nothing was executed; every file is unchanged - or, when several files are rewritten one
                # after the other and an earlier one was already done, exactly rewritten
                got = fr['finals'].get(p)
                want = world.expected_new(f, obs['sel']) if f in obs['rewritten'] else world.old[f]
                same = got == world.old[f] or got == want
                if params.get('damaged') and not same:
                    same = strip_other(got) in (strip_other(world.old[f]), strip_other(want))
                if not same or starts:
                    acc.oracle_fail('fault_handled', inp, {'file': f, 'status': status, 'starts': len(starts),
                                                           'file_unchanged': got == world.old[f]},
                                    dict(sig, outcome='stopped_but_changed_or_executed'))
            else:
                snap = fr['snapshots'].get(p)
                want = world.expected_new(f, obs['sel']) if f in obs['rewritten'] else world.old[f]
                if params.get('damaged'):
                    snap, want = strip_other(snap), strip_other(want)
                if snap != want:
                    acc.oracle_fail('fault_handled', inp,
                                    {'file': f, 'status': status, 'starts': len(starts),
                                     'file_unchanged': fr['snapshots'].get(p) == world.old[f]},
                                    dict(sig, outcome='nothing_removed_and_executed_again'
                                         if fr['snapshots'].get(p) == world.old[f] and starts else 'other'))


def judge_selection(acc, world, obs, model_answers):
    """phase 2: oracle and model comparison"""
    params = world.params
    inp, sel, same_fs, res, rewritten = obs['inp'], obs['sel'], obs['same_fs'], obs['res'], obs['rewritten']
    exp, filters, placement = inp['experiment'], inp['filters'], inp['tmp']
    result = res['result']
    events = res['events']
    status = result['status']
    answers = dict(zip(rewritten, model_answers))
    groups = groups_of(events)
    # ---------------- oracle
    sig_tmp = {'tmp': 'same_fs' if same_fs else 'other_fs', 'file_kind': 'profile' if params['profile'] else 'benchmark'}
    if status.startswith('crash') or status in ('ui_error', 'thread_exc'):
        acc.oracle_fail('no_error', inp, {'status': status, 'crash': result['crash'], 'stderr': result['stderr']},
                        dict(sig_tmp, status=status))
    else:
        for f in world.files:
            snap = res['snapshots'].get(os.path.join(world.scn.wd, f))
            want = world.expected_new(f, sel) if f in rewritten else world.old[f]
            if params.get('damaged'):
                n_old = sum(1 for d in dd.parse_file(world.old[f]) if d['kind'] == 'other')
                n_new = sum(1 for d in dd.parse_file(snap or '') if d['kind'] == 'other')
                acc.count('damaged-lines:%s' % ('dropped-by-rewrite' if f in rewritten else 'in-untouched-file'),
                          n_old - n_new if f in rewritten else n_old)
                snap, want = strip_other(snap), strip_other(want)
            if snap != want:
                what = 'missing' if snap is None else 'bool_value_lines_missing' if (
                    only_bool_lines_missing(want, snap)) else 'header_only' if (
                    want.replace(dd.HDR + '\n', '', 1) == snap) else 'fewer_lines' if (
                    snap is not None and len(snap) < len(want)) else 'other'
                acc.oracle_fail('exact_filter', inp,
                                {'file': f, 'difference': what, 'expected_len': len(want),
                                 'got_len': None if snap is None else len(snap),
                                 'first_difference': first_diff(want, snap)},
                                dict(sig_tmp, difference=what))
        # the following execution regenerates precisely the removed runs
        n_per_start = 1
        started = {}
        for (exe, bench) in result['starts']:
            k = world.key_of(exe, bench)
            started[k] = started.get(k, 0) + 1
        want_started = {k: params['invocations'] * n_per_start for k in sel}
        if started != want_started:
            acc.oracle_fail('regenerates', inp, {'started': started, 'expected': want_started}, dict(sig_tmp))
    # ---------------- model vs implementation
    for f in rewritten:
        ans = answers[f]
        acc.count('model-end:' + ans['end'])
        if ans['end'] != 'ok':
            ok = {'uiError': ('ui_error',), 'crash:type': ('crash:TypeError',),
                  'crash:value': ('crash:ValueError',)}.get(ans['end'], ())
            if status not in ok:
                acc.disagree('c14.rewrite: how the -r load ends', inp, {'status': status, 'crash': result['crash']},
                             {'end': ans['end']}, THEOREMS)
            continue
        if status.startswith('crash') or status in ('ui_error',):
            acc.disagree('c14.rewrite: how the -r load ends', inp, {'status': status, 'crash': result['crash']},
                         {'end': 'ok'}, THEOREMS)
            continue
        dcls = 'data%d' % world.files.index(f)
        g = [x for x in groups if x[2] == dcls]
        if len(g) != 1:
            acc.disagree('c14.rewrite: one rewrite per data file', inp,
                         {'groups': groups, 'events': [op_of_event(e) for e in events][:40]}, {'ops': ans['ops'][:40]},
                         THEOREMS)
            continue
        a, b, _ = g[0]
        impl_ops = [op_of_event(e) for e in events[a:b]]
        if impl_ops != ans['ops']:
            acc.disagree('c14.rewrite: sequence of file-system operations', inp,
                         {'ops': compress(impl_ops)}, {'ops': compress(ans['ops'])}, ['RB.Rewrite.c14_rewrite_atomic'])
        impl_writes = [e[1] for e in events[a:b] if e[0] == 'write']
        if impl_writes != ans['writes']:
            acc.disagree('c14.rewrite: lines written to the temporary file', inp,
                         {'n': len(impl_writes), 'first_difference': first_diff(''.join(ans['writes']), ''.join(impl_writes))},
                         {'n': len(ans['writes'])}, ['RB.Rewrite.c14_rerun_filters_exactly'])
        where = events[a][1]['where']
        want_where = 'datadir' if (RV == 'repaired' or (RV.startswith('custom:') and RV[7:].split(',')[2] == '1')) else 'tmpdir'
        if where != want_where:
            acc.disagree('c14.rewrite: where the temporary file is created', inp, {'where': where},
                         {'where': want_where}, ['RB.Rewrite.c14_rewrite_atomic'])
        snap = res['snapshots'].get(os.path.join(world.scn.wd, f))
        model_final = state_text(ans['final'], world.old[f], ans['new'])
        if snap != model_final:
            acc.disagree('c14.rewrite: content of the data file after the rewrite', inp,
                         {'len': None if snap is None else len(snap), 'first_difference': first_diff(model_final, snap)},
                         {'len': None if model_final is None else len(model_final)}, THEOREMS)
        started = {}
        for (exe, bench) in result['starts']:
            k = world.key_of(exe, bench)
            started[k] = started.get(k, 0) + 1
        for (r, todo) in ans['todo']:
            if r in sel and file_of(params, world.keys[r]) == f and started.get(r, 0) != len(todo):
                acc.disagree('c14.rewrite: invocations regenerated', inp, {'run': r, 'started': started.get(r, 0)},
                             {'todo': todo}, ['RB.Rewrite.c14_rerun_regenerates'])
    # ---------------- crash injection: a kill before every mutating call
    n_ev = len(events)
    for (k, cexit, surv) in obs['crashes']:
        if cexit != 'killed':
            if k < n_ev:
                acc.disagree('c14: crash injector did not fire', dict(inp, crash_before_call=k), cexit, None, THEOREMS)
            continue
        kind = op_of_event(events[k]) if k < n_ev else 'end'
        acc.count('crash-before:' + kind)
        cinp = dict(inp, crash_before_call=k, call=kind)
        acc.case(nontrivial_key=(str(params), exp, tuple(filters), placement, 'crash', k))
        for f in world.files:
            old = world.old[f]
            want = world.expected_new(f, sel) if f in rewritten else old
            s = surv[f]
            if params.get('damaged'):
                ok_states = (strip_other(old), strip_other(want))
                is_ok = strip_other(s) in ok_states and s is not None
            else:
                is_ok = s == old or s == want
            if not is_ok:
                what = 'absent' if s is None else 'partial' if (s is not None and want.startswith(s)) else 'other'
                acc.oracle_fail('atomic', cinp, {'file': f, 'survivor': what,
                                                 'survivor_len': None if s is None else len(s),
                                                 'old_len': len(old), 'new_len': len(want)},
                                dict(sig_tmp, survivor=what, before=kind.split(':')[0]))
            # model
            if f in rewritten and answers[f]['end'] == 'ok':
                dcls = 'data%d' % world.files.index(f)
                g = [x for x in groups if x[2] == dcls]
                if len(g) == 1:
                    a, b, _ = g[0]
                    states = answers[f]['states']
                    idx = 0 if k <= a else (len(states) - 1 if k >= b else k - a)
                    if idx < len(states):
                        ms = state_text(states[idx], old, answers[f]['new'])
                        if ms != s:
                            acc.disagree('c14.rewrite: surviving data file after a kill', cinp,
                                         {'survivor_len': None if s is None else len(s)},
                                         {'state': states[idx] if isinstance(states[idx], str) else 'other',
                                          'len': None if ms is None else len(ms)}, ['RB.Rewrite.c14_rewrite_atomic'])


def mop_of_event(ev):
    """event -> operation name of the multi-file model (the data file keeps its index)"""
    k = ev[0]
    if k in ('replace', 'rename') and ev[2].startswith('data'):
        return 'rename:%s:%s' % (ev[1], ev[2])
    return op_of_event(ev)


def multi_op(world, obs, answers):
    """`c14.multi` for one -r session: the files in the order the session rewrote them"""
    if not obs['rewritten'] or any(answers[f]['end'] != 'ok' for f in obs['rewritten']):
        return None
    order = [g[2] for g in groups_of(obs['res']['events']) if g[2] is not None]
    idx = [int(c[4:]) for c in order]
    if sorted(world.files[i] for i in idx) != sorted(obs['rewritten']):
        return None     # reported by the per-file comparison
    obs['model_new'] = {f: answers[f]['new'] for f in obs['rewritten']}
    return {'op': 'c14.multi', 'olds': [world.old[f] for f in world.files], 'cap': 8192,
            'rewrites': [[i, answers[world.files[i]]['writes']] for i in idx]}


def judge_multi(acc, world, obs, ans):
    """whole operation sequence over all data files, and all files after every kill"""
    inp = obs['inp']
    events = obs['res']['events']
    impl_ops = [mop_of_event(e) for e in events]
    acc.count('multi-file-rewrites:%d' % len(obs['rewritten']))
    if impl_ops != ans['ops']:
        acc.disagree('c14.multi: operation sequence over all data files', inp, {'ops': compress(impl_ops)},
                     {'ops': compress(ans['ops'])}, ['RB.Rewrite.c14_rewrite_atomic_multi'])
        return
    for (k, cexit, surv) in obs['crashes']:
        if cexit != 'killed' or k >= len(ans['states']):
            continue
        want = ans['states'][k]
        got = []
        for j, f in enumerate(world.files):
            s_ = surv[f]
            new = obs['model_new'].get(f)
            got.append('absent' if s_ is None else 'old' if s_ == world.old[f] else 'new' if s_ == new else 'other')
        want_tags = [w if isinstance(w, str) else 'other' for w in want]
        if got != want_tags:
            acc.disagree('c14.multi: all data files after a kill', dict(inp, crash_before_call=k),
                         {'files': got}, {'files': want_tags}, ['RB.Rewrite.c14_rewrite_atomic_multi'])


def only_bool_lines_missing(want, snap):
    """the only difference: measurement lines with a boolean value (True/False) are not there"""
    if snap is None:
        return False
    def is_bool(line):
        cols = line.split('\t')
        return len(cols) >= 14 and cols[2] in ('True', 'False')
    wl = want.split('\n')
    missing = [l for l in wl if is_bool(l)]
    return bool(missing) and [l for l in wl if not is_bool(l)] == snap.split('\n')


def strip_other(text):
    """the text without damaged data lines: the property does not say what happens to them"""
    if text is None:
        return None
    return ''.join(text[d['start']:d['end']] for d in dd.parse_file(text) if d['kind'] != 'other')


def state_text(st, old, new):
    if st == 'absent':
        return None
    if st == 'old':
        return old
    if st == 'new':
        return new
    return st['other']


def first_diff(a, b):
    if a is None or b is None:
        return {'expected': None if a is None else a[:60], 'got': None if b is None else b[:60]}
    n = min(len(a), len(b))
    i = next((j for j in range(n) if a[j] != b[j]), n)
    return {'at': i, 'expected': a[i:i + 80], 'got': b[i:i + 80]}


def compress(ops):
    out = []
    for o in ops:
        if out and out[-1][0] == o:
            out[-1][1] += 1
        else:
            out.append([o, 1])
    return ['%s x%d' % (o, n) if n > 1 else o for o, n in out]


def check_clean(acc, world, exp, tmpdir, model_fn, filters=(), extra=(), fail=()):
    """`-c`: every data file of the selected experiments is emptied - also one that receives no new
    data point in this session (its runs fail, are filtered out, or nothing is executed: -E) -, the
    data files of experiments that are not selected are untouched.
    (docs/usage.md: "-c, --clean  Discard old data from the data file (configured in the run
    description)"; actual behaviour, modelled: the files of the experiments compiled for the session,
    i.e. chosen by the experiment name, whatever the run filters are.)"""
    params = world.params
    filters, extra, fail = list(filters), list(extra), sorted(fail)
    sel = select(params, exp, filters)
    compiled = select(params, exp, [])
    inp = {'params': params, 'experiment': exp, 'option': '-c', 'filters': filters, 'extra_options': extra,
           'failing_executors': fail}
    world.reset()
    exe_file = {'E': 'exe', 'E2': 'exe2', 'E3': 'exe3'}
    world.scn.fail_exes = set(exe_file[e] for e in fail)
    try:
        res = drive_fs.run_traced(session_fn(world, ['-c'] + extra, exp, filters), world.paths, tmpdir)
    finally:
        world.scn.fail_exes = set()
    acc.impl_traces += 1
    acc.count('clean')
    cleaned = sorted(set(file_of(params, world.keys[k]) for k in compiled))
    executes = '-E' not in extra
    ok_runs = [k for k in sel if world.keys[k][2] not in fail] if executes else []
    gets_data = set(file_of(params, world.keys[k]) for k in ok_runs)
    for f in cleaned:
        acc.count('clean:file-%s' % ('receives-new-data' if f in gets_data else 'receives-no-data'))
    acc.case(nontrivial_key=(str(params), exp, '-c', tuple(filters), tuple(extra), tuple(fail)), sample=inp)
    if res['exit'] != 'ok':
        acc.disagree('c14: traced child did not finish', inp, res, None, THEOREMS)
        return
    answers = model_fn([{'op': 'c14.clean', 'text': world.old[f]} for f in cleaned])
    status = res['result']['status']
    if status.startswith('crash') or status in ('ui_error', 'thread_exc'):
        acc.oracle_fail('no_error', inp, {'status': status, 'crash': res['result']['crash']}, {'option': '-c', 'status': status})
        return
    old_serials = {}
    for f in world.files:
        old_serials[f] = set(d['serial'] for d in dd.parse_file(world.old[f])
                             if d['kind'] in ('meas', 'prof') and d['serial'] is not None)
    for f in world.files:
        p = os.path.join(world.scn.wd, f)
        snap = res['snapshots'].get(p)
        final = res['finals'].get(p)
        want = '' if f in cleaned else world.old[f]
        sig = {'option': '-c', 'file_selected': f in cleaned,
               'file_receives_new_data': f in gets_data}
        if snap != want:
            acc.oracle_fail('clean_empties', inp, {'file': f, 'expected_len': len(want),
                                                   'got_len': None if snap is None else len(snap)}, sig)
        elif f in cleaned:
            # and nothing of the old content is in the file when the session is over
            left = [d['serial'] for d in dd.parse_file(final or '')
                    if d['kind'] in ('meas', 'prof') and d['serial'] in old_serials[f]]
            if left or (f not in gets_data and (final or '') != ''):
                acc.oracle_fail('clean_empties', inp, {'file': f, 'old_lines_left': len(left),
                                                       'final_len': None if final is None else len(final)},
                                dict(sig, at='end_of_session'))
    for f, ans in zip(cleaned, answers):
        snap = res['snapshots'].get(os.path.join(world.scn.wd, f))
        if snap != ans['content']:
            acc.disagree('c14.clean: content after truncation', inp, {'len': None if snap is None else len(snap)},
                         ans, ['RB.Rewrite.c14_clean_empties'])
    trunc = [e for e in res['events'] if e[0] == 'truncate']
    if sorted(e[1] for e in trunc) != sorted('data%d' % world.files.index(f) for f in cleaned):
        acc.disagree('c14.clean: which files are truncated', inp, {'truncated': trunc}, {'files': cleaned},
                     ['RB.Rewrite.c14_clean_empties'])
    started = {}
    for (exe, bench) in res['result']['starts']:
        k = world.key_of(exe, bench)
        started[k] = started.get(k, 0) + 1
    want_started = {k: params['invocations'] for k in ok_runs}
    if started != want_started:
        acc.oracle_fail('regenerates', inp, {'started': started, 'expected': want_started}, {'option': '-c'})


def clean_variants(params):
    """(experiment, filters, extra options, failing executors): files that receive new data and
    files that do not"""
    u, v = params['u'], params.get('v')
    out = [(None, [], [], []), ('all', [], [], []), ('all', [], ['-E'], []), (None, [], [], ['E'])]
    if u:
        out += [('U', [], [], []), ('all', [], [], ['E2']), ('all', ['e:E'], [], []),
                ('all', ['s:S:' + params['t'][0]], [], ['E'])]
    if v:
        out += [('V', [], [], ['E3']), ('all', ['e:E3', 'e:E'], [], ['E']), ('all', [], [], ['E', 'E3'])]
    return out


class _ModelOnly(object):
    """`Check.model` without a Check (worker processes)"""
    pid = 'C14'
    model = lib.Check.model


def safe_scenario_job(job):
    """for the worker pool: an exception of the harness travels to the parent as a value (a worker
    that dies or raises must not leave the pool hanging)"""
    try:
        return scenario_job(job)
    except BaseException:      # pylint: disable=broad-except
        import traceback
        return ('harness-exception', job[1], traceback.format_exc())


def scenario_job(job):
    """one scenario: all selections on both placements, crash runs, -c; returns an Acc"""
    import random
    (i, params, seed, tier, n_sel, scratch, tmp_same, tmp_shm) = job
    quick = tier == 'quick'
    rng = random.Random(seed * 7919 + i)
    model = _ModelOnly().model
    acc = dd.Acc()
    my_same = os.path.join(tmp_same, 'j%d' % i)
    my_shm = os.path.join(tmp_shm, 'j%d' % i)
    os.makedirs(my_same, exist_ok=True)
    os.makedirs(my_shm, exist_ok=True)
    world = World(os.path.join(scratch, 'w%d' % i), params, shm=my_shm)
    acc.count('scenario:%s:%d-runs' % ('profile' if params['profile'] else 'benchmark', len(world.keys)))
    acc.count('file-bytes>8192' if max(len(t) for t in world.old.values()) > 8192 else 'file-bytes<=8192')
    if world.problem:
        acc.disagree('c14: base session did not run as assumed', {'params': params}, {'problem': world.problem}, None)
        return acc
    sels = gen_selections(rng, params, n_sel)
    pending = []
    for j, (exp, filters) in enumerate(sels):
        for placement, tmpdir in (('same_fs', my_same), ('other_fs', my_shm)):
            # quick: selection 1 is killed on both temp placements, selection 2 with the temp dir on /dev/shm
            do_crash = (j == 1 or (j == 2 and placement == 'other_fs')) if quick else (j < 6)
            cp = crash_selector(tier, rng, exhaustive=not quick,
                                faults=(j == 1 and placement == 'same_fs') or not quick) if do_crash else None
            obs = observe_selection(acc, world, exp, filters, tmpdir, placement, cp)
            if obs is not None:
                pending.append(obs)
    all_ops = [op for o in pending for op in o['ops']]
    all_ans = []
    for k in range(0, len(all_ops), 40):
        all_ans += model(all_ops[k:k + 40])
    pos = 0
    mops, mobs = [], []
    for o in pending:
        n = len(o['ops'])
        judge_selection(acc, world, o, all_ans[pos:pos + n])
        judge_faults(acc, world, o)
        m = multi_op(world, o, dict(zip(o['rewritten'], all_ans[pos:pos + n])))
        if m is not None:
            mops.append(m)
            mobs.append(o)
        pos += n
    mans = []
    for k in range(0, len(mops), 40):
        mans += model(mops[k:k + 40])
    for o, a in zip(mobs, mans):
        judge_multi(acc, world, o, a)
    cvs = clean_variants(params)
    if quick and len(cvs) > 6:
        cvs = cvs[:2] + cvs[2::2][:4]
    for (exp, filters, extra, fail) in cvs:
        check_clean(acc, world, exp, my_same, model, filters, extra, fail)
    shutil.rmtree(world.scn.wd, ignore_errors=True)
    return acc


def crash_selector(tier, rng, exhaustive, faults=False):
    def points(events):
        n = len(events)
        if exhaustive or n <= 40:
            return list(range(n + 1))
        pts = set(range(0, 4)) | set(range(n - 12, n + 1))
        # around the places where the buffer (8192) spills, and a seeded sample
        total = 0
        for i, e in enumerate(events):
            if e[0] == 'write':
                before = total // 8192
                total += len(e[1])
                if total // 8192 != before:
                    pts.update([i, i + 1])
        for _ in range(8):
            pts.add(rng.randint(0, n))
        return sorted(p for p in pts if 0 <= p <= n)
    points.faults = faults
    return points


def shm_dir(ck):
    d = '/dev/shm/verif-c14-%d' % os.getpid()
    os.makedirs(d, exist_ok=True)
    return d


CORPUS_DIR = os.path.join(lib.VERIF, 'harness', 'corpus', 'C14')


def run_case_file(ck, acc, w, idx, tmp_same, tmp_shm):
    world = World(os.path.join(ck.scratch, 'c%d' % idx), w['params'], shm=tmp_shm)
    if world.problem:
        acc.disagree('c14: base session did not run as assumed', {'params': w['params']}, {'problem': world.problem}, None)
        return
    tmpdir = tmp_shm if w.get('tmp') == 'other_fs' else tmp_same
    if w.get('option') == '-c':
        check_clean(acc, world, w.get('experiment'), tmpdir, ck.model, w.get('filters', []),
                    w.get('extra_options', []), w.get('failing_executors', []))
        return
    cp = None
    if w.get('crash_before_call') is not None:
        k = w['crash_before_call']
        cp = lambda events, k=k, w=w: [resolve_crash(events, k, w.get('call'), w.get('nth', 0))]
    if w.get('fault_at_call') is not None or w.get('faults'):
        # an injected OSError: all fault points of the selection are replayed (there are few)
        def cp(events):
            return []
        cp.faults = True
    check_selection(acc, world, w.get('experiment'), w.get('filters', []), tmpdir,
                    w.get('tmp', 'same_fs'), ck.model, cp)


def resolve_crash(events, k, call, nth=0):
    """a crash point is named by the kind of call it precedes (robust against a changed number of writes)"""
    if call and (k >= len(events) or op_of_event(events[k]) != call):
        hits = [i for i, e in enumerate(events) if op_of_event(e) == call]
        if hits:
            return hits[min(nth, len(hits) - 1)]
    return min(k, len(events))


def run(ck):
    import json
    quick = ck.tier == 'quick'
    ck.rule = ('files produced by real sessions (2-6 runs, 1-2 experiments, benchmark/profile, one larger than the '
               'I/O buffer); per selection (experiment + e:/s: filters) a traced real -r session with TMPDIR on the '
               'same file system and on /dev/shm; a kill before every mutating call (quick: all calls of small '
               'files, sampled + buffer boundaries for large ones; thorough: every call); -c per experiment choice; '
               'non-trivial = a selection that removes at least one run, or a crash run')
    ck.assumptions = ['process-kill model: os._exit without flushing; the kernel page cache is not modelled',
                      'model variant compared: ' + RV]
    tmp_same = os.path.join(ck.scratch, 'tmp')
    os.makedirs(tmp_same, exist_ok=True)
    tmp_shm = shm_dir(ck)
    acc = dd.Acc()
    try:
        if os.stat(tmp_shm).st_dev == os.stat(ck.scratch).st_dev:
            raise lib.InfraError('/dev/shm is not a second file system here')
        idx = 0
        if os.path.isdir(CORPUS_DIR):
            for fn in sorted(os.listdir(CORPUS_DIR)):
                if fn.endswith('.json'):
                    w = json.load(open(os.path.join(CORPUS_DIR, fn)))
                    run_case_file(ck, acc, w, idx, tmp_same, tmp_shm)
                    acc.count('corpus:' + fn[:-5])
                    idx += 1
        n_scn = 9 if quick else 160
        n_sel = 8 if quick else 25
        jobs = [(i, gen_params(ck.rng, i, ck.tier), ck.seed, ck.tier, n_sel, ck.scratch, tmp_same, tmp_shm)
                for i in range(n_scn)]
        if quick:
            for job in jobs:
                scenario_job(job).merge_into(acc)
        else:
            # scenarios are independent: shard them over processes (each has its own work directory)
            import multiprocessing
            nproc = min(10, max(1, (os.cpu_count() or 2) - 2))
            with multiprocessing.get_context('fork').Pool(nproc) as pool:
                for a in pool.imap_unordered(safe_scenario_job, jobs):
                    if isinstance(a, tuple):
                        raise lib.InfraError('scenario %s: %s' % (a[1], a[2][-1500:]))
                    a.merge_into(acc)
            ck.notes.append('%d scenarios sharded over %d processes; a kill before every mutating call of the '
                            'first 6 selections of each scenario on both temp placements' % (n_scn, nproc))
        ck.exhaustive = not quick
    finally:
        shutil.rmtree(tmp_shm, ignore_errors=True)
        acc.merge_into(ck)
    dd.debug_dump(ck)


def replay(ck, data):
    inp = data['input']
    tmp_same = os.path.join(ck.scratch, 'tmp')
    os.makedirs(tmp_same, exist_ok=True)
    tmp_shm = shm_dir(ck)
    acc = dd.Acc()
    try:
        w = {'params': inp['params'], 'experiment': inp.get('experiment'), 'filters': inp.get('filters', []),
             'tmp': inp.get('tmp', 'same_fs'), 'option': inp.get('option'),
             'extra_options': inp.get('extra_options', []), 'failing_executors': inp.get('failing_executors', []),
             'crash_before_call': inp.get('crash_before_call'), 'call': inp.get('call'), 'nth': inp.get('nth', 0),
             'fault_at_call': inp.get('fault_at_call')}
        run_case_file(ck, acc, w, 0, tmp_same, tmp_shm)
    finally:
        shutil.rmtree(tmp_shm, ignore_errors=True)
        acc.merge_into(ck)
