"""C05 -- the built-in gauge adapters recover exactly the measurements a harness printed.

Correspondence (1): render-then-parse.  Iteration sequences (1-40 iterations,
0-5 extra criteria each) are rendered in every documented format with every
numeral shape the grammar admits (integer, decimal, trailing dot, leading dot,
exponent), both time units, optional prefixes, LF / CR-LF, interleaved noise
lines from a grammar that cannot produce format lines; the text goes through
the real `parse_data` and through the Lean model `c05.parse`; both must equal
the by-construction expectation (the oracle): model exactly (rationals), the
implementation exactly where every float operation is exact and within 1 ulp
per float operation otherwise.

Correspondence (2): the recognisers of the model against Python's `re`
(`match` with all groups, `search`, `float()`) on grammar-guided near-misses.
"""
import json
import os
import re
import time
from fractions import Fraction

import lib
import drive_adapters as da

TH_ROUNDTRIP = ['RB.Adapters.c05_parse_render_roundtrip_' + a for a in
                ('rebench', 'validation', 'savina', 'jmh', 'time_formatted', 'plain', 'time_p')] + \
               ['RB.Adapters.c05_collect_ignores_noise', 'RB.Adapters.c05_collect_groups', 'RB.Adapters.c05_spec_roundtrip']
TH_CLASSIFY = ['RB.Adapters.c05_classify_render_savina', 'RB.Adapters.c05_classify_render_jmh',
               'RB.Adapters.c05_classify_render_time_formatted', 'RB.Adapters.c05_classify_render_time_rss',
               'RB.Adapters.c05_classify_render_plain', 'RB.Adapters.c05_classify_render_time_p',
               'RB.Adapters.c05_rebench_classify_render', 'RB.Adapters.c05_rebench_extra_classify_render',
               'RB.Adapters.c05_validation_classify_render', 'RB.Adapters.c05_validation_actors_classify_render',
               'RB.Adapters.c05_numeral_value']

# ------------------------------------------------------------------ grammar
NAME_CH = 'abcdefghijklmnopqrstuvwxyzABCDEFGHIJKLMNOPQRSTUVWXYZ0123456789_.'
NOISE_WORDS = ['Starting', 'benchmark', 'warmup', 'done', 'GC', 'pause', '===', '--', '#', 'JIT', 'compiled',
               'foo(bar)', 'VM', 'options', '[info]', 'heap', 'resized', 'thread', 'started', '*', '...', 'ok',
               'Total', 'wall-time', 'max', 'rss', 'Iteration', 'runtime', 'iterations', 'success', 'real', 'user']


def gen_name(rng, extra=''):
    """benchmark name; with `extra` also other non-space characters, but never ending in `:` (a name
    ending in a colon followed by a criterion reads as a prefix: the documented grammar is ambiguous there)"""
    n = rng.choice([1, 2, 5, 9, 20])
    s = ''.join(rng.choice(NAME_CH + extra) for _ in range(n))
    return s + 'x' if s.endswith(':') else s


def gen_word(rng):
    """[\\w.]+ , never `total` / `real`"""
    while True:
        w = gen_name(rng)
        if w not in ('total', 'real'):
            return w


_bait = {'on': False}
_stats = {}


def gen_prefix(rng):
    r = rng.random()
    if r < 0.6 or _bait['on']:
        # (text used after an inner separator in a noise line never has a prefix: `words<sep>pre: B: ...`
        # is a format line with the prefix `words<sep>pre` -- any text may precede ": ")
        return ''
    return rng.choice(['pre: ', '[12:00:01] INFO: ', 'a b: ', 'x: y: ', 'log> run 3: ', gen_name(rng) + ': '])


def gen_numeral(rng, shapes):
    """(text, exact value); shapes: subset of int, dec, dot, ldot, exp"""
    shape = rng.choice(shapes)
    ip = rng.choice(['0', '1', '7', '42', '557', '64208', '309557', '00012', str(rng.randint(0, 10 ** rng.randint(1, 12)))])
    fp = rng.choice(['0', '5', '23', '001', '500', ''.join(rng.choice('0123456789') for _ in range(rng.randint(1, 9)))])
    if shape == 'int':
        return ip, Fraction(int(ip))
    if shape == 'dec':
        return ip + '.' + fp, Fraction(int(ip + fp), 10 ** len(fp))
    if shape == 'dot':
        return ip + '.', Fraction(int(ip))
    if shape == 'ldot':
        return '.' + fp, Fraction(int(fp), 10 ** len(fp))
    # exponent on any mantissa shape
    mt, mv = gen_numeral(rng, [s for s in shapes if s != 'exp'])
    e = rng.choice([0, 1, 2, 3, 5, 10, 22, rng.randint(0, 40)])
    sign = rng.choice(['', '+', '-'])
    txt = mt + rng.choice('eE') + sign + rng.choice(['', '0']) + str(e)
    return txt, mv * (Fraction(10) ** (-e if sign == '-' else e))


ALL_SHAPES = ['int', 'dec', 'dot', 'ldot', 'exp']


INNER_SEPARATORS = da.INNER_SEPARATORS


# Lines that are failure markers for *other* adapters only: each adapter has its own private
# error expressions (adapter.py check_for_error: the three common ones plus `_other_error_definitions`
# of the instance). For the adapter in use such a line is unrelated output and contributes nothing.
MARKER_PHRASES = {
    'error': ['no errors found', 'errors and warnings none', 'stderr', 'terror'],
    'incorrect': ['incorrect', 'nothing incorrect here'],
    'npb.partial': ['Failed the verification', 'Failed verification'],
    'npb.invalid': ['Benchmark done verification failed'],
}
OWN_MARKERS = {
    'ReBenchLog': ['incorrect', 'npb.partial', 'npb.invalid'],
    'ValidationLog': ['incorrect', 'npb.partial', 'npb.invalid'],
    'PlainSecondsLog': ['incorrect', 'npb.partial', 'npb.invalid', 'error'],
    'SavinaLog': [], 'JMH': [], 'TimeFormatted': [], 'TimeP': [],
}


def foreign_marker_lines(adapter):
    """phrases matching only error expressions that belong to other adapters"""
    import re as _re
    pats = da.search_patterns()
    own = [pats[k] for k in OWN_MARKERS[adapter]] + [pats['Error'], pats['Segmentation fault'], pats['Bus error']]
    out = []
    for k, phrases in MARKER_PHRASES.items():
        if k in OWN_MARKERS[adapter]:
            continue
        for ph in phrases:
            if pats[k].search(ph) and not any(o.search(ph) for o in own):
                out.append(ph)
    return out


def gen_noise(rng, adapter=None):
    """a line in no format.  With an adapter: sometimes a line that has, after some words and a
    separator other than LF *inside* it, text that would be a format line on its own (a progress
    display overwritten with CR, a form feed, ...): the adapters split at LF only, so the whole
    thing is one line that matches nothing and contributes nothing"""
    r = rng.random()
    if r < 0.15:
        return ''
    words = ' '.join(rng.choice(NOISE_WORDS) for _ in range(rng.randint(1, 6)))
    if adapter is not None and 0.15 <= r < 0.3:
        foreign = foreign_marker_lines(adapter)
        if foreign:
            _stats['foreign-marker-noise'] = _stats.get('foreign-marker-noise', 0) + 1
            return rng.choice([words + ' ', '']) + rng.choice(foreign) + rng.choice(['', ' ' + words])
    if adapter is not None and r > 0.7:
        _bait['on'] = True
        try:
            bait_lines, _ = RENDER[adapter](rng, 1)
        finally:
            _bait['on'] = False
        bait = rng.choice(bait_lines)
        sep = rng.choice(INNER_SEPARATORS)
        if rng.random() < 0.3:
            sep = rng.choice([' ', '']) + sep
        return words + sep + bait
    return words


def ws(rng):
    return rng.choice(['', ' ', '    ', '\t'])


# every renderer returns (lines, expected) for k iterations; expected = list of data points,
# each a list of (criterion, unit, value, exact?) with value a canonical ('f', Fraction) etc.
def render_rebench(rng, k):
    lines, exp = [], []
    name = gen_name(rng, ':$-')
    for _ in range(k):
        dp = []
        for _ in range(rng.choice([0, 0, 1, 2, 3, 5])):
            if rng.random() < 0.7:
                crit = ''.join(rng.choice('abcXYZ019 _.#%()-/') for _ in range(rng.choice([1, 4, 10, 29, 30])))
                if crit == 'total':
                    crit = 'Total'
                txt, v = gen_numeral(rng, ALL_SHAPES)
                unit = rng.choice(['byte', 'kb', 'ms', 'us', 'MB', 'x', 'ops'])
                lines.append('%s%s: %s:%s%s%s' % (gen_prefix(rng), name, crit, ws(rng), txt, unit))
                dp.append((crit, unit, ('f', v), [v]))
            else:
                crit = gen_word(rng)
                txt, v = gen_numeral(rng, ALL_SHAPES)
                u = rng.choice(['ms', 'us'])
                lines.append('%s%s %s: iterations=%d runtime: %s%s' % (gen_prefix(rng), name, crit, rng.randint(0, 5000), txt, u))
                dp.append((crit, 'ms', ('f', v / 1000 if u == 'us' else v), [v]))
        txt, v = gen_numeral(rng, ALL_SHAPES)
        r = rng.random()
        if r < 0.8:
            u = rng.choice(['ms', 'us'])
            crit = rng.choice(['', '', ' total'])
            lines.append('%s%s%s: iterations=%d runtime: %s%s' % (gen_prefix(rng), name, crit, rng.randint(0, 5000), txt, u))
            dp.append(('total', 'ms', ('f', v / 1000 if u == 'us' else v), [v]))
        else:
            unit = rng.choice(['ms', 'us', 's'])
            lines.append('%s%s: total:%s%s%s' % (gen_prefix(rng), name, ws(rng), txt, unit))
            dp.append(('total', unit, ('f', v), [v]))
        exp.append(dp)
    return lines, exp


def render_plain(rng, k):
    lines, exp = [], []
    for _ in range(k):
        txt, v = gen_numeral(rng, ALL_SHAPES)
        lines.append(rng.choice(['', '', ' ', '  ', '\t']) + txt + rng.choice(['', '', ' ', '  ']))
        exp.append([('total', 'ms', ('f', v * 1000), [v])])
    return lines, exp


def render_savina(rng, k):
    lines, exp = [], []
    name = gen_name(rng)
    for i in range(k):
        txt, v = gen_numeral(rng, ['dec'])
        lines.append('%s%sIteration-%d:%s%s ms' % (name, rng.choice([' ', '  ', '\t']), rng.choice([i, i + 1, 0, 12345]),
                                                    rng.choice([' ', '   ', '\t']), txt))
        exp.append([('total', 'ms', ('f', v), [v])])
    return lines, exp


def render_validation(rng, k):
    lines, exp = [], []
    name = gen_name(rng)
    for _ in range(k):
        dp = []
        for _ in range(rng.choice([0, 0, 1, 2, 5])):
            crit = gen_word(rng)
            n = rng.choice([0, 5, 557, 64208, rng.randint(0, 10 ** 9)])
            u = rng.choice(['ms', 'us'])
            ok = rng.random() < 0.5
            lines.append('%s%s %s: iterations=%d runtime: %d%s success: %s'
                         % (gen_prefix(rng), name, crit, rng.randint(0, 99), n, u, 'true' if ok else 'false'))
            dp.append(('Success', 'bool', ('b', ok), []))
            dp.append((crit, 'ms', ('f', Fraction(n, 1000) if u == 'us' else Fraction(n)), [Fraction(n)]))
        if rng.random() < 0.75:
            n = rng.choice([0, 5, 557, 64208, rng.randint(0, 10 ** 9)])
            u = rng.choice(['ms', 'us'])
            ok = rng.random() < 0.5
            lines.append('%s%s%s: iterations=%d runtime: %d%s success: %s'
                         % (gen_prefix(rng), name, rng.choice(['', ' total']), rng.randint(0, 99), n, u,
                            'true' if ok else 'false'))
            dp.append(('Success', 'bool', ('b', ok), []))
            dp.append(('total', 'ms', ('f', Fraction(n, 1000) if u == 'us' else Fraction(n)), [Fraction(n)]))
        else:
            a, m, p = rng.randint(0, 10 ** 6), rng.randint(0, 10 ** 9), rng.choice([0, 7, 10 ** 12])
            sp = lambda: rng.choice([' ', '\t', '  '])
            lines.append('[Total]%sA#%d%sM#%d%sP#%d' % (sp(), a, sp(), m, sp(), p))
            dp += [('Actors', 'count', ('i', a), []), ('Messages', 'count', ('i', m), []),
                   ('Promises', 'count', ('i', p), []), ('total', 'ms', ('i', 0), [])]
        exp.append(dp)
    return lines, exp


def render_jmh(rng, k):
    lines, exp = [], []
    for i in range(k):
        txt, v = gen_numeral(rng, ['int', 'dec'])
        unit = rng.choice(['ops/s', 'ms/op', 'us/op', 'ns/op', 's/op', 'ops/ms', 'ops / s', 'MB/sec', '%'])
        head = rng.choice(['Iteration', '# Warmup Iteration'])
        sp = lambda: rng.choice([' ', '   ', '\t'])
        lines.append('%s%s%d:%s%s%s%s' % (head, sp(), i + 1, sp(), txt, sp(), unit))
        exp.append([('total', unit, ('f', v), [v])])
    return lines, exp


def render_time_formatted(rng, k):
    lines, exp = [], []
    for _ in range(k):
        dp = []
        for _ in range(rng.choice([0, 1, 1, 1, 2, 5])):
            n = rng.choice([0, 1024, 51234, rng.randint(0, 10 ** 8)])
            lines.append('max rss (kb): %d' % n)
            dp.append(('MaxRSS', 'kb', ('f', Fraction(n)), [Fraction(n)]))
        txt, v = gen_numeral(rng, ['dec'])
        lines.append('wall-time (secounds): ' + txt)
        dp.append(('total', 'ms', ('f', v * 1000), [v]))
        exp.append(dp)
    return lines, exp


def render_time_p(rng, k):
    """one invocation of `time -p` (or of the shell's `time`): real / user / sys and up to 5 other
    word-named times, in any order; one data point"""
    entries = [('real', None)] + [(w, None) for w in rng.sample(['user', 'sys', 'cpu', 'gc', 'io', 'wait_1'],
                                                                 rng.choice([0, 1, 2, 2, 2, 5]))]
    rng.shuffle(entries)
    lines, others, total = [], [], None
    for (w, _) in entries:
        txt, sec = gen_numeral(rng, ['dec'])
        if rng.random() < 0.6:
            lines.append('%s%s%s' % (w, rng.choice([' ', '\t', '    ']), txt))
            v, parts = sec * 1000, [sec]
        else:
            mins = rng.choice([0, 1, 12, 100])
            lines.append('%s%s%dm%ss' % (w, rng.choice([' ', '\t', '    ']), mins, txt))
            v, parts = (Fraction(mins) * 60 + sec) * 1000, [Fraction(mins), sec, Fraction(mins) * 60 + sec]
        m = ('total' if w == 'real' else w, 'ms', ('f', v), parts)
        if w == 'real':
            total = m
        else:
            others.append(m)
    return lines, [others + [total]]


RENDER = {'ReBenchLog': render_rebench, 'PlainSecondsLog': render_plain, 'SavinaLog': render_savina,
          'ValidationLog': render_validation, 'JMH': render_jmh, 'TimeFormatted': render_time_formatted,
          'TimeP': render_time_p}


def gen_case(rng, adapter):
    k = 1 if adapter == 'TimeP' else rng.choice([1, 1, 2, 3, 5, 10, 40, rng.randint(1, 40)])
    lines, exp = RENDER[adapter](rng, k)
    noise_rate = rng.choice([0, 0, 0.2, 0.5])
    out = []
    for l in lines:
        while rng.random() < noise_rate:
            out.append(gen_noise(rng, adapter))
        out.append(l)
    while rng.random() < noise_rate:
        out.append(gen_noise(rng, adapter))
    eol = rng.choice(['\n', '\n', '\r\n', 'mixed'])
    text = ''
    for i, l in enumerate(out):
        e = rng.choice(['\n', '\r\n']) if eol == 'mixed' else eol
        if i == len(out) - 1 and rng.random() < 0.3:
            e = ''
        text += l + e
    inv = rng.choice([1, 1, 2, 3, 17, 1000])
    expected = [[(inv, it + 1, m[0], m[1], m[2]) for m in dp] for it, dp in enumerate(exp)]
    exact = [[all(da.representable(q) for q in m[3]) and (m[2][0] != 'f' or da.representable(m[2][1])) for m in dp]
             for dp in exp]
    return {'adapter': adapter, 'text': text, 'inv': inv, 'eol': {'\n': 'lf', '\r\n': 'crlf'}.get(eol, 'mixed'),
            'expected': expected, 'exact': exact, 'k': k,
            'extra': max(len(dp) for dp in exp) - 1, 'noise': noise_rate > 0,
            'inner_sep': any(any(sp in l for sp in INNER_SEPARATORS if sp != '\r') or '\r' in l for l in out if l not in lines)}


def ser_expected(exp):
    return [[list(m[:4]) + [[m[4][0]] + [da.frac_str(x) if isinstance(x, Fraction) else x for x in m[4][1:]]] for m in dp]
            for dp in exp]


def deser_expected(j):
    out = []
    for dp in j:
        o = []
        for m in dp:
            v = m[4]
            val = ('f', da.big_frac(v[1])) if v[0] == 'f' else tuple(v)
            o.append((m[0], m[1], m[2], m[3], val))
        out.append(o)
    return out


def field_diff(got, expected, exact, ulps):
    """first difference between a parse result and the by-construction expectation"""
    if got['outcome'] != 'ok':
        return 'outcome', got['outcome']
    a, b = got['dps'], expected
    if len(a) != len(b):
        return 'count', 'iterations %d, expected %d' % (len(a), len(b))
    for i, (da_, db) in enumerate(zip(a, b)):
        if [m[2] for m in da_] != [m[2] for m in db]:
            return 'criteria', 'iteration %d: %r, expected %r' % (i + 1, [m[2] for m in da_], [m[2] for m in db])
        for j, (ma, mb) in enumerate(zip(da_, db)):
            if ma[0] != mb[0]:
                return 'invocation', 'iteration %d: %r, expected %r' % (i + 1, ma[0], mb[0])
            if ma[1] != mb[1]:
                return 'iteration', 'data point %d numbered %r' % (i + 1, ma[1])
            if ma[3] != mb[3]:
                return 'unit', 'iteration %d %s: %r, expected %r' % (i + 1, ma[2], ma[3], mb[3])
            ok = (ma[4] == mb[4]) if (exact is None or exact[i][j]) else da.value_close(ma[4], mb[4], ulps)
            if not ok:
                return 'value', 'iteration %d %s: %r, expected %r' % (i + 1, ma[2], ma[4], mb[4])
    return None


IMPL_BUDGET = {'spent': 0.0, 'cap': None, 'exceeded': False, 'skipped': 0}


def check_history(ck):
    """state leak between adapters: what an adapter returns for a text must not depend on which
    adapters were instantiated and used before in the same process. Run before anything else has
    touched the adapters: every adapter parses texts (with noise that is a failure marker for other
    adapters only) in a random order, and once more after all the others were used."""
    order = list(da.ADAPTERS)
    ck.rng.shuffle(order)
    first = []
    for a in order:
        for _ in range(4):
            c = gen_case(ck.rng, a)
            first.append((c, da.impl_parse(a, c['text'], False, c['inv'])))
    ck.rng.shuffle(first)
    for c, r1 in first:
        r2 = da.impl_parse(c['adapter'], c['text'], False, c['inv'])
        ck.count('history:reparsed-after-other-adapters')
        if da.jsonable(r1) != da.jsonable(r2):
            ck.oracle_fail('history_independent',
                           {'kind': 'roundtrip', 'adapter': c['adapter'], 'text': c['text'], 'inv': c['inv'], 'eol': c['eol'],
                            'expected': ser_expected(c['expected']), 'exact': c['exact'], 'history': order},
                           {'first': da.jsonable(r1), 'after_other_adapters': da.jsonable(r2)},
                           {'adapter': c['adapter'], 'clause': 'history_independent'})
    return [c for c, _ in first]


BAD_BYTES = [b'\xb1', b'\xa0', b'\xff', b'\xe2\x82', b'\xc3', b'\xf0\x9f\x98', b'\x80\x80']


def check_bytes(ck, n):
    """the byte-level path: what a harness wrote reaches the adapter through
    `rebench.output.output_as_str` (subprocess_with_timeout). A line that misses the format only
    because of a byte that is not valid UTF-8 (a Latin-1 character, a multi-byte character cut off)
    is noise; the byte must not be dropped silently, or the rest of the line becomes a format line.
    Oracle: parsing the output as ReBench decodes it equals parsing it with every undecodable byte
    replaced by U+FFFD (the documented `errors="replace"`); the model gets the latter text."""
    from rebench.output import output_as_str
    cases = []
    for _ in range(n):
        a = ck.rng.choice(da.ADAPTERS)
        c = gen_case(ck.rng, a)
        eol = b'\r\n' if c['eol'] == 'crlf' else b'\n'
        lines = c['text'].encode('utf-8').split(b'\n')
        for _k in range(ck.rng.choice([1, 1, 2, 3])):
            _bait['on'] = True
            try:
                bait_lines, _ = RENDER[a](ck.rng, 1)
            finally:
                _bait['on'] = False
            bl = ck.rng.choice(bait_lines).encode('utf-8')
            pos = ck.rng.randint(0, len(bl))
            # not inside a multi-byte character of the line itself
            while 0 < pos < len(bl) and (bl[pos] & 0xC0) == 0x80:
                pos += 1
            broken = bl[:pos] + ck.rng.choice(BAD_BYTES) + bl[pos:]
            lines.insert(ck.rng.randint(0, len(lines)), broken + (b'\r' if eol == b'\r\n' else b''))
        raw = b'\n'.join(lines)
        cases.append((a, c['inv'], raw))
    ops = [{'op': 'c05.parse', 'adapter': a, 'text': raw.decode('utf-8', 'replace'), 'faulty': False, 'inv': inv}
           for (a, inv, raw) in cases]
    answers = da.model_parallel(ck, ops)
    for (a, inv, raw), ans in zip(cases, answers):
        ref_text = raw.decode('utf-8', 'replace')
        impl_text = output_as_str(raw)
        ref = da.impl_parse(a, ref_text, False, inv)
        impl = da.impl_parse(a, impl_text, False, inv)
        model = da.model_obs(ans)
        dropped = da.impl_parse(a, raw.decode('utf-8', 'ignore'), False, inv)
        ck.count('bytes:' + a)
        if da.jsonable(dropped) != da.jsonable(ref):
            ck.count('bytes:dropping-the-byte-would-change-the-result')
        inp = {'kind': 'bytes', 'adapter': a, 'inv': inv, 'raw_latin1': raw.decode('latin-1')}
        ck.case(nontrivial_key=('bytes', a, raw), sample={'adapter': a, 'raw': repr(raw[:200])})
        if da.jsonable(impl) != da.jsonable(ref):
            ck.oracle_fail('undecodable_byte_is_noise', inp,
                           {'as_rebench_decodes_it': da.jsonable(impl), 'with_U+FFFD': da.jsonable(ref),
                            'decoded': impl_text[:300]},
                           {'adapter': a, 'clause': 'undecodable_byte_is_noise'})
        d = da.structure_diff(impl, model, 3 if a == 'TimeP' else 1)
        if d is not None:
            ck.disagree('c05.parse (byte-level): output_as_str + %s.parse_data vs RB.Adapters.parse on the text with U+FFFD (%s)' % (a, d),
                        inp, da.jsonable(impl), da.jsonable(model), TH_ROUNDTRIP + TH_CLASSIFY)


def check_roundtrip(ck, cases):
    ops = [{'op': 'c05.parse', 'adapter': c['adapter'], 'text': c['text'], 'faulty': False, 'inv': c['inv']} for c in cases]
    answers = da.model_parallel(ck, ops)
    for c, ans in zip(cases, answers):
        inp = {'kind': 'roundtrip', 'adapter': c['adapter'], 'text': c['text'], 'inv': c['inv'], 'eol': c['eol'],
               'expected': ser_expected(c['expected']), 'exact': c['exact']}
        if IMPL_BUDGET['exceeded']:
            IMPL_BUDGET['skipped'] += 1
            continue
        _t0 = time.time()
        impl = da.impl_parse(c['adapter'], c['text'], False, c['inv'])
        IMPL_BUDGET['spent'] += time.time() - _t0
        if IMPL_BUDGET['cap'] is not None and IMPL_BUDGET['spent'] > IMPL_BUDGET['cap']:
            IMPL_BUDGET['exceeded'] = True
        model = da.model_obs(ans)
        ulps = 3 if c['adapter'] == 'TimeP' else 1
        ck.count('rt:%s' % c['adapter'])
        ck.count('eol:' + c['eol'])
        ck.count('iterations:' + ('1' if c['k'] == 1 else '2-5' if c['k'] <= 5 else '6-39' if c['k'] < 40 else '40'))
        ck.count('extra-criteria:%d' % min(c.get('extra', 0), 5))
        if c.get('noise'):
            ck.count('with-noise')
        if c.get('inner_sep'):
            ck.count('noise-with-inner-separator+format-text')
        ck.case(nontrivial_key=('rt', c['adapter'], c['text']),
                sample={'adapter': c['adapter'], 'text': c['text'][:300], 'iterations': c['k']})
        # model against the expectation: exact
        dm = field_diff(model, c['expected'], None, 0)
        di = field_diff(impl, c['expected'], c['exact'], ulps)
        d = da.structure_diff(impl, model, ulps)
        if d is not None:
            ck.disagree('c05.parse: %s.parse_data vs RB.Adapters.parse (%s)' % (c['adapter'], d), inp,
                        da.jsonable(impl), da.jsonable(model), TH_ROUNDTRIP + TH_CLASSIFY)
        elif dm is not None:
            # both sides agree with each other but not with the rendering: the oracle below reports it;
            # without an oracle failure it is a flaw of the generator
            ck.count('model-and-impl-differ-from-expectation')
        if di is not None:
            ck.oracle_fail('roundtrip', inp, {'field': di[0], 'what': di[1], 'impl': da.jsonable(impl)},
                           {'adapter': c['adapter'], 'field': di[0],
                            'eol': 'crlf' if '\r' in c['text'] else 'lf'})
        elif dm is not None:
            raise lib.InfraError('generator expectation differs from model but not from implementation: %r %r'
                                 % (dm, c['text'][:200]))


# ------------------------------------------------------ recognisers vs `re`
PAT_SHAPES = {
    'rebench.log': ['rebench.log', 'rebench.extra', 'validation.log'],
    'rebench.extra': ['rebench.extra', 'rebench.log'],
    'savina': ['savina', 'jmh'],
    'validation.log': ['validation.log', 'rebench.log'],
    'validation.actors': ['validation.actors'],
    'jmh': ['jmh', 'savina'],
    'time': ['time', 'time2'],
    'time2': ['time2', 'time', 'plain'],
    'time.formatted': ['time.formatted', 'time.rss'],
    'time.rss': ['time.rss', 'time.formatted'],
}


def gen_line(rng, shapes):
    r = rng.random()
    if r < 0.35:
        return ''.join(da.shape_tokens(rng, da.pick(rng, shapes))).replace('\n', ' ')
    if r < 0.9:
        return da.near_miss_line(rng, da.pick(rng, shapes))
    return da.random_string(rng).replace('\n', ' ')


def check_recognisers(ck, n_per):
    pats = da.patterns()
    spats = da.search_patterns()
    jobs = []   # (kind, name, line)
    for name in sorted(pats):
        for _ in range(n_per):
            line = gen_line(ck.rng, PAT_SHAPES[name])
            if da.in_scope(line):
                jobs.append(('match', name, line))
    for name in sorted(spats):
        for _ in range(max(50, n_per // 8)):
            r = ck.rng.random()
            if r < 0.5:
                line = ck.rng.choice(['', 'x ', 'pre: ']) + da.pick(ck.rng, da.MARKERS) + ck.rng.choice(['', ' y', '!'])
                if ck.rng.random() < 0.5:
                    toks = list(line)
                    if toks:
                        i = ck.rng.randrange(len(toks))
                        toks[i] = da.pick(ck.rng, da.ODD_CHARS)
                    line = ''.join(toks)
            else:
                line = gen_line(ck.rng, da.SHAPES)
                if ck.rng.random() < 0.5:
                    j = ck.rng.randrange(len(line) + 1)
                    line = line[:j] + da.pick(ck.rng, da.MARKERS) + line[j:]
            jobs.append(('search', name, line.replace('\n', ' ')))
    for _ in range(n_per):
        line = gen_line(ck.rng, ['plain'])
        if da.in_scope(line):
            jobs.append(('float', 'float', line))
    ops = []
    for kind, name, line in jobs:
        if kind == 'match':
            ops.append({'op': 'c05.match', 're': name, 'line': line, 'groups': pats[name][1]})
        elif kind == 'search':
            ops.append({'op': 'c05.search', 're': name, 'line': line})
        else:
            ops.append({'op': 'c05.float', 'line': line})
    answers = da.model_parallel(ck, ops, chunk=4000)
    for (kind, name, line), ans in zip(jobs, answers):
        if 'err' in ans:
            raise lib.InfraError('model driver: %r for %r' % (ans, (kind, name, line)))
        inp = {'kind': kind, 're': name, 'line': line}
        if kind == 'match':
            m = pats[name][0].match(line)
            impl = None if m is None else list(m.groups())
            model = ans['m']
            ck.count('re:%s:%s' % (name, 'match' if impl is not None else 'no'))
            ck.case(nontrivial_key=('re', name, line) if impl is not None else None)
        elif kind == 'search':
            impl = spats[name].search(line) is not None
            model = ans['m']
            ck.count('search:%s:%s' % (name, impl))
            ck.case(nontrivial_key=('search', name, line) if impl else None)
        else:
            try:
                impl = list(da.canon_value(float(line)))
            except ValueError:
                impl = None
            model = None if ans['v'] is None else list(da.model_value(ans['v']))
            ck.count('float:%s' % ('ok' if impl is not None else 'ValueError'))
            ck.case(nontrivial_key=('float', line) if impl is not None else None)
            if impl is not None and model is not None and impl[0] == 'f' == model[0]:
                if da.value_close(tuple(impl), tuple(model), 1):
                    continue
            elif impl is not None and model is not None and model[0] == 'f' and impl[0] == 'inf':
                if da.value_close(tuple(impl), tuple(model), 1):
                    continue
        if impl != model:
            ck.disagree('c05.%s: Python %s vs RB.Adapters recogniser %s' % (kind, 're' if kind != 'float' else 'float()', name),
                        inp, json.loads(json.dumps(impl, default=str)), json.loads(json.dumps(model, default=str)),
                        TH_CLASSIFY)
            # search for a failing input of the property around this line
            if kind == 'match':
                for adapter, shapes in da.SHAPES_OF.items():
                    if any(s == name or (name == 'jmh' and s == 'jmh') for s in shapes):
                        directed_roundtrips(ck, adapter, 40)


_directed_done = set()


def directed_roundtrips(ck, adapter, n):
    if adapter in _directed_done:
        return
    _directed_done.add(adapter)
    check_roundtrip(ck, [gen_case(ck.rng, adapter) for _ in range(n)])


# ------------------------------------------------------------------ sessions
SESSION_ADAPTERS = ['ReBenchLog', 'JMH', 'PlainSecondsLog', 'SavinaLog', 'ValidationLog']


def session_cases(ck, n):
    """whole sessions with a scripted process: what reaches the data file (observe_at: measurement
    lines). Most sessions have two suites with *different* gauge adapters (their invocations
    alternate under round-robin), whose outputs contain noise that is a failure marker for the
    other adapter only: what one adapter recovers must not depend on the other being in use."""
    import drive
    for idx in range(n):
        adapters = [ck.rng.choice(SESSION_ADAPTERS)]
        if ck.rng.random() < 0.7:
            adapters.append(ck.rng.choice([a for a in SESSION_ADAPTERS if a != adapters[0]]))
        n_inv = ck.rng.choice([1, 2, 3])
        suites = []
        for si, adapter in enumerate(adapters):
            cases = []
            while len(cases) < n_inv:
                c = gen_case(ck.rng, adapter)
                # criteria / units with a tab or CR do not survive the data file (C07's finding): keep them out
                if c['k'] <= 6 and not any('\t' in m[2] or '\t' in m[3] for dp in c['expected'] for m in dp):
                    cases.append(c)
            suites.append({'name': 'S%d' % si, 'adapter': adapter, 'cases': cases, 'n': 0})
        sched = ck.rng.choice(['batch', 'round-robin']) if len(suites) > 1 else 'batch'
        wd = os.path.join(ck.scratch, 'c05s%d' % idx)
        os.makedirs(wd)
        cfg = {'default_experiment': 'T', 'default_data_file': 't.data', 'runs': {'invocations': n_inv},
               'benchmark_suites': {su['name']: {'gauge_adapter': {'ReBenchLog': 'RebenchLog'}.get(su['adapter'], su['adapter']),
                                                 'command': 'h-%s %%(benchmark)s' % su['name'], 'benchmarks': ['B']}
                                    for su in suites},
               'executors': {'E': {'path': '.', 'executable': 'exe'}},
               'experiments': {'T': {'suites': [su['name'] for su in suites], 'executions': ['E']}}}
        conf = drive.write_config(wd, cfg)

        def script(rec, suites=suites):
            for su in suites:
                if (' h-%s ' % su['name']) in (' ' + str(rec['args']) + ' '):
                    k = su['n']
                    su['n'] += 1
                    return drive.Outcome(0, su['cases'][min(k, len(su['cases']) - 1)]['text'])
            return drive.Outcome(0, '')
        r = drive.run_session(wd, (['-s', sched] if sched != 'batch' else []) + [conf], script)
        ck.impl_traces += 1
        all_rows = drive.read_data_file(os.path.join(wd, 't.data'))['rows']
        inp = {'kind': 'session', 'adapters': adapters, 'scheduler': sched,
               'outputs': {su['name']: [c['text'] for c in su['cases']] for su in suites}}
        ck.count('session:' + '+'.join(adapters))
        ck.count('session-suites:%d' % len(suites))
        ck.case(nontrivial_key=('session', tuple(adapters), sched, tuple(c['text'] for su in suites for c in su['cases'])))
        problem = None
        if r.crash or r.status() != 'ok':
            problem = 'session ended %s %r' % (r.status(), r.crash)
        for su in suites:
            if problem:
                break
            rows = [row for row in all_rows if len(row) > 7 and row[7] == su['name']]
            want = []
            for i, c in enumerate(su['cases']):
                for dp in c['expected']:
                    for m in dp:
                        want.append((i + 1, m[1], m[2], m[3], m[4]))
            if len(rows) != len(want):
                problem = 'suite %s (%s): rows %d, expected %d' % (su['name'], su['adapter'], len(rows), len(want))
                break
            for row, w in zip(rows, want):
                got = (int(row[0]), int(row[1]), row[4], row[3])
                if got != (w[0], w[1], w[2], w[3]):
                    problem = 'suite %s: row %r, expected %r' % (su['name'], got, w[:4])
                    break
                v = w[4]
                if v[0] == 'f':
                    if abs(Fraction(row[2]) - v[1]) > abs(v[1]) * Fraction(1, 10 ** 9) + Fraction(6, 10 ** 7):
                        problem = 'value %r, expected %r' % (row[2], float(v[1]))
                        break
                elif v[0] == 'b':
                    if row[2] != str(v[1]):
                        problem = 'value %r, expected %r' % (row[2], v[1])
                        break
                elif v[0] == 'i':
                    if Fraction(row[2]) != v[1]:
                        problem = 'value %r, expected %r' % (row[2], v[1])
                        break
        if problem:
            ck.oracle_fail('session_rows', inp, {'problem': problem, 'status': r.status(), 'rows': all_rows[:10]},
                           {'adapter': '+'.join(adapters),
                            'eol': 'crlf' if any('\r' in c['text'] for su in suites for c in su['cases']) else 'lf'})


def cli_debug_sessions(ck, n):
    """the real CLI with -d in a child process: with -d the output of the harness is captured by a
    different loop (it is echoed while it arrives). More than 4 KiB of ReBenchLog output whose
    criterion names consist of multi-byte characters, laid out so that such characters straddle the
    4096-byte boundaries: every criterion must reach the data file exactly as printed."""
    import drive
    import drive_config
    for idx in range(n):
        wd = os.path.join(ck.scratch, 'c05dbg%d' % idx)
        os.makedirs(wd)
        word = ck.rng.choice(['m\u00e9moire', '\u0394heap', '\u00e9\u00e8\u00ea\u00eb', '\u20ac\u20ac\u20ac', 'gc\U0001F600'])
        n_it = ck.rng.choice([150, 300])
        best = None
        for pad in range(0, 48, 3):
            lines, want = ['x' * pad] if pad else [], []
            for i in range(1, n_it + 1):
                crit = '%s-%s%d' % (word, word, i)
                lines.append('B: %s: %dkb' % (crit, i))
                lines.append('B: iterations=1 runtime: %dms' % i)
                want.append((i, crit, 'kb'))
                want.append((i, 'total', 'ms'))
            raw = ('\n'.join(lines) + '\n').encode('utf-8')
            straddles = sum(1 for b in range(4096, len(raw), 4096) if (raw[b] & 0xC0) == 0x80)
            if best is None or straddles > best[0]:
                best = (straddles, raw, want)
        straddles, raw, want = best
        with open(os.path.join(wd, 'out.bin'), 'wb') as f:
            f.write(raw)
        with open(os.path.join(wd, 'vm.sh'), 'w') as f:
            f.write('#!/bin/sh\n/bin/cat %s/out.bin\n' % wd)
        os.chmod(os.path.join(wd, 'vm.sh'), 0o755)
        cfg = {'default_data_file': 'd.data', 'runs': {'invocations': 1},
               'benchmark_suites': {'S': {'gauge_adapter': 'RebenchLog', 'command': '%(benchmark)s', 'benchmarks': ['B']}},
               'executors': {'E': {'path': wd, 'executable': 'vm.sh'}},
               'experiments': {'X': {'suites': ['S'], 'executions': ['E']}}}
        conf = drive.write_config(wd, cfg)
        debug = idx % 2 == 0
        r = drive_config.run_cli(wd, (['-d'] if debug else []) + [conf])
        ck.impl_traces += 1
        rows = drive.read_data_file(os.path.join(wd, 'd.data'))['rows']
        got = [(int(row[1]), row[4], row[3]) for row in rows]
        inp = {'kind': 'cli-debug', 'debug': debug, 'bytes': len(raw), 'criterion_word': word, 'iterations': n_it,
               'multi_byte_characters_on_4096_boundaries': straddles}
        ck.count('cli-session:%s' % ('-d' if debug else 'plain'))
        ck.count('cli-session:characters-straddling-4KiB-boundaries', straddles)
        ck.case(nontrivial_key=('cli-debug', debug, word, n_it))
        if r.crash or r.status() != 'ok':
            ck.oracle_fail('session_rows', inp, {'problem': 'session ended %s' % r.status(), 'stderr': r.stderr[-400:]},
                           {'adapter': 'ReBenchLog', 'clause': 'session_rows', 'session': 'cli-d' if debug else 'cli'})
        elif got != want:
            bad = [(g, w) for g, w in zip(got, want) if g != w][:3]
            ck.oracle_fail('session_rows', inp, {'problem': 'rows differ from what the harness printed', 'rows': len(got),
                                                 'expected_rows': len(want), 'first_differences': bad},
                           {'adapter': 'ReBenchLog', 'clause': 'session_rows', 'session': 'cli-d' if debug else 'cli'})


# -------------------------------------------------------------------- corpus
def corpus_cases():
    d = os.path.join(lib.VERIF, 'harness', 'corpus', 'C05')
    out = []
    if os.path.isdir(d):
        for f in sorted(os.listdir(d)):
            if f.endswith('.json'):
                for c in json.load(open(os.path.join(d, f)))['cases']:
                    out.append(c)
    return out


def from_stored(c):
    exp = deser_expected(c['expected'])
    return {'adapter': c['adapter'], 'text': c['text'], 'inv': c['inv'], 'eol': c.get('eol', 'lf'), 'expected': exp,
            'exact': c.get('exact') or [[True for _ in dp] for dp in exp], 'k': len(exp),
            'extra': max(len(dp) for dp in exp) - 1}


def run(ck):
    quick = ck.tier == 'quick'
    da.check_alphabet()
    ck.rule = ('render-then-parse: 1-40 iterations with 0-5 extra criteria per iteration, numeral shapes int / '
               'decimal / trailing dot / leading dot / exponent, ms and us, optional prefixes ending in ": ", LF / '
               'CR-LF / mixed, noise lines between any two lines; non-trivial = distinct rendered text; plus the '
               'model recognisers against Python re.match (all groups) / search / float() on near-miss lines '
               '(non-trivial = a line that matches)')
    ck.assumptions = [
        'character classes: the model is exact for ASCII, Python\'s complete \\s table and the explicit list of '
        'non-ASCII word characters the generators use; other non-ASCII digits/letters are outside model and generators',
        'float rounding is not modelled: the implementation must equal the exact expectation where every float '
        'operation involved is exact, and agree within 1 ulp per float operation otherwise (time -p: 3 operations)',
        'Time in its `-p` mode represents one invocation as one data point; sequences of several iterations are '
        'rendered for the six other formats only',
        'exponents are bounded to three digits (the model keeps exact rationals)',
        'ReBenchLog benchmark names are any non-space text not ending in a colon; prefixes end in ": "; criteria of '
        'extra-criterion lines contain no ":" and no "="; noise lines contain no colon, digit or marker word',
    ]
    # the implementation's share of the run is bounded: a change that makes parsing much slower must not
    # push the check past its budget unnoticed (normal: ~2 s quick, ~60 s thorough)
    IMPL_BUDGET.update(spent=0.0, cap=40.0 if quick else 600.0, exceeded=False, skipped=0)
    hist = check_history(ck)
    cases = [from_stored(c) for c in corpus_cases()] + hist
    per = 300 if quick else 10000
    gen = []
    for a in da.ADAPTERS:
        for _ in range(per):
            gen.append(gen_case(ck.rng, a))
    # adapters interleave: every parse happens after a different history of adapter uses
    ck.rng.shuffle(gen)
    cases += gen
    for i in range(0, len(cases), 14000):
        check_roundtrip(ck, cases[i:i + 14000])
    ck.count('noise:foreign-marker-lines', _stats.get('foreign-marker-noise', 0))
    if IMPL_BUDGET['exceeded']:
        msg = ('the implementation used more than %.0f s of parse time (normally a few seconds): %d of %d '
               'round-trip cases were not evaluated' % (IMPL_BUDGET['cap'], IMPL_BUDGET['skipped'], len(cases)))
        ck.notes.append('BUDGET: ' + msg)
        ck.count('budget-exceeded:cases-skipped', IMPL_BUDGET['skipped'])
        print('BUDGET property=C05 ' + msg)
    check_bytes(ck, 600 if quick else 20000)
    check_recognisers(ck, 2000 if quick else 100000)
    session_cases(ck, 24 if quick else 300)
    cli_debug_sessions(ck, 4 if quick else 20)


def replay(ck, data):
    da.check_alphabet()
    inp = data['input']
    if inp.get('kind') == 'cli-debug':
        cli_debug_sessions(ck, 4)
    elif inp.get('kind') == 'bytes':
        ck.notes.append('byte-level replays are re-generated from the seed: VERIF_SEED=%s' % data.get('seed'))
        check_bytes(ck, 600)
    elif inp.get('kind') == 'roundtrip':
        check_roundtrip(ck, [from_stored(inp)])
    elif inp.get('kind') == 'session':
        ck.notes.append('session replays are re-generated from the seed: VERIF_SEED=%s' % data.get('seed'))
        session_cases(ck, 12)
    else:
        pats = da.patterns()
        name, line = inp['re'], inp['line']
        # re-run the single comparison through the generic path
        ck.rng.seed(0)
        if inp['kind'] == 'match':
            ans = ck.model([{'op': 'c05.match', 're': name, 'line': line, 'groups': pats[name][1]}])[0]
            m = pats[name][0].match(line)
            impl = None if m is None else list(m.groups())
            ck.case(nontrivial_key=('re', name, line))
            if impl != ans['m']:
                ck.disagree('c05.match: Python re vs RB.Adapters recogniser ' + name, inp, impl, ans['m'], TH_CLASSIFY)
                for adapter, shapes in da.SHAPES_OF.items():
                    if name in shapes:
                        directed_roundtrips(ck, adapter, 200)
        else:
            check_recognisers(ck, 200)
