"""C10 — failures stay contained and the exit status tells the truth.

Correspondence: whole sessions through `ReBench().run` (wrapped like
`main_func`) in-process with scripted processes, several runs each with its own
behaviour, against the Lean model `RB.Sched.mainFunc` (op `c10.session`).

Oracle (independent of the model):
  containment   runs that share neither a missing executable nor a failed build
                with a failing run start the same processes and record the same
                data as in a control session without the other runs;
  exit_status   0 iff every selected run has N invocations in the data file (or -f), else 1;
                2 on user abort, 3 on usage / configuration errors;
  no_traceback  no exception escapes, whatever characters occur.
"""
import json
import os
import _thread

import lib
import drive
import drive_sched as ds
from corr import c04

THEOREMS = ['RB.Sched.c10_containment', 'RB.Sched.c10_containment_closed', 'RB.Sched.c10_exit_status_spec',
            'RB.Sched.c10_never_crashes', 'RB.Sched.c10_usage_errors', 'RB.Sched.c10_abort_status']

BEHAVIOURS = ['ok', 'fail0', 'failk', 'done', 'missing', 'build', 'adapter']
OK = {'rc': 0, 'dps': 1}
FAIL = {'rc': 1, 'dps': 0}


def make_scenario(assign, rng, share_exe=None, n_val=None, deco=None, retries=None):
    """assign: list of behaviours; returns (scn, scripts, info)"""
    runs, scripts = [], []
    for i, b in enumerate(assign):
        n = n_val if n_val is not None else rng.randint(1, 3)
        # successful invocations deliver 1-4 data points and warm-up varies 0-3, so that the number of samples
        # (non-warm-up data points) and the number of recorded invocations differ in both directions
        r = {'N': n, 'retries': rng.choice([0, 0, 1, 2]) if retries is None else retries,
             'exe': i if share_exe is None else share_exe[i], 'beh': b,
             'warmup': rng.choice([None, 0, 1, 2, 3])}

        def ok():
            return dict(OK, dps=rng.choice([1, 2, 3, 4]))
        if b == 'ok' or b == 'done':
            sc = [ok() for _ in range(n)]
        elif b == 'fail0' and rng.random() < 0.25:
            # the process cannot be started at all: Popen raises OSError (ENOENT: the working directory of the
            # suite does not exist; EACCES). Only this run is concerned, whatever executor it uses.
            sc = [{'oserror': rng.choice([2, 2, 13])}]
            r['oserror'] = True
        elif b == 'fail0':
            sc = [dict(rng.choice([FAIL, {'rc': 0, 'dps': 0}, {'rc': 0, 'dps': 1, 'marker': True}, {'rc': -9, 'dps': 1},
                                   {'rc': 126, 'dps': 0}]))] * (r['retries'] + 1)
        elif b == 'failk':
            r['N'] = n = max(2, n)
            k = rng.randint(1, n - 1)
            sc = [ok() for _ in range(k)] + [dict(FAIL)] * (r['retries'] + 1)
        elif b == 'missing':
            sc = [ok() for _ in range(rng.choice([0, 0, 1]))] + [{'rc': 127, 'dps': 0}]
            if len(sc) > n:
                sc = sc[-1:]
        elif b == 'build':
            sc = [ok() for _ in range(n)]
            if rng.random() < 0.5:
                r['ebuild'] = r['exe']
            else:
                r['sbuild'] = i
        elif b == 'adapter':
            sc = [ok() for _ in range(n)]
            r['adapter'] = False
        runs.append(r)
        scripts.append(sc)
    # custom gauge adapters given as {ClassName: file}: several suites use the SAME class name with different
    # files; an unknown adapter may be one of them (its file does not define the class)
    if rng.random() < 0.35:
        names = ['LogAdapter', 'LogAdapter', 'LogAdapter', 'RebenchLog', 'Other']
        v = 0
        for r in runs:
            if r['beh'] == 'adapter':
                if rng.random() < 0.7:
                    v += 1
                    r['custom'] = {'cls': rng.choice(names), 'variant': v, 'broken': True}
            elif rng.random() < 0.6:
                v += 1
                r['custom'] = {'cls': rng.choice(names), 'variant': v}
    # executors in different directories whose executable has the same file name: the same name is not the same
    # executable (`exe` stays the identity of path/executable)
    if rng.random() < 0.3:
        names = [rng.randrange(2) for _ in range(len(runs))]
        by_exe = {}
        for r, nm in zip(runs, names):
            r['file'] = by_exe.setdefault(r['exe'], nm)
    # some runs have a time limit (a scripted process never exceeds it)
    for r in runs:
        if rng.random() < 0.3:
            r['maxtime'] = rng.choice([30, 600, 1200])
    # runs on an executor with a build all carry it (the build belongs to the executor)
    eb = {}
    for r in runs:
        if r.get('ebuild') is not None:
            eb[r['exe']] = r['ebuild']
    for r in runs:
        if r['exe'] in eb:
            r['ebuild'] = eb[r['exe']]
    # executors in different directories whose build commands have the same text: not the same build
    # (a build is its script *and* its location). Give intact executors a working build of their own, too.
    if any(r.get('file') is not None for r in runs) and rng.random() < 0.6:
        for r in runs:
            if r.get('ebuild') is None and r['beh'] != 'build' and rng.random() < 0.6:
                r['ebuild'] = r['exe']
        eb = {}
        for r in runs:
            if r.get('ebuild') is not None:
                eb[r['exe']] = r['ebuild']
        for r in runs:
            if r['exe'] in eb:
                r['ebuild'] = eb[r['exe']]
                r['ebuild_text'] = 0
    scn = {'runs': runs}
    if deco:
        scn['deco'] = deco
    return scn, scripts


def failing_builds(scn):
    out = {}
    for i, r in enumerate(scn['runs']):
        if r['beh'] == 'build':
            if r.get('sbuild') is not None:
                out['s%d' % r['sbuild']] = 1
            else:
                out['e%d' % r['ebuild']] = 1
    return out


def affected(scn, fb):
    """runs that share a missing executable or a failed build with ANOTHER failing run"""
    res = set()
    for i, r in enumerate(scn['runs']):
        for j, q in enumerate(scn['runs']):
            if i == j:
                continue
            if q['beh'] == 'missing' and q['exe'] == r['exe']:
                res.add(i)
            if r.get('ebuild') is not None and ('e%d' % r['ebuild']) in fb and q.get('ebuild') == r['ebuild']:
                res.add(i)
    return res


def _new_rows(before, after):
    return after['rows'][len(before['rows']):]


class Interrupting(drive.Outcome):
    """a process during which the user presses Ctrl-C: delivers KeyboardInterrupt to the main thread and ends"""

    def __init__(self):
        drive.Outcome.__init__(self, -9, '')
        self._fired = False

    @property
    def interrupt(self):
        if not self._fired:
            self._fired = True
            # a real SIGINT to our own process: the main thread, blocked in the join on this process' thread,
            # takes the KeyboardInterrupt while the "process" is still running
            import signal
            import time
            os.kill(os.getpid(), signal.SIGINT)
            time.sleep(0.05)
        return False

    @interrupt.setter
    def interrupt(self, _v):
        pass


def run_scenario(ck, scn, scripts, sched, choices, faulty, tag, stop_at=None, with_control=True):
    rng = ck.rng
    wd = c04._mkwd(ck)
    fb = failing_builds(scn)
    inp = {'kind': 'scenario', 'scn': scn, 'scripts': scripts, 'sched': sched, 'choices': choices, 'faulty': faulty,
           'stop_at': stop_at}
    done = [i for i, r in enumerate(scn['runs']) if r['beh'] == 'done']
    init = None
    file_before = {'rows': []}
    # ---- session A: an earlier session that completes the 'done' runs (selected with suite filters)
    if done:
        sessA = {'sched': 'batch', 'scripts': scripts, 'builds': fb, 'argv': ['s:S%d%s' % (i, (scn.get('deco') or {}).get('name_suffix', '')) for i in done]}
        obsA = ds.run_session(wd, scn, sessA)
        ck.impl_traces += 1
        if not session_clean(ck, inp, obsA, 'prepare'):
            return
        c04.queue_of(ck).add(c04.session_op('c10.session', scn, sessA, obsA['order']),
                             lambda ansA: c04.compare_session(ck, 'c10.session(prepare)', inp, obsA, ansA, THEOREMS,
                                                              check_status=True))
        oracle_exit(ck, inp, scn, obsA, False, obsA['order'], 'prepare')
        # the state the data file hands to the next session (checked against the model by the comparison above)
        init = [{'maxInv': obsA['final'][i]['maxInv'], 'samples': obsA['final'][i]['samples']} if i in obsA['final']
                else {'maxInv': 0, 'samples': 0} for i in range(len(scn['runs']))]
        file_before = obsA['file']
    # ---- session B: the session under test
    sessB = {'sched': sched, 'choices': choices, 'faulty': faulty, 'scripts': [list(s) for s in scripts], 'builds': fb}
    if stop_at is not None:
        sessB['interrupt_at'] = stop_at
    obsB = run_with_interrupt(wd, scn, sessB, stop_at)
    ck.impl_traces += 1
    obsB['file_new'] = _new_rows(file_before, obsB['file'])
    files = {}
    for r in scn['runs']:
        if r.get('file') is not None:
            files.setdefault(r['file'], set()).add(r['exe'])
    if any(len(v) > 1 for v in files.values()):
        ck.count('same-file-name-in-different-directories')
        if any(r['beh'] == 'missing' and len(files.get(r.get('file'), ())) > 1 for r in scn['runs']):
            ck.count('missing-binary-shares-file-name-with-intact-executor')
    texts = {}
    for r in scn['runs']:
        if r.get('ebuild_text') is not None:
            texts.setdefault(r['ebuild_text'], set()).add(r['ebuild'])
    if any(len(v) > 1 for v in texts.values()):
        ck.count('same-build-text-in-different-directories')
        if fb:
            ck.count('same-build-text-one-failing')
    cls_names = {}
    for r in scn['runs']:
        if r.get('custom'):
            cls_names.setdefault(r['custom']['cls'], []).append(bool(r['custom'].get('broken')))
    if any(len(v) > 1 for v in cls_names.values()):
        ck.count('custom-adapters-same-class-name')
        if any(len(v) > 1 and any(v) and not all(v) for v in cls_names.values()):
            ck.count('unknown-adapter-shares-name-with-valid-one')
    if any(r.get('oserror') for r in scn['runs']):
        ck.count('run-that-cannot-be-started (OSError)')
        exes = [r['exe'] for r in scn['runs']]
        if any(r.get('oserror') and exes.count(r['exe']) > 1 for r in scn['runs']):
            ck.count('OSError-run-shares-executor-with-healthy-runs')
    if stop_at is not None and any(r.get('maxtime') is not None for r in scn['runs']):
        ck.count('abort-with-max_invocation_time')
    for r, sc in zip(scn['runs'], scripts):
        ck.count('beh:' + r['beh'])
        w = r.get('warmup') or 0
        good = [o['dps'] for o in sc if o.get('rc') == 0 and o.get('dps') and not o.get('marker')]
        if good and max(good) > 1:
            ck.count('several-data-points-per-invocation')
        if good and w >= min(good):
            ck.count('invocation-all-warmup')
        if r['beh'] == 'failk' and sum(max(0, d - w) for d in good) >= r['N']:
            ck.count('abandoned-with-samples>=N')
    ck.count('sched:' + sched)
    ck.count('status:' + obsB['status'])
    ck.case(nontrivial_key=(tag, json.dumps(scn, sort_keys=True), sched, faulty, str(stop_at))
            if any(r['beh'] not in ('ok',) for r in scn['runs']) else None,
            sample={'behaviours': [r['beh'] for r in scn['runs']], 'sched': sched, 'status': obsB['status']})
    if not session_clean(ck, inp, obsB, 'main', allow_abort=stop_at is not None):
        return
    op = c04.session_op('c10.session', scn, sessB, obsB['order'], init=init, stop_at=stop_at)
    c04.queue_of(ck).add(op, lambda ansB: compare_main(ck, inp, obsB, ansB, stop_at))
    if stop_at is None:
        oracle_exit(ck, inp, scn, obsB, faulty, obsB['order'], 'main')
        # an unknown gauge adapter is reported (and its run records nothing), whatever other adapters are called
        aff0 = affected(scn, fb)
        unknown = [i for i, r in enumerate(scn['runs']) if r['beh'] == 'adapter' and i not in aff0 and i in obsB['order']]
        if unknown and not obsB.get('mentions_missing_adapter'):
            ck.oracle_fail('unknown_adapter_reported', inp,
                           {'runs_with_unknown_adapter': unknown, 'status': obsB['status'],
                            'adapters': [r.get('custom') or ('built-in' if r.get('adapter', True) else 'NoSuchThing')
                                         for r in scn['runs']]},
                           signature={'same_class_name_as_a_valid_adapter': True})
    elif obsB['status'] not in ('aborted',):
        # the stop point may lie beyond the last start: then the session must end normally
        n_starts = sum(1 for (kind, _r, _i) in obsB['log'] if kind == 'start')
        if n_starts >= stop_at:
            ck.oracle_fail('exit_status', inp, {'status': obsB['status'], 'expected': 'aborted (exit 2)'},
                           signature={'expected': 'aborted', 'got': obsB['status']})
    containment(ck, inp, scn, scripts, fb, done, obsB, faulty, with_control and stop_at is None)


def compare_main(ck, inp, obsB, ansB, stop_at):
    if stop_at is not None and ansB['status'] == 'aborted':
        m_starts, m_records, _b = c04.model_views(ansB)
        i_starts, i_records, _b2 = c04.impl_views(obsB)
        if m_starts != i_starts or m_records != i_records or obsB['status'] != 'aborted':
            ck.disagree('c10.session: interrupted session vs RB.Sched.mainFunc', inp,
                        {'status': obsB['status'], 'starts': i_starts, 'records': i_records},
                        {'status': ansB['status'], 'starts': m_starts, 'records': m_records}, THEOREMS)
        return
    c04.compare_session(ck, 'c10.session', inp, obsB, ansB, THEOREMS, check_status=True)


def containment(ck, inp, scn, scripts, fb, done, obsB, faulty, enabled):
    rng = ck.rng
    # ---- containment: control session without the other runs
    if enabled:
        aff = affected(scn, fb)
        unaffected = [i for i in range(len(scn['runs'])) if i not in aff and i not in done]
        removed = [i for i in range(len(scn['runs'])) if i in aff]
        if unaffected and (removed or rng.random() < (0.1 if ck.tier == "quick" else 0.2)):
            # control: only the unaffected runs, batch scheduler, fresh data file
            wd2 = c04._mkwd(ck)
            sfx = (scn.get('deco') or {}).get('name_suffix', '')
            sessC = {'sched': 'batch', 'faulty': faulty, 'scripts': [list(s) for s in scripts], 'builds': fb,
                     'argv': ['s:S%d%s' % (i, sfx) for i in unaffected]}
            obsC = ds.run_session(wd2, scn, sessC)
            ck.impl_traces += 1
            if session_clean(ck, inp, obsC, 'control'):
                for i in unaffected:
                    a = per_run(obsB, i, obsB['file_new'])
                    b = per_run(obsC, i, obsC['file']['rows'])
                    ck.count('containment-checked')
                    if a != b:
                        ck.oracle_fail('containment', inp, {'run': i, 'behaviour': scn['runs'][i]['beh'],
                                                            'with_others': a, 'control': b},
                                       signature={'behaviour_of_run': scn['runs'][i]['beh'],
                                                  'others': sorted(set(r['beh'] for j, r in enumerate(scn['runs']) if j != i))})
        # every unaffected run, even without control: compare with the single-run property expectation
        for i in range(len(scn['runs'])):
            if i in aff or i in done:
                continue
            r = scn['runs'][i]
            if r['beh'] in ('build', 'adapter'):
                exp_starts = []
            else:
                cfg = {'N': r['N'], 'retries': r['retries'], 'warmup': r.get('warmup'), 'ignore_timeouts': False}
                exp_starts = c04.prop_expect(cfg, faulty, scripts[i])['starts']
            got = [inv for (kind, rr, inv) in obsB['log'] if kind == 'start' and rr == i]
            if got != exp_starts:
                ck.oracle_fail('containment', inp, {'run': i, 'behaviour': r['beh'], 'starts': got,
                                                    'expected_alone': exp_starts},
                               signature={'behaviour_of_run': r['beh'], 'against': 'single-run expectation'})


def per_run(obs, i, rows):
    return {'starts': [inv for (kind, r, inv) in obs['log'] if kind == 'start' and r == i],
            'rows': [row[1:] for row in rows if row[0] == i]}


def run_with_interrupt(wd, scn, sess, stop_at):
    if stop_at is None:
        return ds.run_session(wd, scn, sess)
    # wrap the Script class so that the stop_at-th benchmark start interrupts the main thread
    orig_call = ds.Script.__call__
    counter = {'n': 0}

    def call(self, rec):
        out = orig_call(self, rec)
        if rec.get('run') is not None:
            counter['n'] += 1
            if counter['n'] == stop_at:
                return Interrupting()
        return out
    ds.Script.__call__ = call
    # a check started in the background (`cmd &`, nohup) inherits SIGINT = ignore, and then no KeyboardInterrupt
    # is ever raised: install Python's default handler for the duration of the session
    import signal
    old_handler = signal.signal(signal.SIGINT, signal.default_int_handler)
    try:
        obs = ds.run_session(wd, scn, sess)
        # safety net against a lost interrupt (never a false alarm): an unexpected ending is confirmed twice
        for attempt in range(2):
            if obs['status'] == 'aborted' or counter['n'] < stop_at:
                break
            counter['n'] = 0
            wd_retry = wd + '-retry%d' % attempt
            os.makedirs(wd_retry)   # (abort scenarios start from an empty data file)
            obs = ds.run_session(wd_retry, scn, sess)
        return obs
    finally:
        ds.Script.__call__ = orig_call
        signal.signal(signal.SIGINT, old_handler if old_handler is not None else signal.SIG_DFL)


def session_clean(ck, inp, obs, which, allow_abort=False):
    ok_status = ('ok', 'failed') + (('aborted',) if allow_abort else ())
    if obs['crash'] or obs['traceback']:
        crash = obs['crash'] or ['?', '', []]
        ck.oracle_fail('no_traceback', dict(inp, session=which),
                       {'exception': crash[0], 'message': crash[1], 'frames': crash[2], 'tail': obs['out_tail'][-300:]},
                       signature={'exception': crash[0], 'raised_in': (crash[2] or ['?'])[-1],
                                  'special_chars': sorted((inp.get('scn') or {}).get('deco', {}).keys())})
        return False
    if obs['status'] not in ok_status or obs['unknown_starts'] or obs['order'] is None:
        ck.oracle_fail('exit_status', dict(inp, session=which), {'status': obs['status'], 'tail': obs['out_tail'][-300:]},
                       signature={'expected': 'ok-or-failed', 'got': obs['status']})
        return False
    return True


def oracle_exit(ck, inp, scn, obs, faulty, selected, which):
    """exit 0 iff every selected run has its configured number of invocations in the data file, or -f"""
    invs = {}
    for row in obs['file']['rows']:
        if row[3] == 'total':
            invs.setdefault(row[0], set()).add(row[1])
    short = [i for i in selected if len(invs.get(i, ())) < scn['runs'][i]['N']]
    expected = 'ok' if (faulty or not short) else 'failed'
    if obs['status'] != expected:
        kinds = sorted(set(scn['runs'][i]['beh'] for i in (short or selected)))
        ck.oracle_fail('exit_status', dict(inp, session=which),
                       {'status': obs['status'], 'expected': expected, 'runs_short_of_N': short,
                        'recorded': {i: len(v) for i, v in invs.items()}},
                       signature={'expected': expected, 'got': obs['status'],
                                  'all_selected_runs_complete': not short, 'behaviours': kinds})


# ------------------------------------------------------------------ usage errors
USAGE = [
    ('filter s:a:b:c', ['s:a:b:c'], {'filters': [{'kind': 's', 'parts': 4}]}),
    ('filter t:a:b', ['t:a:b'], {'filters': [{'kind': 't', 'parts': 3}]}),
    ('filter s:{a}:b:c', ['s:{a}:b:c'], {'filters': [{'kind': 's', 'parts': 4}]}),
    ('scheduler foo', ['-s', 'foo'], {'schedKnown': False}),
    ('scheduler {x}', ['-s', '{x}'], {'schedKnown': False}),
    ('scheduler Batch', ['-s', 'Batch'], {'schedKnown': False}),
    ('machine nope', ['-m', 'nope'], {'machineKnown': False}),
    ('experiment Nope', ['Nope'], {'expKnown': False}),
    ('experiment {x}', ['{x}'], {'expKnown': False}),
    ('valid filters', ['s:S0', 'e:E0', 's:S0:B0', 't:x'], {'filters': [{'kind': 's', 'parts': 2}, {'kind': 'e', 'parts': 2},
                                                                    {'kind': 's', 'parts': 3}, {'kind': 't', 'parts': 2}]}),
    ('filter e:a:b (accepted)', ['e:E0:zzz'], {'filters': [{'kind': 'e', 'parts': 3}]}),
]


KNOWN_NAMES = ['T', 'all']
UNKNOWN_NAMES = ['Nope', 'S:S0', 'b:B0', 'Exp:2', 'suite:S0:B0', 'T:', ':', 'E:E0', 'S0', 'é:x', 'Exp 2', 'T;x', 'x=y',
                 'T:s:S0', '*', 'e', 's', 'tt:x', '-x:y'.replace('-', '_')]
GOOD_FILTERS = ['s:S0', 'e:E0', 's:S0:B0', 's:*:B0', 'e:E0:zzz']
BAD_FILTERS = ['s:a:b:c', 't:a:b', 's:S0:B0:']


def classify_arg(tok):
    """the documented grammar: `e:`, `s:`, `t:` start a filter expression, anything else is a name"""
    if tok[:2] in ('e:', 's:', 't:'):
        return {'kind': tok[0], 'parts': len(tok.split(':'))}
    return {'kind': 'name', 'known': tok in KNOWN_NAMES}


def positional_cases(ck):
    """every kind of first positional argument (known / unknown experiment name, with and without colons and other
    special characters, well-formed / malformed filter) followed by filters and names in every order"""
    rng = ck.rng
    firsts = KNOWN_NAMES + UNKNOWN_NAMES + GOOD_FILTERS + BAD_FILTERS
    pool = GOOD_FILTERS + KNOWN_NAMES + UNKNOWN_NAMES[:6] + BAD_FILTERS[:1]
    out = []
    for f in firsts:
        out.append([f])
        for _ in range(2 if ck.tier == 'quick' else 8):
            rest = [rng.choice(pool) for _ in range(rng.randint(1, 2))]
            out.append([f] + rest)
    for argv in out:
        args = [classify_arg(t) for t in argv]
        yield ('positional ' + ' '.join(argv), argv, {'args': args})


def usage_cases(ck):
    scn = {'runs': [{'N': 1, 'retries': 0, 'exe': 0, 'beh': 'ok'}]}
    for name, argv, usage in USAGE + list(positional_cases(ck)):
        wd = c04._mkwd(ck)
        sess = {'sched': 'batch', 'scripts': [[dict(OK)]], 'argv': argv}
        # the scheduler option is part of argv here
        obs = ds.run_session(wd, scn, sess)
        # and once more through the real `main_func` (its handlers render the error messages)
        if name.startswith('positional') and ck.rng.random() < 0.6:
            mf = {'crash': None, 'traceback': False, 'exit': obs['exit']}
        else:
            mf = main_func_session(c04._mkwd(ck), scn, sess)
        if mf['crash'] or mf['traceback']:
            obs = dict(obs, crash=mf['crash'] or ['?', '', []], traceback=True, status='crash:' + (mf['crash'] or ['?'])[0])
        elif mf['exit'] != obs['exit']:
            ck.oracle_fail('exit_status', {'kind': 'usage', 'argv': argv, 'name': name},
                           {'main_func_exit': mf['exit'], 'run_exit': obs['exit']},
                           signature={'what': 'main_func differs from ReBench.run wrapper', 'usage': name.split(' ')[0]})
        ck.impl_traces += 1
        inp = {'kind': 'usage', 'argv': argv, 'name': name}
        ck.count('usage:' + obs['status'])
        if name.startswith('positional'):
            a0 = usage['args'][0]
            ck.count('first-argument:%s' % ('filter' if a0['kind'] != 'name' else 'known name' if a0['known'] else
                                            'unknown name with colon' if ':' in argv[0] else 'unknown name'))
        ck.case(nontrivial_key=('usage', name), sample={'usage': name, 'status': obs['status']})
        op = c04.session_op('c10.session', scn, {'sched': 'batch', 'scripts': [[dict(OK)]]}, [0], usage=usage)
        if name == 'valid filters':
            op['order'] = []   # the tag filter t:x selects nothing
        def cmp_usage(ans, obs=obs, inp=inp):
            impl_status = obs['status'] if not obs['status'].startswith('crash') else 'crash'
            if ans['status'] != impl_status:
                ck.disagree('c10.session: usage handling vs RB.Sched.usageStatus', inp,
                            {'status': obs['status'], 'crash': obs['crash']}, {'status': ans['status']},
                            ['RB.Sched.c10_usage_errors', 'RB.Sched.c10_never_crashes'])
        c04.queue_of(ck).add(op, cmp_usage)
        if obs['crash'] or obs['traceback']:
            crash = obs['crash'] or ['?', '', []]
            ck.oracle_fail('no_traceback', inp, {'exception': crash[0], 'message': crash[1], 'frames': crash[2]},
                           signature={'exception': crash[0], 'raised_in': (crash[2] or ['?'])[-1], 'usage': name.split(' ')[0]})
        else:
            fl = usage.get('filters', []) + [a for a in usage.get('args', []) if a['kind'] != 'name']
            first_unknown = bool(usage.get('args')) and usage['args'][0]['kind'] == 'name' and not usage['args'][0]['known']
            invalid = first_unknown or any(v is False for v in usage.values()) or any(
                not ((f['kind'] == 'e') or (f['kind'] == 's' and f['parts'] in (2, 3)) or (f['kind'] == 't' and f['parts'] == 2))
                for f in fl)
            if invalid and obs['log']:
                ck.oracle_fail('exit_status', inp, {'started_although_usage_error': obs['log'][:4]},
                               signature={'what': 'processes started', 'usage': name.split(' ')[0]})
            expected = 'ui_error' if invalid else ('ok', 'failed')
            if (obs['status'] != expected) if invalid else (obs['status'] not in expected):
                ck.oracle_fail('exit_status', inp, {'status': obs['status'], 'expected': expected},
                               signature={'expected': str(expected), 'got': obs['status'], 'usage': name.split(' ')[0]})


def main_func_session(wd, scn, sess):
    """the real `rebench.rebench.main_func` (sys.argv, its own exception handlers) with scripted processes"""
    import contextlib
    import io
    import sys
    import traceback
    from rebench import rebench as rb_main
    conf = drive.write_config(wd, ds.build_config(scn, wd))
    ds.write_custom_adapters(wd, scn)
    script = ds.Script(scn, sess)
    layer = drive.ProcessLayer(script)
    old_argv, old_cwd = sys.argv, os.getcwd()
    out = io.StringIO()
    res = {'exit': None, 'crash': None}
    sys.argv = ['rebench', '-D', conf] + list(sess.get('argv') or [])
    os.chdir(wd)
    try:
        with contextlib.redirect_stdout(out), contextlib.redirect_stderr(out), drive.scripted(layer):
            try:
                res['exit'] = rb_main.main_func()
            except SystemExit as e:
                res['exit'] = e.code
            except BaseException as e:  # noqa
                tb = traceback.extract_tb(e.__traceback__)
                res['crash'] = [type(e).__name__, str(e)[:300],
                                ['%s:%s' % (os.path.basename(f.filename), f.name) for f in tb[-3:]]]
    finally:
        sys.argv = old_argv
        os.chdir(old_cwd)
    res['traceback'] = 'Traceback (most recent call last)' in out.getvalue()
    return res


DECOS = [
    {'cmd_suffix': ' {a}'}, {'cmd_suffix': ' {}'}, {'cmd_suffix': ' }x{'}, {'cmd_suffix': ' ünï中'},
    {'noise': 'x {a} } { %s %d 100% ünï {0}'}, {'env': {'K': '{a} %s ü', 'L': '}'}},
    {'name_suffix': '{a}'}, {'name_suffix': '-ü'}, {'name_suffix': '}'},
    {'cmd_suffix': ' {a}', 'noise': '{', 'name_suffix': '{0}', 'env': {'K': '{'}},
]


def cli_bytes_case(ck, inp, tag):
    """real CLI in a child process: a failing build and a failing run print raw bytes that are not UTF-8; the build
    log is written, the error is shown by the real UI on a strict UTF-8 stdout; the other run is not disturbed"""
    import drive_cli_a as cli
    wd = c04._mkwd(ck)
    text = bytes(inp['bytes'])
    cli.write_harness(wd, {'B0': [(0, b'', 1)] * 3, 'B1': [(inp.get('rc1', 1), text, 0), (0, text, 1), (0, b'', 1)],
                           'B2': [(0, b'', 1)] * 3})
    builds = {0: "printf '%s\\n'; printf '%s\\n' >&2; exit %d" % (cli._octal(text), cli._octal(text), inp.get('build_rc', 1))}
    conf = cli.base_config(wd, {'B0': {'N': 1, 'retries': 0, 'exe': 0}, 'B1': {'N': 2, 'retries': 2, 'exe': 1},
                                'B2': {'N': 2, 'retries': 0, 'exe': 2}}, builds=builds)
    obs = cli.run_cli(wd, conf, argv=inp.get('argv') or [])
    ck.impl_traces += 1
    ck.count('real-cli:bytes in build and harness output')
    st = {}
    for a in obs['starts']:
        st.setdefault(a[0], []).append(int(a[1]))
    ck.case(nontrivial_key=(tag, str(inp)), sample={'real_cli': True, 'exit': obs['exit'], 'starts': st})
    b0_expected = [] if inp.get('build_rc', 1) != 0 else [1]
    expected_exit = 1 if inp.get('build_rc', 1) != 0 else 0
    detail = {'exit': obs['exit'], 'starts': st, 'stderr': obs['stderr_tail'][-300:]}
    if obs['traceback'] or obs['exit'] not in (0, 1):
        ck.oracle_fail('no_traceback', inp, detail,
                       signature={'real_cli': True,
                                  'exception': 'UnicodeEncodeError' if 'UnicodeEncodeError' in obs['stderr_tail'] else 'other'})
    elif st.get('B0', []) != b0_expected or st.get('B1', []) != [1, 1, 2] or st.get('B2', []) != [1, 2]:
        ck.oracle_fail('containment', inp, detail, signature={'real_cli': True, 'behaviour_of_run': 'ok'})
    elif obs['exit'] != expected_exit:
        ck.oracle_fail('exit_status', inp, detail, signature={'real_cli': True, 'expected': expected_exit, 'got': obs['exit']})


def cli_interrupt_case(ck, inp, tag):
    """real CLI, parallel scheduler (non-exclusive runs, the machine's cores), SIGINT / SIGTERM while the worker
    threads are inside an invocation: exit status 2 and nothing that looks like a traceback on stdout / stderr"""
    import signal
    import drive_cli_a as cli
    wd = c04._mkwd(ck)
    n = inp['runs']
    cli.write_harness(wd, dict(('B%d' % i, [(0, b'', 1, 4)] * 3) for i in range(n)))
    conf = cli.base_config(wd, dict(('B%d' % i, {'N': 2, 'retries': 0, 'exe': i, 'excl': not inp.get('parallel', True)})
                                    for i in range(n)))
    obs = cli.run_cli_interrupt(wd, conf, inp.get('wait_starts', 2), signal.SIGINT if inp['signal'] == 'INT' else signal.SIGTERM,
                                argv=inp.get('argv') or [])
    ck.impl_traces += 1
    ck.count('real-cli:interrupt %s (%s)' % (inp['signal'], 'parallel' if inp.get('parallel', True) else 'sequential'))
    ck.case(nontrivial_key=(tag, str(inp)), sample={'real_cli_interrupt': inp['signal'], 'exit': obs['exit']})
    if not obs['delivered']:
        ck.notes.append('interrupt slice: the session ended before the signal could be sent')
        return
    detail = {'exit': obs['exit'], 'stderr': obs['stderr_tail'][-500:], 'starts_seen': obs['starts_seen']}
    if obs['traceback'] or obs['thread_exception']:
        ck.oracle_fail('no_traceback', inp, detail,
                       signature={'real_cli': True, 'interrupted': inp['signal'],
                                  'in_thread': obs['thread_exception']})
    elif obs['exit'] != 2:
        ck.oracle_fail('exit_status', inp, detail, signature={'real_cli': True, 'expected': 'aborted', 'got': obs['exit']})


def cli_interrupt_slice(ck):
    rng = ck.rng
    cases = [{'signal': 'INT', 'parallel': True}, {'signal': 'TERM', 'parallel': True}, {'signal': 'INT', 'parallel': False}]
    if ck.tier != 'quick':
        cases = cases * 4
    for c in cases:
        cli_interrupt_case(ck, dict(c, kind='cli-interrupt', runs=rng.randint(3, 5), wait_starts=2 if c['parallel'] else 1,
                                    argv=rng.choice([[], ['-s', 'round-robin']])), 'cli-int')


def cli_env_case(ck, inp, tag):
    """real CLI in a child process: process-level conditions that must end in a proper status, never a traceback —
    a stdout that cannot encode the names, a build log that cannot be written, a custom adapter file that is missing"""
    import drive_cli_a as cli
    wd = c04._mkwd(ck)
    names = inp['names']
    ok = [(0, b'', 1)] * 3
    cli.write_harness(wd, dict((n, ok) for n in names))
    builds = {0: 'echo building'} if inp.get('build') else None
    conf = cli.base_config(wd, dict((n, {'N': 1, 'retries': 0, 'exe': 0 if i == 0 else 1}) for i, n in enumerate(names)),
                           builds=builds)
    if inp.get('missing_adapter_file'):
        conf['benchmark_suites']['S' + names[0]]['gauge_adapter'] = {'MyAdapter': inp['missing_adapter_file']}
    if inp.get('build_log_key'):
        conf['build_log'] = inp['build_log_key']
    obs = cli.run_cli(wd, conf, argv=inp.get('argv') or [], env_extra=inp.get('env') or {})
    ck.impl_traces += 1
    ck.count('real-cli:' + inp['what'])
    st = {}
    for a in obs['starts']:
        st.setdefault(a[0], []).append(int(a[1]))
    ck.case(nontrivial_key=(tag, json.dumps(inp, sort_keys=True)), sample={'real_cli': inp['what'], 'exit': obs['exit']})
    detail = {'exit': obs['exit'], 'starts': st, 'stderr': obs['stderr_tail'][-400:], 'stdout': obs['stdout_tail'][-200:]}
    exc = [e for e in ('UnicodeEncodeError', 'FileNotFoundError', 'PermissionError', 'NotADirectoryError')
           if e in obs['stderr_tail'] + obs['stdout_tail']]
    if obs['traceback']:
        ck.oracle_fail('no_traceback', inp, detail, signature={'real_cli': True, 'what': inp['what'],
                                                               'exception': exc[0] if exc else 'other'})
        return
    if obs['exit'] != inp['expect_exit']:
        ck.oracle_fail('exit_status', inp, detail, signature={'real_cli': True, 'what': inp['what'],
                                                              'expected': inp['expect_exit'], 'got': obs['exit']})
        return
    for n, want in (inp.get('expect_starts') or {}).items():
        if st.get(n, []) != want:
            ck.oracle_fail('containment', inp, detail, signature={'real_cli': True, 'what': inp['what'], 'behaviour_of_run': 'ok'})
            return


def cli_env_cases(rng, quick):
    out = []
    for names in (['Bé', 'B1'], ['Bench-中', 'Bü']):
        for env in ({'PYTHONIOENCODING': 'ascii'}, {'PYTHONIOENCODING': 'latin-1'}):
            out.append({'kind': 'cli-env', 'what': 'stdout cannot encode the names', 'names': names, 'env': env,
                        'argv': rng.choice([[], ['-v'], ['-d']]), 'expect_exit': 0,
                        'expect_starts': dict((n, [1]) for n in names)})
    # the C locale without UTF-8 mode: not even the command line of the non-ASCII benchmark can be handed to the
    # operating system; that run fails, the other one is executed
    out.append({'kind': 'cli-env', 'what': 'command line cannot be encoded for the OS', 'names': ['Bé', 'B1'],
                'env': {'PYTHONIOENCODING': '', 'LC_ALL': 'C', 'PYTHONUTF8': '0', 'PYTHONCOERCECLOCALE': '0'},
                'expect_exit': 1, 'expect_starts': {'B1': [1]}})
    for how in ('-b', 'key'):
        for target in ('/nonexistent/x/build.log', '/dev/null/build.log'):
            c = {'kind': 'cli-env', 'what': 'build log cannot be written', 'names': ['B0', 'B1'], 'build': True,
                 'expect_exit': 3}
            if how == '-b':
                c['argv'] = ['-b', target]
            else:
                c['build_log_key'] = target
            out.append(c)
    out.append({'kind': 'cli-env', 'what': 'build log cannot be written', 'names': ['B0'], 'argv': ['-b', '/nonexistent/x/b.log'],
                'expect_exit': 0, 'expect_starts': {'B0': [1]}})     # no build configured: nothing to log
    for f in ('./no_such.py', 'no/such/dir/adapter.py'):
        out.append({'kind': 'cli-env', 'what': 'custom adapter file is missing', 'names': ['B0', 'B1'],
                    'missing_adapter_file': f, 'expect_exit': 1, 'expect_starts': {'B0': [], 'B1': [1]}})
        out.append({'kind': 'cli-env', 'what': 'custom adapter file is missing', 'names': ['B0', 'B1'],
                    'missing_adapter_file': f, 'argv': ['-p'], 'expect_exit': 0})
    if quick:
        keep = {}
        rng.shuffle(out)
        for c in out:
            keep.setdefault((c['what'], c['expect_exit']), []).append(c)
        out = [c for v in keep.values() for c in v[:2]]
    return out


def cli_env_slice(ck):
    for c in cli_env_cases(ck.rng, ck.tier == 'quick'):
        cli_env_case(ck, c, 'cli-env')


def cli_bytes_slice(ck):
    import drive_cli_a as cli
    rng = ck.rng
    for i in range(3 if ck.tier == 'quick' else 20):
        cli_bytes_case(ck, {'kind': 'cli-bytes', 'bytes': list(cli.BYTE_TEXTS[i % 3] if i < 3 else rng.choice(cli.BYTE_TEXTS[:4])),
                            'build_rc': rng.choice([1, 1, 0]), 'rc1': rng.choice([1, 2]),
                            'argv': rng.choice([[], [], ['-v']])}, 'cli')


def load_corpus(ck):
    d = os.path.join(lib.VERIF, 'harness', 'corpus', 'C10')
    out = []
    if os.path.isdir(d):
        for f in sorted(os.listdir(d)):
            if f.endswith('.json'):
                out.append((f, json.load(open(os.path.join(d, f)))))
    return out


def run_input(ck, inp, tag):
    if inp.get('kind') == 'cli-env':
        cli_env_case(ck, inp, tag)
    elif inp.get('kind') == 'cli-interrupt':
        cli_interrupt_case(ck, inp, tag)
    elif inp.get('kind') == 'cli-bytes':
        cli_bytes_case(ck, inp, tag)
    elif inp.get('kind') == 'usage':
        usage_cases(ck)
    else:
        run_scenario(ck, inp['scn'], inp['scripts'], inp.get('sched', 'batch'), inp.get('choices') or [],
                     bool(inp.get('faulty')), tag, stop_at=inp.get('stop_at'))


def run(ck):
    try:  # translation tie broken -> directed search at the translated functions (RB.Proofs.GenC10)
        from corr import gen_cli
        gen_cli.directed(ck)
    except ImportError:
        pass
    import itertools
    quick = ck.tier == 'quick'
    rng = ck.rng
    ck.rule = ('every assignment of the 7 behaviours {succeeds, fails from the start, fails after k successes, already '
               'complete from an earlier session, missing binary (127), failing build, unknown adapter} to %s runs, '
               'plus sampled assignments to 4-5 runs with shared executables / executor builds, under batch / '
               'round-robin / random, with and without -f; an earlier session (suite filters) completes the '
               '"already complete" runs; control sessions without the other runs for the containment clause; '
               'user abort at every start of sampled scenarios; the usage-error list; commands, names, outputs and env '
               'values with { } %% and non-ASCII. non-trivial = at least one run that does not simply succeed'
               % ('2 and 3' if quick else '2, 3 and 4'))
    for name, data in load_corpus(ck):
        ck.count('corpus')
        run_input(ck, data['input'], 'corpus:' + name)
    usage_cases(ck)
    scheds = ['batch', 'round-robin', 'random']
    sizes = (2, 3) if quick else (2, 3, 4)
    for n in sizes:
        for assign in itertools.product(BEHAVIOURS, repeat=n):
            sched = rng.choice(scheds)
            share = None
            if rng.random() < 0.35:
                share = [rng.randrange(2) for _ in range(n)]
            scn, scripts = make_scenario(list(assign), rng, share_exe=share)
            choices = [rng.randrange(12) for _ in range(80)]
            run_scenario(ck, scn, scripts, sched, choices, rng.random() < 0.12, 'enum%d' % n)
    ck.exhaustive = True
    # sampled larger assignments
    for _ in range(40 if quick else 1500):
        n = rng.randint(4, 5)
        assign = [rng.choice(BEHAVIOURS) for _ in range(n)]
        share = [rng.randrange(3) for _ in range(n)] if rng.random() < 0.6 else None
        scn, scripts = make_scenario(assign, rng, share_exe=share)
        run_scenario(ck, scn, scripts, rng.choice(scheds), [rng.randrange(12) for _ in range(120)],
                     rng.random() < 0.15, 'sample')
    # odd characters
    for deco in DECOS:
        for assign in (['ok', 'fail0'], ['missing', 'ok'], ['failk', 'build'], ['adapter', 'done', 'fail0']):
            scn, scripts = make_scenario(list(assign), rng, deco=deco)
            ck.count('deco:' + '+'.join(sorted(deco)))
            run_scenario(ck, scn, scripts, rng.choice(scheds), [rng.randrange(12) for _ in range(60)], False, 'deco',
                         with_control=False)
    # user abort at every start
    for _ in range(6 if quick else 40):
        assign = [rng.choice(['ok', 'ok', 'fail0', 'failk']) for _ in range(rng.randint(1, 3))]
        scn, scripts = make_scenario(assign, rng)
        if _ % 2 == 0:
            for r in scn['runs']:
                r['maxtime'] = rng.choice([30, 600])
        total = sum(len(s) for s in scripts)
        for k in range(1, total + 1):
            run_scenario(ck, scn, scripts, rng.choice(scheds), [rng.randrange(12) for _ in range(60)], False,
                         'abort', stop_at=k, with_control=False)


    cli_bytes_slice(ck)
    cli_env_slice(ck)
    cli_interrupt_slice(ck)
    c04.queue_of(ck).flush()
    sigs = {}
    for f in ck.oracle_failures:
        key = json.dumps(f['signature'], sort_keys=True)
        sigs[key] = sigs.get(key, 0) + 1
    if sigs:
        ck.notes.append('oracle failure signatures: ' + json.dumps(sigs, sort_keys=True))


def replay(ck, data):
    run_input(ck, data['input'], 'replay')
    c04.queue_of(ck).flush()
