"""Ctrl-C while the parallel scheduler's main thread sits in `thread.join()`.

`ParallelScheduler._process_remaining_runs` (rebench/executor.py) joins its worker
threads; a SIGINT raises KeyboardInterrupt inside that join.  On CPython 3.12 the
interrupted `join()` marks the joined thread as stopped although it is still running
(`Thread._wait_for_tstate_lock`, bpo-45274: `if lock.locked(): lock.release();
self._stop()` -- the lock is also "locked" while the worker itself holds it), so
every later `join()` / `is_alive()` of that worker answers at once.  A handler that
"waits for the workers" with `join()` therefore does not wait for the first-joined
worker: the main thread goes on (close the data files, restore denoise, final
reports, exit 2) while that worker still runs ReBench code.

`scenarios(ck)` drives whole in-process sessions (real scheduler threads, scripted
processes, a **real** SIGINT delivered with `signal.pthread_kill` to the main
thread while it is in the join) with the first-joined worker held at a chosen
point, and checks -- independently of any model -- that when the session function
returns

  * no worker thread is still executing (real liveness, from a wrapper around
    `BenchmarkThread.run`, not from `is_alive()`),
  * nothing is recorded afterwards,
  * no process is started afterwards,
  * no process of the session is still running.

These are the session-level facts behind C08 (a data point written after / during
exit is lost or torn), C16 (no process survives), C20 (restore after the last
process ended) and C13/C11 (nothing starts after the abort).  The Lean statement is
`RB.InterruptJoin.handler_event_waits_for_all` (and `handler_join_can_return_early`
for the pinned behaviour) in `lean/RB/Proofs/InterruptJoin.lean`.

Checks call it as:

    try:
        from corr import interrupt_join; interrupt_join.scenarios(ck)
    except ImportError:
        pass
"""
import os
import signal
import sys
import threading
import time

import lib
import drive

lib.use_repo()

from rebench import executor as rb_exec  # noqa: E402
from rebench import persistence as rb_pers  # noqa: E402
from rebench import subprocess_with_timeout as swt  # noqa: E402

HOLD = 0.6   # how long the held worker stays put when the main thread does not leave (repaired tree)

VARIANTS = [
    # (name, invocations, local scheduler)
    ('record', 2, 'batch'),
    ('record', 2, 'round-robin'),
    ('record', 2, 'random'),
    ('record-then-build', 1, 'batch'),
    ('build', 1, 'batch'),
    ('slow-death', 1, 'batch'),
]


def _config(wd, invocations):
    suites = {}
    for i in range(1, 5):
        suites['S%d' % i] = {'gauge_adapter': 'RebenchLog', 'command': 'h%d %%(benchmark)s' % i,
                             'benchmarks': ['B%d' % i], 'build': ['echo build-S%d' % i]}
    cfg = {'default_experiment': 'T', 'default_data_file': os.path.join(wd, 't.data'),
           'runs': {'invocations': invocations, 'execute_exclusively': False},
           'benchmark_suites': suites, 'executors': {'E': {'path': '.', 'executable': 'exe'}},
           'experiments': {'T': {'suites': list(suites), 'executions': ['E']}}}
    return drive.write_config(wd, cfg)


def run_variant(variant, invocations, scheduler, wd):
    """one session; returns the observation dict"""
    conf = _config(wd, invocations)
    t0 = time.time()
    events = []   # (t, thread, what, detail)
    lock = threading.Lock()

    def ev(what, **kw):
        with lock:
            events.append((time.time() - t0, threading.current_thread().name, what, kw))

    held = threading.Event()        # the first-joined worker has reached the point where it is held
    other_busy = threading.Event()  # the other worker sits in a benchmark process
    main_left = threading.Event()   # the session function has returned
    state = {'held': False, 'sent': False, 'stack': None}
    T0, T1 = 'BenchmarkThread 0', 'BenchmarkThread 1'

    def hold(what):
        state['held'] = True
        ev('held:' + what)
        held.set()
        main_left.wait(HOLD)
        ev('released:' + what, main_left=main_left.is_set())

    # -- instrumentation from outside (restored in finally)
    saved = {}

    def patch(obj, name, new):
        saved[(obj, name)] = getattr(obj, name)
        setattr(obj, name, new)

    orig_init = swt._SubprocessThread.__init__

    def sp_init(self, *a, **kw):
        orig_init(self, *a, **kw)
        self._creator = threading.current_thread().name   # the worker that starts this process

    orig_persist = rb_pers._FilePersistence.persist_data_point

    def persist(self, dp):
        if variant.startswith('record') and threading.current_thread().name == T0 and not state['held']:
            hold('persist')
        r = orig_persist(self, dp)
        ev('recorded')
        return r

    orig_run = rb_exec.BenchmarkThread.run

    def worker_run(self):
        try:
            orig_run(self)
        finally:
            ev('worker-finished', exc=repr(self.exception)[:120] if self.exception is not None else None)

    orig_kill = drive.ProcessLayer.kill
    slow = {}

    def layer_kill(self, pid, *a):
        if pid in slow:
            self.kills.append(pid)
            ev('kill', pid=pid)
            p = self._procs.get(pid)
            threading.Timer(HOLD / 2, p.killed.set).start()   # the process takes a while to die
            return None
        ev('kill', pid=pid)
        return orig_kill(self, pid, *a)

    orig_comm = drive._FakeProc.communicate

    def communicate(self):
        try:
            return orig_comm(self)
        finally:
            ev('process-end', pid=self.pid)

    def script(rec):
        creator = getattr(threading.current_thread(), '_creator', None)
        is_build = rec['args'] == '/bin/sh'
        ev('process-start', pid=rec['pid'], build=is_build, by=creator)
        if is_build:
            # (builds are serialised by the executor's build lock: hold one only when the other worker is
            # already past its build and sits in its benchmark process)
            if variant == 'build' and creator == T0 and not state['held'] and other_busy.is_set():
                hold('build')        # the build of the first-joined worker is in progress (builds are not killed)
            return drive.Outcome(0, '')
        out = 'B: iterations=1 runtime: 5ms\n'
        if creator == T1 and not other_busy.is_set():
            other_busy.set()
            return drive.Outcome(0, out, hang=True)       # killed by the interrupt handler
        if variant == 'slow-death' and creator == T0 and not state['held']:
            state['held'] = True
            slow[rec['pid']] = True
            ev('held:process')
            held.set()
            return drive.Outcome(0, out, hang=True)       # killed, but dies slowly
        if variant == 'build' and creator == T0:
            other_busy.wait(5)       # let the other worker get through its build first
        return drive.Outcome(0, out)

    main_ident = threading.main_thread().ident

    def controller():
        if not held.wait(10) or not other_busy.wait(10):
            return
        names = []
        for _ in range(5000):
            f = sys._current_frames().get(main_ident)
            names = []
            while f is not None:
                names.append(f.f_code.co_name)
                f = f.f_back
            if '_process_remaining_runs' in names and names[:1] in (['_wait_for_tstate_lock'], ['wait'], ['join']):
                break
            time.sleep(0.001)
        else:
            return
        state['stack'] = names[:4]
        state['sent'] = True
        ev('SIGINT')
        signal.pthread_kill(main_ident, signal.SIGINT)

    # whatever a worker starts after the session function has returned must not become a real process:
    # `drive.scripted` restores these names to what it found, i.e. to this guard
    guard_layer = drive.ProcessLayer(lambda rec: (ev('process-start', pid=rec['pid'], build=rec['args'] == '/bin/sh',
                                                       by=getattr(threading.current_thread(), '_creator', None), late=True),
                                                    drive.Outcome(0, ''))[1])
    guard_layer._next_pid = drive.FAKE_PID_BASE + 500000
    from rebench import subprocess_kill as skill
    patch(swt, 'Popen', guard_layer.popen)
    patch(skill, 'Popen', guard_layer.popen)
    patch(swt._SubprocessThread, '__init__', sp_init)
    patch(rb_pers._FilePersistence, 'persist_data_point', persist)
    patch(rb_exec.BenchmarkThread, 'run', worker_run)
    patch(drive.ProcessLayer, 'kill', layer_kill)
    patch(drive._FakeProc, 'communicate', communicate)
    ctl = threading.Thread(target=controller, name='interrupt-join-controller', daemon=True)
    try:
        ctl.start()
        try:
            res = drive.run_session(wd, ['-s', scheduler, conf], script, cpu_count=5)
        except KeyboardInterrupt:      # the signal arrived outside ReBench: tooling trouble
            raise lib.InfraError('interrupt_join: SIGINT reached the harness outside the session')
        t_left = time.time() - t0
        main_left.set()
        # give every worker the time to wind down, then look at what happened after the session ended
        deadline = time.time() + 3 * HOLD + 2
        while time.time() < deadline:
            with lock:
                n_fin = sum(1 for e in events if e[2] == 'worker-finished')
            if n_fin >= 2:
                break
            time.sleep(0.01)
        time.sleep(0.05)
    finally:
        for (obj, name), old in saved.items():
            setattr(obj, name, old)
    with lock:
        evs = list(events)
    after = [(round(t - t_left, 3), th, what, kw) for (t, th, what, kw) in evs if t > t_left]
    started_before = {kw['pid'] for (t, _th, what, kw) in evs if what == 'process-start' and t <= t_left}
    ended_before = {kw['pid'] for (t, _th, what, kw) in evs if what == 'process-end' and t <= t_left}
    return {
        'variant': variant, 'scheduler': scheduler, 'invocations': invocations,
        'reached': state['sent'], 'main_stack_at_signal': state['stack'], 'status': res.status(),
        'crash': res.crash,
        'after_session_end': [(t, th, what) for (t, th, what, _kw) in after],
        'worker_finished_after': [th for (_t, th, what, _kw) in after if what == 'worker-finished'],
        'recorded_after': sum(1 for (_t, _th, what, _kw) in after if what == 'recorded'),
        'started_after': sum(1 for (_t, _th, what, _kw) in after if what == 'process-start'),
        # started before the end of the session and not ended by then
        'alive_at_end': sorted(started_before - ended_before),
        'events': [(round(t, 3), th, what, kw) for (t, th, what, kw) in evs][-40:],
    }


def scenarios(ck, variants=None):
    """run the scenarios and evaluate the oracle on each; safe to call from any check"""
    if threading.current_thread() is not threading.main_thread():
        ck.notes.append('interrupt_join: skipped (not on the main thread, a real SIGINT cannot be aimed)')
        return
    for (variant, invocations, scheduler) in (variants or VARIANTS):
        wd = os.path.join(ck.scratch, 'ij-%s-%s' % (variant, scheduler))
        os.makedirs(wd, exist_ok=True)
        obs = run_variant(variant, invocations, scheduler, wd)
        ck.impl_traces += 1
        ck.count('interrupt_join:%s' % variant)
        inp = {'kind': 'interrupt-join', 'variant': variant, 'scheduler': scheduler, 'invocations': invocations,
               'schedule': 'SIGINT to the main thread inside Thread.join of the first worker while that worker is '
                           'held at: ' + variant}
        ck.case(nontrivial_key=('interrupt-join', variant, scheduler) if obs['reached'] else None,
                sample={'interrupt_join': variant, 'status': obs['status']})
        if not obs['reached']:
            ck.count('interrupt_join:not-reached')
            ck.notes.append('interrupt_join %s/%s: the schedule was not reached (%r)' % (variant, scheduler, obs['events'][-5:]))
            continue
        sig = {'scenario': 'interrupt-join', 'variant': variant}
        if obs['crash'] or obs['status'] != 'aborted':
            ck.oracle_fail('interrupt_join_exit_status_aborted', inp, obs, sig)
        if obs['worker_finished_after']:
            ck.oracle_fail('interrupt_join_worker_running_after_session_end', inp, obs, sig)
        if obs['recorded_after']:
            ck.oracle_fail('interrupt_join_recorded_after_session_end', inp, obs, sig)
        if obs['started_after']:
            ck.oracle_fail('interrupt_join_process_started_after_session_end', inp, obs, sig)
        if obs['alive_at_end']:
            ck.oracle_fail('interrupt_join_process_alive_at_session_end', inp, obs, sig)


def replay(ck, data):
    inp = data['input']
    v = [x for x in VARIANTS if x[0] == inp.get('variant') and x[2] == inp.get('scheduler')]
    scenarios(ck, v or None)
