"""Directed search for the translation tie of the failure classification (RB.Proofs.GenC04b, spec
lean/gen/failure_class.json).  `directed(ck)` does nothing while the tie holds.  When it is broken it runs the
definition generated from the current `Executor._generate_data_point` and the model side by side
(`drivers/C04bgen.lean`) on return codes x include_faulty x ignore_timeouts, and puts every differing input (all
inputs if the source is untranslatable) to the real method -- with the real `RunId.report_run_failed` -- and to
the property: 127 abandons the run without counting a failure; a non-zero code counts exactly one failure and
parses nothing unless `-f` or an ignored time-out; everything else is parsed.

Usable from C04 / C06 / C16:

    try:
        from corr import gen_failure_class; gen_failure_class.directed(ck)
    except ImportError:
        pass
"""
import lib

lib.use_repo()

MODULE = 'RB.Proofs.GenC04b'
RCS = [0, 1, 2, 5, 126, 127, 255, -1, -9, -11]


def real_events(rc, faulty, ignore):
    from rebench import executor as ex
    from rebench.model.run_id import RunId
    events = []

    class NS(object):
        def __init__(self, **kw):
            self.__dict__.update(kw)

    class RunIdStub(object):
        location = None
        env = {}
        max_invocation_time = -1
        ignore_timeouts = ignore
        executable_missing = False
        _reporters = []
        benchmark = NS(suite=NS(executor=NS(name='E')))
        report_run_failed = RunId.report_run_failed        # the real one (it may count a failure itself)

        def fail_immediately(self):
            events.append('fail_immediately')

        def indicate_failed_execution(self):
            events.append('indicate_failed_execution')

    class UI(object):
        def __getattr__(self, _n):
            return lambda *a, **kw: None

    class SelfStub(object):
        _print_execution_plan = False
        _include_faulty = faulty
        debug = False
        use_denoise = False
        running_processes = None
        ui = UI()

        def _eval_output(self, *a):
            events.append('eval_output')

        @staticmethod
        def _check_termination_condition(*a):
            return 'termination-check'
    rid = RunIdStub()
    saved = ex.subprocess_timeout.run
    ex.subprocess_timeout.run = lambda *a, **kw: (rc, 'out\n', None)
    try:
        ret = ex.Executor._generate_data_point(SelfStub(), 'cmd', None, rid, None)
    except Exception as e:  # noqa
        return 'raised %s' % type(e).__name__
    finally:
        ex.subprocess_timeout.run = saved
    return {'events': events, 'abandon': ret is True, 'executable_missing': bool(rid.executable_missing)}


def documented(rc, faulty, ignore):
    if rc == 127:
        return {'events': ['fail_immediately'], 'abandon': True, 'executable_missing': True}
    if rc != 0 and not faulty and not (rc == -9 and ignore):
        return {'events': ['indicate_failed_execution'], 'abandon': False, 'executable_missing': False}
    return {'events': ['eval_output'], 'abandon': False, 'executable_missing': False}


def directed(ck):
    st = [e['status'] for e in getattr(ck, 'gen_entries', []) or [] if e['module'] == MODULE and e['status'] != 'ok']
    if not st:
        return False
    grid = [(rc, f, i) for rc in RCS for f in (False, True) for i in (False, True)]
    cands = grid
    if st[0].startswith('proof-broken'):
        try:
            ans = ck.model([{'op': 'c04.class_diff', 'rc': rc, 'faulty': f, 'ignore_timeouts': i} for (rc, f, i) in grid],
                           driver='drivers/C04bgen.lean')
            cands = [g for g, a in zip(grid, ans) if not a.get('same', True)]
            ck.notes.append('directed search (failure classification): generated vs model differ on %d of %d '
                            '(return code, -f, ignore_timeouts) triples' % (len(cands), len(grid)))
        except lib.InfraError as e:
            ck.notes.append('directed search (failure classification): generated definition does not run (%s)' % str(e)[:150])
    else:
        ck.notes.append('directed search (failure classification): source not translatable; %d triples go to the real '
                        'Executor._generate_data_point' % len(grid))
    ck.count('directed-search-candidates', len(cands))
    for (rc, f, i) in cands:
        ck.case(nontrivial_key=('directed-failure-class', rc, f, i))
        got, want = real_events(rc, f, i), documented(rc, f, i)
        if got != want:
            ck.oracle_fail('invocation_classified_as_documented',
                           {'directed': 'failure-class', 'return_code': rc, 'include_faulty': f, 'ignore_timeouts': i},
                           {'reported': got, 'expected': want}, {'kind': 'generate_data_point'})
    return bool(cands)
