"""C18 — the final report shows every run once with its true sample count and mean.

Correspondence: the real `CliReporter.report_job_completed` (table assembly, sorting,
the <= 4 rows rule, column compaction, summary of uniform values) on generated run
sets of size 1-12 with every pattern of uniform / varying identifying columns, failed
and succeeded runs, current and reloaded data, warm-up data; the real
`CodespeedReporter` in final and incremental mode created by the real `Configurator`,
with `urlopen` scripted (faithful to urllib: POST data must be bytes) and, for a
slice, a real HTTP server on 127.0.0.1; whole sessions (run / resume) whose stdout
must contain the table rendered from the model's answer.

Oracle (independent of the model): each run exactly once, sample count and rounded
textbook mean (Python `Fraction` arithmetic) or `Failed`, no column lost, Codespeed
entries carry mean / std-dev / min / max of the same samples, -1 for failed runs,
one entry per run in final mode, nothing ends in a traceback.
"""
import io
import json
import math
import os
import threading
import urllib.error
import urllib.parse
from fractions import Fraction
from http.server import BaseHTTPRequestHandler, HTTPServer

import lib
import drive

lib.use_repo()

from rebench import persistence as P  # noqa: E402
from rebench import reporter as REP  # noqa: E402
from rebench.configurator import Configurator, load_config  # noqa: E402
from rebench.rebench import ReBench  # noqa: E402
from rebench.ui import TestDummyUI  # noqa: E402
from rebench.model.data_point import DataPoint  # noqa: E402
from rebench.model.measurement import Measurement  # noqa: E402

COLS = ['Benchmark', 'Executor', 'Suite', 'Extra', 'Core', 'Size', 'Var', 'Tag', 'Machine', '#Samples', 'Mean (ms)']
TH_TABLE = ['RB.Report.c18_rows_perm', 'RB.Report.c18_cells_correct', 'RB.Report.c18_columns_moved_not_dropped',
            'RB.Report.c18_small_table_complete', 'RB.Report.c18_last_column_kept']
TH_CS = ['RB.Report.c18_codespeed_entry', 'RB.Report.c18_codespeed_final', 'RB.Report.c18_codespeed_incremental']

NAMES = ['B%d' % i for i in range(12)]
EXECS = ['E0', 'E1']
SUITES = ['S0', 'S1']
EXTRAS = [None, 'a b', 7]
VALUES = {
    'cores': [1, 2, 10, 4],
    'size': [None, '10', 'big', '2'],
    'var': [None, 'v1', 'x y', 'Z'],
    'tag': [None, 't1', 't2'],
    'machine': [None, 'm1', 'm2'],
}


# ------------------------------------------------------------------ the pool of real Benchmark objects
class Pool(object):
    def __init__(self, workdir):
        benchs = []
        for n in NAMES:
            for e in EXTRAS:
                benchs.append(n if e is None else {n: {'extra_args': e}})
        suite = {'gauge_adapter': 'RebenchLog', 'command': 'h %(benchmark)s', 'benchmarks': benchs}
        cfg = {'default_experiment': 'T', 'default_data_file': 't.data',
               'benchmark_suites': dict((s, dict(suite)) for s in SUITES),
               'executors': dict((e, {'path': '.', 'executable': 'exe'}) for e in EXECS),
               'experiments': {'T': {'suites': SUITES, 'executions': EXECS}}}
        conf = drive.write_config(workdir, cfg, 'pool.conf')
        opts = ReBench().shell_options().parse_args(['-D', conf])
        ui = TestDummyUI()
        cnf = Configurator(load_config(conf), P.DataStore(ui), ui, opts, data_file=os.path.join(workdir, 'pool.data'))
        self.bench = {}
        for r in cnf.get_runs():
            b = r.benchmark
            self.bench[(b.name, b.suite.executor.name, b.suite.name, b.extra_args)] = b
        # the same suites and executors as another experiment would use them: other invocations / warm-up / env —
        # settings that are no column of the summary
        cfg2 = dict(cfg, runs={'invocations': 7, 'warmup': 1, 'env': {'TWIN': '1'}})
        conf2 = drive.write_config(workdir, cfg2, 'pool2.conf')
        cnf2 = Configurator(load_config(conf2), P.DataStore(ui), ui, opts, data_file=os.path.join(workdir, 'pool.data'))
        self.twin = {}
        for r in cnf2.get_runs():
            b = r.benchmark
            self.twin[(b.name, b.suite.executor.name, b.suite.name, b.extra_args)] = b
        if len(self.bench) != len(NAMES) * len(EXECS) * len(SUITES) * len(EXTRAS):
            raise lib.InfraError('benchmark pool incomplete: %d' % len(self.bench))


class UIRec(object):
    """what CliReporter prints"""

    def __init__(self):
        self.texts = []

    def output(self, text, *a, **kw):
        self.texts.append(text)

    def __getattr__(self, name):
        return lambda *a, **kw: None


# ------------------------------------------------------------------ generator: run sets
def gen_samples(rng):
    kind = rng.choice(['none', 'none', 'one-half', 'pair-tie', 'ints', 'floats', 'big', 'many', 'offset'] + (['nonfinite'] if rng.random() < 0.04 else []))
    if kind == 'nonfinite':
        # a harness that printed 1e999ms / nan: the total of a data point is inf, -inf or nan
        vals = [rng.uniform(0, 500) for _ in range(rng.randint(0, 3))] + [rng.choice([float('inf'), float('nan'), float('-inf')])
                                                                      for _ in range(rng.randint(1, 2))]
        rng.shuffle(vals)
        return kind, vals
    if kind == 'none':
        return kind, []
    if kind == 'offset':
        # totals that are large against their jitter (1e6 ms with a spread of some 10 microseconds): cancellation
        base = rng.choice([1e6, 3.6e6, 1e7, 123456.0])
        return kind, [base + rng.uniform(-0.05, 0.05) for _ in range(rng.randint(2, 8))]
    if kind == 'one-half':
        return kind, [rng.randint(0, 2000) + 0.5]
    if kind == 'pair-tie':
        a = rng.randint(0, 500)
        return kind, [float(a), float(a + 2 * rng.randint(0, 40) + 1)]
    if kind == 'ints':
        return kind, [float(rng.randint(0, 3000)) for _ in range(rng.randint(1, 6))]
    if kind == 'big':
        return kind, [rng.uniform(1e5, 1e8) for _ in range(rng.randint(1, 4))]
    if kind == 'many':
        return kind, [rng.uniform(0, 500) for _ in range(rng.randint(7, 30))]
    return kind, [rng.uniform(0, 2000) for _ in range(rng.randint(1, 6))]


def gen_run_set(rng, n=None, vary=None):
    """n runs whose identifying columns vary exactly in (a subset of) `vary`"""
    dims = ['name', 'exec', 'suite', 'extra', 'cores', 'size', 'var', 'tag', 'machine']
    if vary is None:
        vary = [d for d in dims if rng.random() < 0.35]
    if n is None:
        n = rng.randint(1, 12)
    domain = {'name': NAMES, 'exec': EXECS, 'suite': SUITES, 'extra': EXTRAS}
    domain.update(VALUES)
    choice = {}
    for d in dims:
        vals = list(domain[d])
        rng.shuffle(vals)
        k = len(vals) if d == 'name' else rng.randint(2, len(vals))
        choice[d] = vals[:k] if d in vary else vals[:1]
    seen = set()
    runs = []
    # now and then every run has the same samples (or none): the mean column itself is uniform
    uniform_mean = gen_samples(rng) if rng.random() < 0.06 else None
    for _ in range(n * 6):
        if len(runs) >= n:
            break
        combo = tuple(rng.choice(choice[d]) for d in dims)
        if combo in seen:
            continue
        seen.add(combo)
        kind, samples = gen_samples(rng)
        if uniform_mean is not None:
            kind, samples = uniform_mean
        dps = []
        warm = rng.choice([0, 0, 1, 2])
        for i in range(warm):
            dps.append({'v': rng.uniform(0, 5000), 'warm': True, 'loaded': rng.random() < 0.5})
        cut = rng.randint(0, len(samples))
        for i, v in enumerate(samples):
            dps.append({'v': v, 'warm': False, 'loaded': i < cut})
        rng.shuffle(dps)
        failed = (not samples and rng.random() < 0.8) or rng.random() < 0.1
        runs.append({'bench': list(combo[:4]), 'cores': combo[4], 'size': combo[5], 'var': combo[6], 'tag': combo[7],
                     'machine': combo[8], 'dps': dps, 'failed': failed, 'kind': kind})
        if len(runs) < n and rng.random() < 0.12:
            # the same benchmark as another experiment runs it: every identifying column equal, other settings
            k2, s2 = gen_samples(rng)
            runs.append(dict(runs[-1], twin=True, kind=k2, failed=not s2,
                             dps=[{'v': v, 'warm': False, 'loaded': False} for v in s2]))
    return {'runs': runs, 'vary': sorted(vary)}


def expected_ident(r):
    s = lambda x: '' if x is None else str(x)  # noqa: E731
    return [r['bench'][0], r['bench'][1], r['bench'][2], s(r['bench'][3]), s(r['cores']), s(r['size']), s(r['var']),
            s(r['tag']), s(r['machine'])]


def samples_of(r):
    return [d['v'] for d in r['dps'] if not d['warm']]


# ------------------------------------------------------------------ real run ids
def make_runs(pool, case, ui):
    ds = P.DataStore(ui)
    runs = []
    for r in case['runs']:
        b = (pool.twin if r.get('twin') else pool.bench)[(r['bench'][0], r['bench'][1], r['bench'][2], r['bench'][3])]
        run = ds.create_run_id(b, r['cores'], r['size'], r['var'], r['tag'], r['machine'])
        inv = 0
        for i, d in enumerate(r['dps']):
            inv += 1
            dp = DataPoint(run)
            dp.add_measurement(Measurement(inv, 1, d['v'], 'ms', run, 'total'))
            if d['loaded']:
                run.loaded_data_point(dp, d['warm'])
            else:
                run.add_data_point(dp, d['warm'])
        tc = run.get_termination_check(ui)
        if r['failed']:
            tc.indicate_failed_execution()
        elif samples_of(r):
            run.indicate_successful_execution()
        runs.append(run)
    return runs


def canon_cell(v, last):
    if last and v == 'Failed':
        return ['f']
    if isinstance(v, bool):
        return ['?', repr(v)]
    if isinstance(v, int):
        return ['n', v]
    if isinstance(v, str):
        return ['s', v]
    return ['?', repr(v)]


def impl_table(pool, case):
    ui = UIRec()
    runs = make_runs(pool, case, ui)
    rep = REP.CliReporter(False, ui)
    run_set = set(runs)
    order = [runs.index(r) for r in run_set]        # iteration order of the set, observed
    calls = []
    orig = REP.format_pretty_table

    def rec(data, column_names=None, **kw):
        snapshot = ([list(row) for row in data], list(column_names or []), dict(kw))
        text = orig(data, column_names, **kw)
        calls.append(snapshot + (text,))
        return text
    REP.format_pretty_table = rec
    crash = None
    try:
        try:
            rep.job_completed(run_set)
            rep.job_completed(run_set)        # a second notification must not print again
        except Exception as e:  # noqa
            crash = type(e).__name__
    finally:
        REP.format_pretty_table = orig
    obs = {'crash': crash, 'order': order, 'n_tables': len(calls), 'printed_all': True}
    if crash or not calls:
        return obs, runs
    main = calls[-1]
    cols = main[1]
    obs['cols'] = cols
    obs['rows'] = [[canon_cell(v, cols[i] == 'Mean (ms)' if i < len(cols) else False) for i, v in enumerate(row)]
                   for row in main[0]]
    obs['summary'] = []
    if len(calls) >= 2:
        s = calls[-2]
        obs['summary_header'] = s[1]
        obs['summary'] = [[row[0], canon_cell(row[1], False)] for row in s[0]]
    obs['n_tables'] = len(calls)
    out = ''.join(t for t in ui.texts)
    obs['printed_all'] = all(c[3] in out for c in calls) and \
        (len(calls) < 2 or out.index(calls[-2][3]) < out.index(calls[-1][3]))
    obs['float_means'] = [r.statistics.mean for r in runs]
    return obs, runs


def model_runs(case, order):
    out = []
    for i in order:
        r = case['runs'][i]
        smp = samples_of(r)
        if not all(math.isfinite(v) for v in smp):
            smp = [0.0] * len(smp)      # the count is right; the mean cell of such a case is compared by the oracle only
        out.append({'ident': expected_ident(r), 'samples': [lib.frac(v) for v in smp], 'failed': bool(r['failed'])})
    return out


def roundable(o, i, r):
    return bool(o.get('float_means')) and bool(samples_of(r)) and math.isfinite(o['float_means'][i])


def nonfinite_case(case):
    return any(not math.isfinite(v) for r in case['runs'] for v in samples_of(r))


def near_tie(samples):
    if not samples or not all(math.isfinite(v) for v in samples):
        return False
    m = sum(Fraction(v) for v in samples) / len(samples)
    frac = m - math.floor(m)
    return abs(frac - Fraction(1, 2)) < Fraction(1, 10 ** 6) and not exact_float(samples)


def exact_float(samples):
    return len(samples) <= 2 and all(float(v * 2).is_integer() and abs(v) < 1e6 for v in samples)


def mask_mean(rows, cols, tolerant_rows):
    """replace the mean cell of rows whose exact mean is within 1e-6 of a tie (float rounding decides)"""
    if 'Mean (ms)' not in cols:
        return rows
    j = cols.index('Mean (ms)')
    return [[(['~'] if (k in tolerant_rows and i == j) else c) for i, c in enumerate(row)] for k, row in enumerate(rows)]


def check_tables(ck, pool, cases):
    obs = []
    ops = []
    for case in cases:
        o, runs = impl_table(pool, case)
        obs.append(o)
        ops.append({'op': 'c18.table', 'runs': model_runs(case, o['order'])})
        for i, r in enumerate(case['runs']):
            if roundable(o, i, r):
                ops.append({'op': 'c18.round', 'q': lib.frac(o['float_means'][i])})
    answers = iter(ck.model(ops))
    for case, o in zip(cases, obs):
        ans = next(answers)
        rounds = [next(answers) for i, r in enumerate(case['runs']) if roundable(o, i, r)]
        n = len(case['runs'])
        inp = {'case': case}
        ck.count('rows:%d' % n)
        ck.count('rows<=4' if n <= 4 else 'rows>4')
        for r in case['runs']:
            ck.count('samples:' + r['kind'])
        ck.count('varying-columns:%d' % len(case['vary']))
        if o['crash']:
            ck.case()
            ck.oracle_fail('table_no_traceback', inp, {'exception': o['crash']},
                           signature={'clause': 'table_no_traceback', 'exception': o['crash']})
            continue
        ck.case(nontrivial_key=('t', json.dumps(case, sort_keys=True)) if n >= 2 else None,
                sample={'n': n, 'vary': case['vary'], 'cols': o['cols'], 'summary': [s[0] for s in o['summary']]})
        if o['summary']:
            ck.count('summary-block')
        # --- model vs implementation
        tol = set()
        sorted_case_idx = None
        # which table row belongs to which run is known only through the model's order; rows whose exact mean is
        # within 1e-6 of a tie are compared modulo the mean cell
        m_rows, i_rows = ans['rows'], o['rows']
        for k, row in enumerate(m_rows):
            pass
        tie_runs = [expected_ident(r) for r in case['runs'] if near_tie(samples_of(r))]
        if nonfinite_case(case):
            ck.count('run set with a non-finite total (inf / nan)')
            tie_runs = tie_runs or [True]
        if any(r.get('twin') for r in case['runs']):
            ck.count('run set with runs that differ only in settings that are no column')
        if tie_runs:
            ck.count('mean-near-tie (float decides)')
            full = [k for k, row in enumerate(i_rows)]
            tol = set(full)   # conservative: mask the mean column of all rows of such a case
        same = (o['cols'] == ans['cols'] and mask_mean(i_rows, o['cols'], tol) == mask_mean(m_rows, ans['cols'], tol)
                and o['summary'] == ans['summary'])
        if not same:
            ck.disagree('c18.table: CliReporter.report_job_completed vs RB.Report.table', inp,
                        {'cols': o['cols'], 'rows': i_rows, 'summary': o['summary']},
                        {'cols': ans['cols'], 'rows': m_rows, 'summary': ans['summary']}, TH_TABLE)
        if o['n_tables'] != (2 if ans['summary'] else 1) or not o['printed_all']:
            ck.disagree('c18.table: what is printed (summary block then table, once)', inp,
                        {'tables_formatted': o['n_tables'], 'all_printed_in_order': o['printed_all']},
                        {'tables_formatted': 2 if ans['summary'] else 1}, TH_TABLE)
        # rounding of the float mean the implementation really had
        k = 0
        for i, r in enumerate(case['runs']):
            if not roundable(o, i, r):
                continue
            want = rounds[k]['r']
            k += 1
            got = cell_of_run(o, expected_ident(r), case)
            if got is not None and got != ['n', want]:
                ck.disagree('c18.round: int(round(mean, 0)) vs RB.Report.roundHalfEven', {'mean': o['float_means'][i]},
                            got, want, ['RB.Report.c18_round_nearest', 'RB.Report.c18_cells_correct'])
        oracle_table(ck, case, o, inp)


def cell_of_run(o, ident, case):
    """the mean cell of the row of the run with this identity (None if not determinable)"""
    rows = rows_with_all_columns(o)
    hits = [r for r in rows if r[:9] == [['s', x] for x in ident]]
    return hits[0][10] if len(hits) == 1 else None


def rows_with_all_columns(o):
    """undo the compaction using the summary (oracle side)"""
    summ = dict((k, v) for k, v in o['summary'])
    rows = []
    for row in o['rows']:
        byname = dict(zip(o['cols'], row))
        rows.append([byname.get(c, summ.get(c, ['missing'])) for c in COLS])
    return rows


def oracle_table(ck, case, o, inp):
    def fail(clause, detail, **sig):
        ck.oracle_fail(clause, inp, detail, signature=dict({'clause': clause}, **sig))
    n = len(case['runs'])
    # no column dropped
    for c in COLS:
        in_t = c in o['cols']
        in_s = c in [s[0] for s in o['summary']]
        if in_t == in_s:
            fail('column_kept_or_moved', {'column': c, 'in_table': in_t, 'in_summary': in_s}, column=c)
            return
    if 'Mean (ms)' not in o['cols']:
        fail('column_kept_or_moved', {'column': 'Mean (ms)', 'in_table': False}, column='Mean (ms)')
        return
    rows = rows_with_all_columns(o)
    # every run exactly once
    want_rows = []
    for r in case['runs']:
        smp = samples_of(r)
        if smp and not all(math.isfinite(v) for v in smp):
            mean_cell = ['nonfinite']            # no integer can stand for it: it is shown as inf / -inf / nan
        elif smp:
            m = sum(Fraction(v) for v in smp) / len(smp)
            mean_cell = ['n', int(round(m))]     # Fraction.__round__: nearest, ties to even
        else:
            mean_cell = ['f']
        want_rows.append(([['s', x] for x in expected_ident(r)] + [['n', len(smp)], mean_cell], near_tie(smp), smp))
    if len(rows) != n:
        fail('every_run_once', {'rows': len(rows), 'runs': n})
        return
    remaining = list(rows)
    # runs that differ only in settings that are no column have equal identifying cells: pair exact rows first
    pending = []
    for (w, tie, smp) in want_rows:
        if w in remaining:
            remaining.remove(w)
        else:
            pending.append((w, tie, smp))
    for (w, tie, smp) in pending:
        hit = None
        for row in remaining:
            if row[:9] == w[:9]:
                hit = row
                break
        if hit is None:
            fail('every_run_once', {'missing_run': w[:9], 'rows': [r[:9] for r in rows][:6]})
            return
        remaining.remove(hit)
        if hit[9] != w[9]:
            fail('sample_count', {'run': w[:9], 'shown': hit[9], 'non_warmup_data_points': len(smp)})
        if w[10] == ['nonfinite']:
            if not (hit[10][0] == 's' and any(x in hit[10][1].lower() for x in ('inf', 'nan'))):
                fail('rounded_mean_or_failed', {'run': w[:9], 'shown': hit[10], 'expected': 'inf / -inf / nan',
                                                'samples': [repr(v) for v in smp[:8]]}, kind='nonfinite')
        elif hit[10] != w[10]:
            ok = False
            if tie and hit[10][0] == 'n' and w[10][0] == 'n' and abs(hit[10][1] - w[10][1]) <= 1:
                ok = True     # float mean on the other side of a tie within 1e-6
            if not ok:
                fail('rounded_mean_or_failed', {'run': w[:9], 'shown': hit[10], 'expected': w[10],
                                                'samples': smp[:8]}, kind='failed' if not smp else 'mean')
    # a summary entry is the value of every run
    for name, val in o['summary']:
        j = COLS.index(name)
        if any(w[0][j] != val for w in want_rows):
            fail('summary_value_is_uniform', {'column': name, 'summary': val,
                                              'values': sorted(set(json.dumps(w[0][j]) for w in want_rows))})


# ------------------------------------------------------------------ Codespeed
class _Resp(object):
    def __enter__(self):
        return self

    def __exit__(self, *a):
        return False

    def read(self):
        return b'ok'


class CSWorld(object):
    def __init__(self, server=None):
        self.clock = 5000.0
        self.reqs = []        # list of attempts: {'payload':…, 'ok': bool}
        self.script = []      # per _send_payload call: True = ok
        self.server = server

    def time(self):
        return self.clock

    def urlopen(self, url, data=None, *a, **kw):
        if data is not None and isinstance(data, str) and not os.environ.get('C18_LENIENT_URLOPEN'):
            # exactly what urllib.request does for a str body (the knob is a development aid only)
            raise TypeError('POST data should be bytes, an iterable of bytes, or a file object. '
                            'It cannot be of type str.')
        ok = self.script.pop(0) if self.script else True
        self.reqs.append({'url': url if isinstance(url, str) else url.full_url, 'data': data, 'ok': ok})
        if ok:
            return _Resp()
        raise urllib.error.URLError(ConnectionRefusedError(111, 'Connection refused'))

    def __enter__(self):
        self._saved = (REP.time, REP.urlopen)
        REP.time = self.time
        if self.server is None:
            REP.urlopen = self.urlopen
        else:
            self.server.world = self
        return self

    def __exit__(self, *a):
        REP.time, REP.urlopen = self._saved
        return False


class _CSHandler(BaseHTTPRequestHandler):
    def do_POST(self):
        n = int(self.headers.get('Content-Length') or 0)
        body = self.rfile.read(n)
        w = self.server.world
        ok = w.script.pop(0) if w.script else True
        w.reqs.append({'url': self.path, 'data': body, 'ok': ok})
        self.send_response(202 if ok else 500)
        self.send_header('Content-Length', '2')
        self.end_headers()
        self.wfile.write(b'ok')

    def log_message(self, *a):
        pass


class CSServer(object):
    def __init__(self):
        self.httpd = HTTPServer(('127.0.0.1', 0), _CSHandler)
        self.httpd.world = None
        self.port = self.httpd.server_port
        t = threading.Thread(target=self.httpd.serve_forever, kwargs={'poll_interval': 0.01})
        t.daemon = True
        t.start()

    @property
    def world(self):
        return self.httpd.world

    @world.setter
    def world(self, w):
        self.httpd.world = w

    def stop(self):
        self.httpd.shutdown()
        self.httpd.server_close()


_cs_raw = {}


def cs_session(workdir, n, incremental, url):
    if n not in _cs_raw:
        cfg = {'default_experiment': 'T', 'default_data_file': 't.data',
               'reporting': {'codespeed': {'url': url, 'project': 'P'}},
               'benchmark_suites': {'S': {'gauge_adapter': 'RebenchLog', 'command': 'h %(benchmark)s',
                                          'benchmarks': NAMES[:n]}},
               'executors': {'E': {'path': '.', 'executable': 'exe'}},
               'experiments': {'T': {'suites': ['S'], 'executions': ['E']}}}
        conf = drive.write_config(workdir, cfg, 'cs%d.conf' % n)
        _cs_raw[n] = load_config(conf)
    import copy
    raw = copy.deepcopy(_cs_raw[n])
    raw['reporting']['codespeed']['url'] = url
    argv = ['-D', '--commit-id', 'abc123', '--environment', 'env1'] + ([] if incremental else ['-I']) + ['x.conf']
    opts = ReBench().shell_options().parse_args(argv)
    ui = TestDummyUI()
    cli = REP.CliReporter(False, UIRec())
    cnf = Configurator(raw, P.DataStore(ui), ui, opts, cli, data_file=os.path.join(workdir, 'cs.data'))
    runs = sorted(cnf.get_runs(), key=lambda r: int(r.benchmark.name[1:]))
    return runs, ui


def gen_cs_case(rng, n=None, incremental=None):
    n = n if n is not None else rng.choice([1, 1, 2, 3, 5, 8, 12])
    incremental = rng.random() < 0.5 if incremental is None else incremental
    runs = []
    for _ in range(n):
        kind, samples = gen_samples(rng)
        while kind == 'nonfinite':          # the Codespeed model is over rationals
            kind, samples = gen_samples(rng)
        failed = (not samples and rng.random() < 0.85) or rng.random() < 0.15
        runs.append({'samples': samples, 'failed': failed, 'kind': kind})
    order = list(range(n))
    rng.shuffle(order)
    if incremental and rng.random() < 0.3:
        order = order[:rng.randint(0, n)]     # some runs never complete (nothing reported for them)
    events = [{'i': i, 'gap': rng.choice([0, 1, 29, 30, 31, 100]), 'ok': rng.random() < 0.7} for i in order]
    return {'n': n, 'incremental': incremental, 'runs': runs, 'events': events,
            'job_ok': rng.random() < 0.7, 'second_ok': rng.random() < 0.8}


def impl_cs(ck, case, idx, server=None):
    wd = os.path.join(ck.scratch, 'cs')
    os.makedirs(wd, exist_ok=True)
    url = 'http://127.0.0.1:%d/result/add/json/' % (server.port if server else 9)
    with CSWorld(server) as w:
        runs, ui = cs_session(wd, case['n'], case['incremental'], url)
        t0 = int(w.clock)
        for r, spec in zip(runs, case['runs']):
            for k, v in enumerate(spec['samples']):
                dp = DataPoint(r)
                dp.add_measurement(Measurement(k + 1, 1, v, 'ms', r, 'total'))
                r.add_data_point(dp, False)
            tc = r.get_termination_check(ui)
            if spec['failed']:
                tc.indicate_failed_execution()
        points = []      # per potential send: list of attempts
        events = []
        crash = None
        try:
            if case['incremental']:
                for ev in case['events']:
                    w.clock += ev['gap']
                    w.script = [ev['ok'], case['second_ok']]
                    before = len(w.reqs)
                    runs[ev['i']].report_run_completed('cmd')
                    points.append(w.reqs[before:])
                    events.append({'k': 'completed', 'i': ev['i'], 'now': int(w.clock), 'ok': ev['ok'],
                                   'run': model_cs_run(case['runs'][ev['i']])})
            w.script = [case['job_ok'], case['second_ok']]
            before = len(w.reqs)
            run_set = set(runs)
            for r in run_set:
                r.report_job_completed(run_set)
            points.append(w.reqs[before:])
            events.append({'k': 'job', 'ok': case['job_ok']})
        except Exception as e:  # noqa
            import traceback
            tb = traceback.extract_tb(e.__traceback__)
            crash = {'exception': type(e).__name__, 'raised_in': tb[-1].name, 'message': str(e)[:120]}
    reqs = []
    for p in points:
        if not p:
            continue
        bodies = [a['data'] for a in p]
        body = bodies[0]
        if isinstance(body, bytes):
            body = body.decode('utf-8')
        entries = json.loads(urllib.parse.parse_qs(body)['json'][0])
        reqs.append({'attempts': len(p), 'entries': [canon_cs_entry(e) for e in entries],
                     'same_body': len(set(bodies)) == 1})
    return {'crash': crash, 'reqs': reqs}, events, t0


def model_cs_run(spec):
    return {'ident': [], 'samples': [lib.frac(v) for v in spec['samples']], 'failed': bool(spec['failed'])}


CS_REQUIRED = ('commitid', 'project', 'executable', 'benchmark', 'environment', 'result_value')


def cs_entry_problems(e):
    """what makes a result entry unusable for Codespeed (which identifies a result by these fields)"""
    if not isinstance(e, dict):
        return ['not an object: %r' % (e,)]
    probs = ['%s is %s' % (k, 'missing' if k not in e else 'null') for k in CS_REQUIRED if e.get(k) is None]
    if not probs and not isinstance(e['benchmark'], str):
        probs.append('benchmark is not a string')
    return probs


def canon_cs_entry(e):
    probs = cs_entry_problems(e)
    if probs:
        return {'run': -1, 'malformed': probs, 'raw': e, 'value': e.get('result_value') if isinstance(e, dict) else None,
                'min': None, 'max': None, 'std': None}
    name = e['benchmark']
    try:
        idx = int(name.split(' ')[0][1:])
    except ValueError:
        return {'run': -1, 'malformed': ['benchmark %r names no run' % name], 'raw': e, 'value': e['result_value'],
                'min': None, 'max': None, 'std': None}
    return {'run': idx, 'value': e['result_value'], 'min': e.get('min'), 'max': e.get('max'), 'std': e.get('std_dev'),
            'commitid': e.get('commitid'), 'environment': e.get('environment'), 'project': e.get('project'),
            'executable': e.get('executable')}


def report_malformed(ck, inp, sent, level):
    """entries that do not say which run / project / revision they belong to: an oracle failure with the payload"""
    bad = [e for e in sent if e.get('malformed')]
    if bad:
        fields = sorted(set(p.split(' ')[0] for e in bad for p in e['malformed']))
        ck.oracle_fail('codespeed_entry_complete', inp, {'entries': [e['raw'] for e in bad][:4],
                                                         'problems': [e['malformed'] for e in bad][:4]},
                       signature={'clause': 'codespeed_entry_complete', 'fields': ','.join(fields), 'level': level,
                                  'failed_run_entry': all((e.get('value') == -1) for e in bad)})
    return [e for e in sent if not e.get('malformed')]


def std_ok(std_impl, var_exact, max_abs, n):
    """the reported standard deviation against the exact population variance: 0.1 % relative, plus what the
    doubles of that magnitude cannot resolve (64 ulp of the largest sample, times sqrt(n))"""
    if std_impl is None:
        return False
    exact = math.sqrt(float(var_exact)) if var_exact > 0 else 0.0
    floor = 64 * 2.0 ** -52 * max(float(max_abs), 1e-300) * math.sqrt(max(n, 1))
    return abs(float(std_impl) - exact) <= 1e-3 * exact + floor


def close(a, b, scale):
    return abs(Fraction(a) - Fraction(b)) <= Fraction(1, 10 ** 9) * max(1, scale)


def cs_entry_matches(impl, model):
    if impl['run'] != model['run']:
        return False
    v = lib.unfrac(model['value'])
    if model['m2'] is None:
        return impl['value'] == -1 and v == -1 and impl['min'] is None and impl['max'] is None and impl['std'] is None
    scale = max(abs(v), 1)
    if impl['min'] is None or impl['max'] is None or impl['std'] is None:
        return False
    if not close(impl['value'], v, scale):
        return False
    if Fraction(impl['min']) != lib.unfrac(model['min']) or Fraction(impl['max']) != lib.unfrac(model['max']):
        return False
    n = model['n']
    m2 = lib.unfrac(model['m2'])
    if n == 0:
        return impl['std'] == 0
    max_abs = max(abs(lib.unfrac(model['min'])), abs(lib.unfrac(model['max'])))
    return std_ok(impl['std'], m2 / n, max_abs, n)


def check_codespeed(ck, cases, server=None):
    results = []
    ops = []
    for idx, case in enumerate(cases):
        o, events, t0 = impl_cs(ck, case, idx, server)
        results.append(o)
        if case['incremental']:
            ops.append({'op': 'c18.cs_incr', 't0': t0, 'events': events})
        else:
            ops.append({'op': 'c18.cs_final', 'ok': case['job_ok'], 'runs': [model_cs_run(s) for s in case['runs']],
                        'pinned': bool(os.environ.get('C18_MODEL_PINNED'))})
    answers = ck.model(ops)
    for case, o, ans in zip(cases, results, answers):
        inp = {'cs_case': case, 'transport': 'http-server' if server else 'scripted-urlopen'}
        ck.impl_traces += 1
        ck.count('codespeed:' + ('incremental' if case['incremental'] else 'final'))
        ck.count('codespeed-runs:%d' % case['n'])
        ck.case(nontrivial_key=('cs', json.dumps(case, sort_keys=True)),
                sample={'n': case['n'], 'incremental': case['incremental'], 'requests': len(o['reqs'])})
        # ---- oracle
        if o['crash']:
            ck.oracle_fail('codespeed_no_traceback', inp, o['crash'],
                           signature={'clause': 'codespeed_no_traceback', 'exception': o['crash']['exception'],
                                      'raised_in': o['crash']['raised_in'],
                                      'mode': 'incremental' if case['incremental'] else 'final',
                                      'single_run': case['n'] == 1})
        else:
            oracle_cs(ck, case, o, inp)
        # ---- model
        m_reqs = ans.get('reqs')
        if o['crash'] or m_reqs is None:
            if not (o['crash'] and 'crash' in ans):
                ck.disagree('c18.codespeed: CodespeedReporter vs RB.Report.csFinal/csRun', inp,
                            {'crash': o['crash'], 'requests': len(o['reqs'])}, ans if 'crash' in ans else
                            {'requests': len(m_reqs or [])}, TH_CS)
            continue
        ok = len(m_reqs) == len(o['reqs'])
        if ok:
            for a, b in zip(o['reqs'], m_reqs):
                # a failed first attempt is retried once; a failure of both is only reported
                if a['attempts'] != b['attempts'] or len(a['entries']) != len(b['entries']) or not a['same_body']:
                    ok = False
                    break
                # final mode iterates a set: compare as sets of runs
                bb = sorted(b['entries'], key=lambda e: e['run'])
                aa = sorted(a['entries'], key=lambda e: e['run'])
                if not case['incremental']:
                    pass
                elif [e['run'] for e in a['entries']] != [e['run'] for e in b['entries']]:
                    ok = False
                    break
                if not all(cs_entry_matches(x, y) for x, y in zip(aa, bb)):
                    ok = False
                    break
        if not ok:
            ck.disagree('c18.codespeed: CodespeedReporter vs RB.Report.csFinal/csRun', inp,
                        {'reqs': o['reqs']}, {'reqs': m_reqs}, TH_CS)


def oracle_cs(ck, case, o, inp):
    def fail(clause, detail, **sig):
        ck.oracle_fail(clause, inp, detail, signature=dict({'clause': clause}, **sig))
    sent = [e for q in o['reqs'] for e in q['entries']]
    good = report_malformed(ck, inp, sent, 'reporter')
    if len(good) != len(sent):
        return
    if not case['incremental']:
        if len(o['reqs']) != 1 or sorted(e['run'] for e in sent) != list(range(case['n'])):
            fail('codespeed_one_entry_per_run', {'requests': len(o['reqs']), 'entries_for_runs': sorted(e['run'] for e in sent),
                                                 'runs': case['n']})
            return
    else:
        completed = [ev['i'] for ev in case['events']]
        if sorted(e['run'] for e in sent) != sorted(completed):
            fail('codespeed_one_entry_per_run', {'entries_for_runs': sorted(e['run'] for e in sent),
                                                 'completed_runs': sorted(completed)}, mode='incremental')
            return
    for e in sent:
        spec = case['runs'][e['run']]
        smp = [Fraction(v) for v in spec['samples']]
        if spec['failed']:
            if e['value'] != -1:
                fail('codespeed_failed_is_minus_one', {'run': e['run'], 'result_value': e['value']})
            continue
        if not smp:
            continue        # a run without samples that is not marked failed: nothing to compare against
        n = len(smp)
        mean = sum(smp) / n
        var = sum((x - mean) ** 2 for x in smp) / n
        scale = max(abs(mean), 1)
        bad = {}
        if e['value'] is None or not close(e['value'], mean, scale):
            bad['mean'] = (e['value'], float(mean))
        if e['min'] is None or Fraction(e['min']) != min(smp):
            bad['min'] = (e['min'], float(min(smp)))
        if e['max'] is None or Fraction(e['max']) != max(smp):
            bad['max'] = (e['max'], float(max(smp)))
        if not std_ok(e['std'], var, max(abs(x) for x in smp), n):
            bad['std_dev'] = (e['std'], math.sqrt(float(var)))
        if bad:
            fail('codespeed_values', {'run': e['run'], 'wrong': bad, 'samples': spec['samples'][:8]},
                 field=sorted(bad)[0])


# ------------------------------------------------------------------ Codespeed through whole executor sessions
CS_URL = {'shared': 'http://127.0.0.1:9/result/add/json/', 'Good': 'http://127.0.0.1:9/good/result/add/json/',
          'Bad': 'http://127.0.0.1:9/bad/result/add/json/'}


def cs_endpoint_of(case, key):
    """the Codespeed endpoint a run reports to (None: its experiment has no Codespeed reporting)"""
    mode = case.get('endpoints', 'shared')
    if mode == 'shared':
        return CS_URL['shared']
    if key[0] == 'Good':
        return CS_URL['Good']
    return CS_URL['Bad'] if mode == 'two' else None


def gen_cs_exec_case(rng, directed=None):
    """a session with a good and a bad executor: from its `trigger`-th start on, the bad executor's
    binary answers 127, so its runs fail (hit 127 themselves, or are abandoned because a sibling did)"""
    c = {'benchmarks': rng.randint(1, 3), 'invocations': rng.choice([1, 2, 2, 3]),
         'scheduler': rng.choice(['batch', 'round-robin', 'round-robin', 'random']),
         'incremental': rng.random() < 0.6, 'gap': rng.choice([0, 5, 20, 40]),
         'first_ok': rng.random() < 0.8, 'its': rng.randint(1, 3), 'seed': rng.randint(0, 10 ** 6),
         # who is told: one reporter for all runs, one Codespeed endpoint per experiment, or only one experiment reports
         'endpoints': rng.choice(['shared', 'shared', 'two', 'two', 'one']),
         # the bad executor has a build step that fails: all its runs share the failed build
         'build_fails': rng.random() < 0.2}
    c['trigger'] = rng.choice([0, 0, c['benchmarks'], c['benchmarks'], rng.randint(0, c['benchmarks'] * c['invocations'])])
    if directed:
        c.update(directed)
    return c


def run_cs_exec_case(ck, case):
    import random as _random
    ck._c18_cse = getattr(ck, '_c18_cse', 0) + 1
    wd = os.path.join(ck.scratch, 'cse%d' % ck._c18_cse)
    os.makedirs(wd)
    names = NAMES[:case['benchmarks']]
    mode = case.get('endpoints', 'shared')
    cfg = {'default_experiment': 'T', 'default_data_file': 't.data', 'runs': {'invocations': case['invocations']},
           'reporting': {'codespeed': {'url': CS_URL['shared'], 'project': 'P'}},
           'benchmark_suites': {'S': {'gauge_adapter': 'RebenchLog', 'command': 'h %(benchmark)s', 'benchmarks': names}},
           # fixed paths (nothing is ever started): the run identities, hence the order in which the run set is
           # iterated, do not depend on the scratch directory, so a replay sees the same schedule
           'executors': {'Good': {'path': '/opt/verif-c18', 'executable': 'good-exe'},
                         'Bad': {'path': '/opt/verif-c18', 'executable': 'bad-exe'}},
           'experiments': {'T': {'suites': ['S'], 'executions': ['Good', 'Bad']}}}
    if mode != 'shared':
        # runs that do not share their reporters: each experiment has its own `reporting` section
        del cfg['reporting']
        cfg['default_experiment'] = 'all'
        cfg['experiments'] = {
            'TG': {'suites': ['S'], 'executions': ['Good'],
                   'reporting': {'codespeed': {'url': CS_URL['Good'], 'project': 'PG'}}},
            'TB': dict({'suites': ['S'], 'executions': ['Bad']},
                       **({'reporting': {'codespeed': {'url': CS_URL['Bad'], 'project': 'PB'}}} if mode == 'two' else {}))}
    if case.get('build_fails'):
        cfg['executors']['Bad']['build'] = ['make bad-exe']
    conf = drive.write_config(wd, cfg)
    vrng = _random.Random(case['seed'])
    produced = {}          # (executor, benchmark) -> samples handed to ReBench so far
    bad_starts = [0]
    builds = [0]
    order = []             # (executor, benchmark, clock, samples at that moment) per run_completed notification
    with CSWorld() as w:
        def script(rec):
            w.clock += case['gap']
            args = rec['args'].split()
            if args[0] == '/bin/sh' and len(args) == 1:
                builds[0] += 1
                return drive.Outcome(2, 'make: *** No rule to make target\n')      # the (only) build step fails
            exe = 'Bad' if 'bad-exe' in args[0] else 'Good'
            b = args[-1]
            if exe == 'Bad':
                bad_starts[0] += 1
                if bad_starts[0] > case['trigger']:
                    return drive.Outcome(127, 'sh: bad-exe: not found\n')
            vals = [float(vrng.randint(1, 4000)) / 4 for _ in range(case['its'])]
            produced.setdefault((exe, b), []).extend(vals)
            return drive.Outcome(0, ''.join('%s: iterations=1 runtime: %sms\n' % (b, repr(v)) for v in vals))
        orig_completed = REP.CodespeedReporter.run_completed

        def spy(rep, run_id, statistics, cmdline):
            w.script = [case['first_ok'], True]
            key = (run_id.benchmark.suite.executor.name, run_id.benchmark.name)
            order.append((key, int(w.clock), list(produced.get(key, [])), rep._cfg.url))
            return orig_completed(rep, run_id, statistics, cmdline)
        REP.CodespeedReporter.run_completed = spy
        orig_job = REP.CodespeedReporter.report_job_completed

        def spy_job(rep, run_ids):
            w.script = [case['first_ok'], True]
            return orig_job(rep, run_ids)
        REP.CodespeedReporter.report_job_completed = spy_job
        t0 = int(w.clock)
        try:
            argv = ['--commit-id', 'abc123', '--environment', 'env1', '-s', case['scheduler']] + \
                ([] if case['incremental'] else ['-I']) + [conf]
            r = drive.run_session(wd, argv, script, random_choice=lambda seq: sorted(
                seq, key=lambda x: (x.benchmark.suite.executor.name, x.benchmark.name))[vrng.randrange(len(seq))])
        finally:
            REP.CodespeedReporter.run_completed = orig_completed
            REP.CodespeedReporter.report_job_completed = orig_job
        attempts = list(w.reqs)
    return r, attempts, order, produced, t0, names


def check_cs_exec_sessions(ck, cases):
    ops, results = [], []
    for case in cases:
        r, attempts, order, produced, t0, names = run_cs_exec_case(ck, case)
        keys = [(e, b) for e in ('Good', 'Bad') for b in names]
        idx = dict((k, i) for i, k in enumerate(keys))
        full = case['invocations'] * case['its']
        # a run of the bad executor that got all its invocations done before the binary went away is a normal run;
        # every other one hits 127 itself or is abandoned because a sibling did: a failed run
        failed = dict((k, k[0] == 'Bad' and (len(produced.get(k, [])) < full or bool(case.get('build_fails'))))
                      for k in keys)
        endpoints = sorted(set(u for u in (cs_endpoint_of(case, k) for k in keys) if u))
        per = {}
        for u in endpoints:
            att = [a for a in attempts if a['url'] == u]
            # group attempts into requests: a failed first attempt is followed by its retry with the same body
            reqs = []
            i = 0
            while i < len(att):
                a = att[i]
                n = 1
                if not a['ok'] and i + 1 < len(att) and att[i + 1]['data'] == a['data']:
                    n = 2
                body = a['data'].decode('utf-8') if isinstance(a['data'], bytes) else a['data']
                entries = json.loads(urllib.parse.parse_qs(body)['json'][0])
                reqs.append({'attempts': n, 'entries': [dict(canon_cs_entry_keyed(e, idx)) for e in entries]})
                i += n
            order_u = [(k, now, smp) for (k, now, smp, url) in order if url == u]
            per[u] = {'reqs': reqs, 'order': order_u, 'op': len(ops)}
            if case['incremental']:
                ops.append({'op': 'c18.cs_incr', 't0': t0, 'events':
                            [{'k': 'completed', 'i': idx[k], 'now': now, 'ok': case['first_ok'],
                              'run': {'ident': [], 'samples': [lib.frac(v) for v in smp], 'failed': failed[k]}}
                             for (k, now, smp) in order_u] + [{'k': 'job', 'ok': case['first_ok']}]})
            else:
                ops.append({'op': 'c18.cs_final', 'ok': case['first_ok'],
                            'attached': [cs_endpoint_of(case, k) == u for k in keys],
                            'runs': [{'ident': [], 'samples': [lib.frac(v) for v in produced.get(k, [])],
                                      'failed': failed[k]} for k in keys]})
        foreign = [a['url'] for a in attempts if a['url'] not in endpoints]
        results.append((case, r, per, produced, keys, idx, failed, foreign))
    answers = ck.model(ops)
    for (case, r, per, produced, keys, idx, failed, foreign) in results:
        inp = {'cs_exec_case': case}
        mode = 'incremental' if case['incremental'] else 'final'
        ck.impl_traces += 1
        ck.count('codespeed-executor-session:%s,%s' % (case['scheduler'], mode))
        ck.count('codespeed-executor-session: endpoints=%s' % case.get('endpoints', 'shared'))
        aborted_with_data = [k for k in keys if failed[k] and produced.get(k)]
        ck.count('codespeed-executor-session: failed runs=%d' % sum(1 for k in keys if failed[k]))
        if aborted_with_data:
            ck.count('codespeed-executor-session: failed run that has samples')
        if case.get('build_fails'):
            ck.count('codespeed-executor-session: failing build shared by %d runs' % sum(1 for k in keys if k[0] == 'Bad'))
        ck.case(nontrivial_key=('cse', json.dumps(case, sort_keys=True)),
                sample={'case': case, 'requests': dict((u, len(p['reqs'])) for u, p in per.items())})
        if r.crash:
            ck.oracle_fail('codespeed_no_traceback', inp, {'exception': r.crash[0], 'message': r.crash[1], 'frames': r.crash[2]},
                           signature={'clause': 'codespeed_no_traceback', 'exception': r.crash[0], 'level': 'executor-session'})
            continue
        if foreign:
            ck.oracle_fail('codespeed_endpoint_gets_its_runs', inp, {'requests_to_unconfigured_urls': foreign[:5]},
                           signature={'clause': 'codespeed_endpoint_gets_its_runs', 'what': 'unknown url'})
        for u, p in sorted(per.items()):
            reqs, order_u = p['reqs'], p['order']
            ans = answers[p['op']]
            sent = [e for q in reqs for e in q['entries']]
            if len(report_malformed(ck, inp, sent, 'executor-session')) != len(sent):
                continue
            mine = [k for k in keys if cs_endpoint_of(case, k) == u]
            # ---- oracle: every configured endpoint receives exactly its runs, each once (in incremental mode: those
            # that were reported as completed) ...
            want_runs = sorted(idx[k] for k in (mine if not case['incremental'] else [k for (k, _n, _s) in order_u]))
            got_runs = sorted(e['run'] for e in sent)
            if got_runs != want_runs:
                not_mine = sorted(set(got_runs) - set(idx[k] for k in mine))
                clause = 'codespeed_endpoint_gets_its_runs' if (not_mine or not sent) else 'codespeed_one_entry_per_run'
                ck.oracle_fail(clause, inp, {'endpoint': u, 'entries_for_runs': [list(keys[i]) if 0 <= i < len(keys) else i
                                                                                 for i in got_runs],
                                             'its_runs': [list(k) for k in mine], 'mode': mode},
                               signature={'clause': clause, 'level': 'executor-session', 'mode': mode,
                                          'foreign_runs': bool(not_mine), 'never_notified': not sent})
            # ... with -1 for every failed run in whatever mode, and the statistics of the samples otherwise
            for e in sent:
                if not 0 <= e['run'] < len(keys):
                    continue
                k = keys[e['run']]
                smp = [Fraction(v) for v in produced.get(k, [])]
                if failed[k]:
                    if e['value'] != -1:
                        ck.oracle_fail('codespeed_failed_is_minus_one', inp,
                                       {'run': list(k), 'sent': {'result_value': e['value'], 'min': e['min'], 'max': e['max']},
                                        'samples_of_the_failed_run': [float(x) for x in smp][:8], 'mode': mode},
                                       signature={'clause': 'codespeed_failed_is_minus_one', 'level': 'executor-session',
                                                  'mode': mode})
                elif smp:
                    mean = sum(smp) / len(smp)
                    var = sum((x - mean) ** 2 for x in smp) / len(smp)
                    if e['value'] is None or e['value'] == -1 or not close(e['value'], mean, max(abs(mean), 1)) or \
                            Fraction(e['min']) != min(smp) or Fraction(e['max']) != max(smp) or \
                            not std_ok(e['std'], var, max(abs(x) for x in smp), len(smp)):
                        ck.oracle_fail('codespeed_values', inp, {'run': list(k), 'sent': e, 'samples': [float(x) for x in smp][:12]},
                                       signature={'clause': 'codespeed_values', 'level': 'executor-session'})
            # ---- model
            m_reqs = ans.get('reqs') or []
            ok = len(m_reqs) == len(reqs)
            if ok:
                for a, b in zip(reqs, m_reqs):
                    aa = sorted(a['entries'], key=lambda e: e['run'])
                    bb = sorted(b['entries'], key=lambda e: e['run'])
                    if a['attempts'] != b['attempts'] or len(aa) != len(bb) or \
                            (case['incremental'] and [e['run'] for e in a['entries']] != [e['run'] for e in b['entries']]) or \
                            not all(cs_entry_matches(x, y) for x, y in zip(aa, bb)):
                        ok = False
                        break
            if not ok:
                ck.disagree('c18.codespeed: CodespeedReporter driven by the real Executor vs RB.Report.csFinalOf/csRun', inp,
                            {'endpoint': u, 'reqs': reqs}, {'reqs': m_reqs}, TH_CS)


def canon_cs_entry_keyed(e, idx):
    probs = cs_entry_problems(e)
    if probs:
        return {'run': -1, 'malformed': probs, 'raw': e, 'value': e.get('result_value') if isinstance(e, dict) else None,
                'min': None, 'max': None, 'std': None}
    key = (e.get('executable'), e['benchmark'].split(' ')[0])
    return {'run': idx.get(key, -1), 'value': e['result_value'], 'min': e.get('min'), 'max': e.get('max'),
            'std': e.get('std_dev')}


CS_EXEC_DIRECTED = [
    # a failing build shared by several runs
    {'build_fails': True, 'endpoints': 'shared', 'incremental': False, 'scheduler': 'batch', 'invocations': 1, 'benchmarks': 3, 'trigger': 99},
    {'build_fails': True, 'endpoints': 'shared', 'incremental': True, 'scheduler': 'round-robin', 'invocations': 2, 'benchmarks': 2, 'trigger': 99, 'gap': 40},
    {'build_fails': True, 'endpoints': 'two', 'incremental': False, 'scheduler': 'random', 'invocations': 1, 'benchmarks': 2, 'trigger': 99},
    # runs that do not share their reporters
    {'endpoints': 'two', 'incremental': False, 'scheduler': 'batch', 'invocations': 1, 'benchmarks': 2, 'trigger': 99},
    {'endpoints': 'two', 'incremental': True, 'scheduler': 'round-robin', 'invocations': 2, 'benchmarks': 2, 'trigger': 2, 'gap': 0},
    {'endpoints': 'one', 'incremental': False, 'scheduler': 'batch', 'invocations': 1, 'benchmarks': 3, 'trigger': 99},
    {'endpoints': 'one', 'incremental': True, 'scheduler': 'random', 'invocations': 2, 'benchmarks': 2, 'trigger': 99, 'gap': 40},
    # the binary disappears after every run had its first invocation: the abandoned runs have samples
    {'scheduler': 'round-robin', 'invocations': 2, 'benchmarks': 3, 'trigger': 3, 'incremental': True, 'gap': 0},
    {'scheduler': 'round-robin', 'invocations': 2, 'benchmarks': 3, 'trigger': 3, 'incremental': False, 'gap': 0},
    {'scheduler': 'round-robin', 'invocations': 3, 'benchmarks': 2, 'trigger': 2, 'incremental': True, 'gap': 40},
    {'scheduler': 'random', 'invocations': 2, 'benchmarks': 3, 'trigger': 3, 'incremental': True, 'gap': 5},
    # the binary never existed
    {'scheduler': 'batch', 'invocations': 1, 'benchmarks': 3, 'trigger': 0, 'incremental': True, 'gap': 0},
    {'scheduler': 'round-robin', 'invocations': 2, 'benchmarks': 2, 'trigger': 0, 'incremental': True, 'gap': 20},
    {'scheduler': 'batch', 'invocations': 2, 'benchmarks': 2, 'trigger': 1, 'incremental': False, 'gap': 0},
]


# ------------------------------------------------------------------ whole sessions: stdout
def check_sessions(ck, n_scen, seeds=None):
    """run + resume through the real CLI entry (in-process, scripted processes): the table
    printed by the second session must be the one the model computes from the data file"""
    from humanfriendly.tables import format_pretty_table
    import random as _random
    for idx in range(n_scen):
        # everything of a scenario derives from its own seed, so that a replay file can name it
        scen_seed = seeds[idx] if seeds else ck.rng.randint(0, 2 ** 31)
        rng = _random.Random(scen_seed)
        ck._c18_sess = getattr(ck, '_c18_sess', 0) + 1
        wd = os.path.join(ck.scratch, 'sess%d' % ck._c18_sess)
        os.makedirs(wd)
        n_b = rng.randint(1, 7)
        inv = rng.randint(1, 3)
        warm = rng.choice([0, 0, 1])
        cores = rng.choice([[1], [1, 2]])
        # identifying values that are poison for str.format / %-formatting of the report: they must be shown verbatim
        special = rng.random() < 0.6
        sizes = rng.choice([None, ['{n}'], ['{0}', 'big'], ['}{']]) if special else None
        varvals = rng.choice([None, ['${V}'], ['{{v}}']]) if special else None
        extras = {}
        if special:
            pool_x = ['--out=${OUT_DIR}/a', '{0}', 'a{b}c', '{{d}}', '{', '}} x', '$X {ind}', '-D{key}={val}']
            same = rng.random() < 0.5
            x0 = rng.choice(pool_x)
            for b in NAMES[:n_b]:
                if rng.random() < 0.8:
                    extras[b] = x0 if same else rng.choice(pool_x)
        command = 'h %(benchmark)s %(cores)s' + (' %(input)s' if sizes else '') + (' %(variable)s' if varvals else '')
        suite = {'gauge_adapter': 'RebenchLog', 'command': command,
                 'benchmarks': [({b: {'extra_args': extras[b]}} if b in extras else b) for b in NAMES[:n_b]], 'cores': cores}
        if sizes:
            suite['input_sizes'] = sizes
        if varvals:
            suite['variable_values'] = varvals
        if warm:
            suite['warmup'] = warm
        cfg = {'default_experiment': 'T', 'default_data_file': 't.data', 'runs': {'invocations': inv},
               'benchmark_suites': {'S': suite}, 'executors': {'E': {'path': '.', 'executable': 'exe'}},
               'experiments': {'T': {'suites': ['S'], 'executions': ['E']}}}
        # the same runs selected by two experiments that share the data file (executed with `all`): every run is
        # still one run, every data point is recorded once
        shared = rng.random() < 0.4
        if shared:
            cfg['default_experiment'] = 'all'
            cfg['experiments']['T2'] = {'suites': ['S'], 'executions': ['E'], 'description': 'the same once more'}
        conf = drive.write_config(wd, cfg)
        fail_bench = set(b for b in NAMES[:n_b] if rng.random() < 0.2)      # fail in both sessions
        late_bench = set(b for b in NAMES[:n_b] if b not in fail_bench and rng.random() < 0.4)
        its = rng.randint(1, 3) + warm
        produced = {}
        state = {'session': 1, 'count': {}}

        def script(rec):
            args = rec['args'].split()
            b = args[2]
            c = tuple(args[3:3 + 1 + (1 if sizes else 0) + (1 if varvals else 0)])     # cores [size] [variable]
            k = state['count'].get((state['session'], b, c), 0)
            state['count'][(state['session'], b, c)] = k + 1
            if b in fail_bench or (state['session'] == 1 and b in late_bench and k >= 1):
                return drive.Outcome(1, 'boom\n')
            vals = [round(rng.uniform(1, 900), rng.choice([0, 1, 3])) for _ in range(its)]
            produced.setdefault((b, c), []).append(vals)
            return drive.Outcome(0, ''.join('%s: iterations=1 runtime: %sms\n' % (b, repr(v)) for v in vals))
        # session 1 leaves the `late` runs incomplete (aborted after their first invocation), session 2 resumes them
        r1 = drive.run_session(wd, [conf], script)
        state['session'] = 2
        r2 = drive.run_session(wd, [conf], script)
        ck.impl_traces += 2
        runs = []
        for b in NAMES[:n_b]:
            for c in cores:
                for sz in (sizes or [None]):
                    for vv in (varvals or [None]):
                        key = (str(c),) + ((sz,) if sizes else ()) + ((vv,) if varvals else ())
                        smp = [v for vals in produced.get((b, key), []) for v in vals[warm:]]
                        runs.append({'ident': [b, 'E', 'S', extras.get(b, ''), str(c), sz or '', vv or '', '', ''],
                                     'samples': smp, 'b': b, 'c': c})
        if special:
            ck.count('cli-session with braces / $ in identifying values')
        if shared:
            ck.count('cli-session: runs shared by two experiments on one data file')
        inp = {'session': {'scenario_seed': scen_seed, 'shared_by_two_experiments': shared, 'benchmarks': n_b, 'invocations': inv, 'warmup': warm, 'cores': cores,
                           'extra_args': extras, 'input_sizes': sizes, 'variable_values': varvals,
                           'failing': sorted(fail_bench), 'resumed': sorted(late_bench),
                           'produced': dict(('%s/%s' % (k[0], '/'.join(k[1])), v) for k, v in produced.items())}}
        ck.count('cli-session-pairs')
        ck.case(nontrivial_key=('sess', idx, n_b, inv))
        if r1.crash or r2.crash:
            crash = r1.crash or r2.crash
            ck.disagree('c18.session: session crashed', inp, {'s1': r1.status(), 's2': r2.status(),
                                                              'crash': crash}, None, TH_TABLE)
            ck.oracle_fail('report_no_traceback', inp, {'exception': crash[0], 'message': crash[1], 'frames': crash[2],
                                                        'summary_printed': False},
                           signature={'clause': 'report_no_traceback', 'exception': crash[0], 'level': 'session'})
            continue
        # the order in which the set is iterated is not observable here: try the model on the file order and accept a
        # table equal up to the order of rows with equal sort keys (none here: keys are distinct per run apart from name)
        out = r2.stdout
        rows_model = ck.model([{'op': 'c18.table', 'runs': [{'ident': r['ident'], 'samples': [lib.frac(v) for v in r['samples']],
                                                             'failed': False} for r in runs]}])[0]
        # rows that differ only in the benchmark name have equal sort keys: compare as multisets per key
        def render_rows(rows):
            return [[c[1] if c[0] != 'f' else 'Failed' for c in row] for row in rows]
        want_rows = render_rows(rows_model['rows'])
        tie = any(near_tie(r['samples']) for r in runs)
        expected_text = format_pretty_table(want_rows, rows_model['cols'], vertical_bar='')
        exp_lines = expected_text.split('\n')
        got_lines = out.rstrip('\n').split('\n')[-len(exp_lines):]
        if tie:
            ck.count('cli-session: mean near a tie, table not compared')
        elif sorted(got_lines) != sorted(exp_lines):
            ck.disagree('c18.session: printed table vs model table from the data actually produced', inp,
                        {'stdout_table': got_lines}, {'expected_table': exp_lines}, TH_TABLE)
        # oracle on the printed text itself: every run once (benchmark name = first word of a row; several rows per
        # name when the cores vary), with its sample count and rounded mean or Failed (last two words)
        printed = []
        header, body = table_row_lines(out)
        uniform_samples = None
        for l in out.split('\n'):
            w = l.split()
            if len(w) == 2 and w[0] == '#Samples':
                uniform_samples = w[1]          # the summary of uniform values
        for l in body:
            w = l.split()
            if len(w) >= 2:
                printed.append((w[0], w[-2] if '#Samples' in header else uniform_samples, w[-1]))
        want = []
        for r in runs:
            smp = r['samples']
            if smp:
                m = sum(Fraction(v) for v in smp) / len(smp)
                want.append((r['b'], str(len(smp)), str(int(round(m)))))
            else:
                want.append((r['b'], '0', 'Failed'))
        # every identifying value is shown verbatim (in the run's row or in the summary of uniform values)
        report_text = out[out.rfind('Result Summary of Uniform Values'):] if 'Result Summary of Uniform Values' in out \
            else '\n'.join([header] + body)
        mangled = sorted(set(v for r in runs for v in r['ident'] if v and v not in report_text))
        if mangled:
            ck.oracle_fail('cell_verbatim', inp, {'values_not_shown_verbatim': mangled, 'report': report_text[-1200:]},
                           signature={'clause': 'cell_verbatim', 'level': 'session'})
        if not tie and sorted(printed) != sorted(want):
            ck.oracle_fail('every_run_once', inp, {'printed (benchmark, samples, mean)': sorted(printed)[:16],
                                                   'expected': sorted(want)[:16]},
                           signature={'clause': 'every_run_once', 'level': 'session'})
        if rows_model['summary']:
            text = format_pretty_table([[name, val[1] if val[0] != 'f' else 'Failed'] for name, val in rows_model['summary']],
                                       ['Property', 'Value'], vertical_bar='', horizontal_bar='')
            if text not in out or out.index(text) > out.rindex(exp_lines[1]):
                ck.disagree('c18.session: summary of uniform values missing from stdout (or after the table)', inp,
                            {'stdout_tail': out[-900:]}, {'summary': rows_model['summary']}, TH_TABLE)
        # oracle on the text: every expected column is a header column or a line of the summary block
        summary_names = set(l.split('  ')[0].strip() for l in out.split('\n') if l.startswith(' '))
        lost = [c for c in COLS if c not in header and c not in summary_names]
        if lost:
            ck.oracle_fail('column_kept_or_moved', inp, {'columns_neither_in_table_nor_summary': lost,
                                                         'stdout_tail': out[-900:]},
                           signature={'clause': 'column_kept_or_moved', 'level': 'session'})


def table_row_lines(out):
    """the data rows of the last pretty table in stdout"""
    lines = out.rstrip('\n').split('\n')
    bars = [i for i, l in enumerate(lines) if l and set(l.strip()) == {'-'}]
    if len(bars) < 3:
        return '', []
    return lines[bars[-3] + 1], lines[bars[-2] + 1:bars[-1]]


# ------------------------------------------------------------------ entry points
def corpus_files():
    d = os.path.join(lib.VERIF, 'harness', 'corpus', 'C18')
    if not os.path.isdir(d):
        return []
    return [os.path.join(d, f) for f in sorted(os.listdir(d)) if f.endswith('.json')]


def run(ck):
    quick = ck.tier == 'quick'
    prepare_env()
    pool = Pool(ck.scratch)
    ck.rule = ('run sets of size 1-12 (thresholds 4/5 rows always present) over all 512 uniform/varying patterns of the nine '
               'identifying columns (thorough) or a seeded half of them plus random sets (quick); samples: none, exact '
               'ties (x.5), ints, floats, large, many; warm-up and reloaded data points; Codespeed final and incremental '
               'mode with 1-12 runs and send failures; non-trivial = a set of >= 2 runs or a Codespeed session')
    ck.assumptions = ['float rounding is not modelled: when the exact mean is within 1e-6 of a tie the mean cell may be either '
                      'neighbour; humanfriendly.format_pretty_table is trusted for rendering',
                      'Codespeed HTTP is abstracted to "accepted or failed"; urllib refuses a str body (checked with a real '
                      'server in every tier)']
    # corpus first
    for f in corpus_files():
        data = json.load(open(f))
        ck.count('corpus')
        replay(ck, data, pool)
    rng = ck.rng
    dims = ['name', 'exec', 'suite', 'extra', 'cores', 'size', 'var', 'tag', 'machine']
    cases = []
    for bits in range(512):
        if quick and rng.random() < 0.5:
            continue
        vary = [d for i, d in enumerate(dims) if bits >> i & 1]
        cases.append(gen_run_set(rng, n=rng.choice([1, 2, 3, 4, 5, 5, 6, 8, 12]), vary=vary))
    for _ in range(1300 if quick else 50000):
        cases.append(gen_run_set(rng))
    for i in range(0, len(cases), 500):
        check_tables(ck, pool, cases[i:i + 500])
    cs_cases = [gen_cs_case(rng, n=n, incremental=inc) for n in (1, 1, 2, 5) for inc in (False, True)]
    cs_cases += [gen_cs_case(rng) for _ in range(120 if quick else 1500)]
    check_codespeed(ck, cs_cases)
    server = CSServer()
    try:
        http_cases = [gen_cs_case(rng, n=n, incremental=inc) for n in (1, 3) for inc in (False, True)]
        http_cases += [gen_cs_case(rng) for _ in range(8 if quick else 200)]
        check_codespeed(ck, http_cases, server=server)
        ck.count('codespeed-real-http-sessions', len(http_cases))
    finally:
        server.stop()
    check_sessions(ck, 12 if quick else 150)
    check_cs_exec_sessions(ck, [gen_cs_exec_case(rng, d) for d in CS_EXEC_DIRECTED] +
                           [gen_cs_exec_case(rng) for _ in range(40 if quick else 600)])


def prepare_env():
    from rebench import environment as E
    drive._fast_environment()
    E.init_env_for_test()


def replay(ck, data, pool=None):
    prepare_env()
    inp = data['input']
    pool = pool or Pool(ck.scratch)
    if 'case' in inp:
        check_tables(ck, pool, [inp['case']])
    elif 'cs_case' in inp:
        if inp.get('transport') == 'http-server':
            server = CSServer()
            try:
                check_codespeed(ck, [inp['cs_case']], server=server)
            finally:
                server.stop()
        else:
            check_codespeed(ck, [inp['cs_case']])
    elif 'cs_exec_case' in inp:
        check_cs_exec_sessions(ck, [inp['cs_exec_case']])
    elif 'mean' in inp:
        ck.notes.append('rounding disagreement: re-run the tier with the same seed')
    elif 'session' in inp and 'scenario_seed' in inp['session']:
        check_sessions(ck, 1, seeds=[inp['session']['scenario_seed']])
    else:
        ck.notes.append('session replays are re-generated from the seed: VERIF_SEED=%s' % data.get('seed'))
        check_sessions(ck, 12)
