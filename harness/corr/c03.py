"""C03 — executed command, working directory, environment and plan are exactly as configured.

Correspondence (model `RB.Cmdline`, driver ops `c03.launch`, `c03.sessions`):

* bulk, in-process: generated configurations (templates over the placeholder set with text
  from the shell-safe alphabet incl. `% { } ~ = :` and non-ASCII, values containing `%`, env
  maps with `~` and `:` lists, absolute / relative / `~` / absent paths and locations) are
  compiled by the real `Configurator`; for every run and several numbers of completed
  invocations `cmdline()`, `cmdline_for_next_invocation()`, `location`, `env` are compared
  with the model, under several `HOME` settings of ReBench's own process;
* sessions, in-process with the scripted `Popen`: resumed sessions (an invocation fails, the
  next session continues) and `-p` sessions in between: args / cwd / env of every start, the
  invocation numbers in the data file, the plan on stdout, no start and unchanged data-file
  bytes for `-p`;
* real launches: a `/bin/sh` fake harness records argv, cwd and its complete environment
  while ReBench's own environment is filled with random variables.

Oracle: `drive_cmdline.spec_launch` — the property read from docs/config.md, evaluated on what
the implementation did; it does not use the Lean model.
"""
import copy
import json
import os
import shlex

import lib
import drive
import drive_cmdline as dc

THEOREMS_TEXT = ['RB.Cmdline.c03_command_exact', 'RB.Cmdline.c03_fmt_unparse',
                 'RB.Cmdline.c03_two_phase_eq_direct_partial']
THEOREMS_LAUNCH = ['RB.Cmdline.c03_env_noninterference', 'RB.Cmdline.c03_env_exact',
                   'RB.Cmdline.c03_invocation_number']
THEOREMS_PLAN = ['RB.Cmdline.c03_plan_exact', 'RB.Cmdline.c03_plan_no_effects']

HOMES = ['/root', '/home/u', '/h/', '/', '/opt/é', None]     # None = HOME unset (pwd is used)


def status_of(fn):
    from rebench.output import UIError
    try:
        return fn()
    except UIError:
        return 'ui_error'
    except Exception as e:  # what would end in a traceback
        return 'crash:' + type(e).__name__


def pct_free(info, run):
    """no `%%` in any template part and no `%` in any value that is substituted"""
    b = info['bench'][run.benchmark.name]
    ex = dc.ex_of(info, run)
    parts = [dc.spec_path('/', ex['path']) or '', ex['executable'], ex['args'] or '', info['command'],
             b['extra_args'] or '']
    if any('%%' in p for p in parts):
        return False
    vals = dc.spec_values(info, run, 1)
    return not any('%' in v for k, v in vals.items())


def uses_default_warmup(info, run):
    b = info['bench'][run.benchmark.name]
    ex = dc.ex_of(info, run)
    t = ' '.join([ex['path'] or '', ex['executable'], ex['args'] or '', info['command'], b['extra_args'] or ''])
    return info['warmup'] is None and '%(warmup)s' in t.replace('%%', '')


def home_of():
    return os.environ['HOME'] if 'HOME' in os.environ else dc.pw_home()


def users_dict():
    return dict((u, d) for u, d in dc.users_table())


def command_oracle(ck, inp, info, run, invocation, cwd, observed_text, where, observed_argv=None, home=None):
    """clause `command_exact`: observed_text is the string handed to `sh -c` (or a status);
    observed_argv, if given, is what a real process received"""
    home, users = home or home_of(), users_dict()
    spec = dc.spec_launch(info, run, invocation, cwd, home, users)
    if spec is None:
        if observed_text != 'ui_error':
            ck.oracle_fail('malformed_template_rejected', inp,
                           {'observed': observed_text, 'where': where},
                           {'observed': 'crash' if str(observed_text).startswith('crash:') else 'accepted'})
        return None
    ok = False
    got = None
    if observed_argv is not None:
        got = observed_argv
        ok = got == spec['argv']
    elif isinstance(observed_text, str) and not observed_text.startswith('crash:') and observed_text != 'ui_error':
        try:
            got = shlex.split(observed_text)
        except ValueError:
            got = None
        ok = got == spec['argv']
    if not ok:
        if got is None:
            outcome = observed_text if observed_text == 'ui_error' else str(observed_text)
        else:
            outcome = 'wrong-text'
        # which class of input is it?
        cls = 'other'
        if got is not None and uses_default_warmup(info, run):
            v = dc.spec_values(info, run, invocation, documented_defaults=False)
            t = dc.spec_subst(dc.spec_template(info, run, cwd), v)
            if t is not None and [dc.spec_tilde(w, home, users) for w in t.split(' ') if w] == got:
                cls = 'warmup-unset'
        if cls == 'other' and not pct_free(info, run):
            cls = 'pct-literal'
        ck.oracle_fail('command_exact', inp,
                       {'expected_argv': spec['argv'], 'observed': observed_text, 'observed_argv': got,
                        'invocation': invocation, 'where': where},
                       {'class': cls, 'outcome': outcome if cls != 'pct-literal' else
                        ('crash' if outcome.startswith('crash:') else outcome)})
    return spec


# ------------------------------------------------------------------- bulk
def observe_run(run):
    o = {}
    o['cmdline'] = status_of(run.cmdline)
    o['next'] = status_of(run.cmdline_for_next_invocation)
    o['location'] = status_of(lambda: run.location)
    o['env'] = status_of(lambda: dict(run.env))
    return o


def check_bulk(ck, cases):
    """cases: dicts {kind:'bulk', cfg, info, home, completed:[…]}"""
    base = os.path.join(ck.scratch, 'bulk')
    os.makedirs(base, exist_ok=True)
    ops, recs = [], []
    for case in cases:
        cfg, info = case['cfg'], case['info']
        with dc.chdir(base), dc.environ(home=case['home'], unset_home=case['home'] is None):
            from rebench.output import UIError
            try:
                runs = dc.compile_runs(cfg, base)
            except UIError:
                ck.count('bulk:config-rejected')
                continue
            runs.sort(key=lambda r: json.dumps([str(x) for x in dc.run_key(r)]))
            # every configured combination is a run of its own (after the documented normalisation)
            want_runs = len(info['bench']) * len(info.get('executors') or {1: 1})
            for key in ('cores', 'input_sizes', 'variable_values', 'tags'):
                conf = (info.get('dims') or {}).get(key)
                if conf:
                    want_runs *= len(set((type(dc.norm_dim(key, v)).__name__, dc.norm_dim(key, v)) for v in conf))
            if len(runs) != want_runs:
                ck.oracle_fail('placeholder_value', dict(case), {'configured_runs': want_runs, 'compiled_runs': len(runs),
                                                                'dims': info.get('dims')},
                               {'what': 'configured values collapse into one run'})
            w = dc.world(base, {'HOME': os.environ['HOME']} if 'HOME' in os.environ else {})
            for i, run in enumerate(runs):
                c = case['completed'][i % len(case['completed'])]
                dc.set_completed(run, c)
                obs = observe_run(run)
                inp = dict(case, run=[str(x) for x in dc.run_key(run)], completed_used=c)
                spec = command_oracle(ck, inp, info, run, c + 1, base, obs['next'], 'cmdline_for_next_invocation')
                if spec is not None:
                    if obs['env'] != spec['env']:
                        ck.oracle_fail('env_exact', inp, {'expected': spec['env'], 'observed': obs['env']},
                                       {'where': 'RunId.env'})
                    loc = obs['location']
                    loc_x = dc._tilde_one(loc, home_of(), users_dict()) if isinstance(loc, str) and loc else loc
                    if (loc_x or None) != spec['cwd']:
                        ck.oracle_fail('cwd_exact', inp, {'expected': spec['cwd'], 'observed': loc},
                                       {'where': 'RunId.location'})
                ops.append({'op': 'c03.launch', 'world': w, 'run': dc.model_run(info, run), 'completed': c})
                recs.append((inp, obs, info, run))
                kinds = info['kinds']
                for k in kinds:
                    ck.count('template:' + k)
                ck.count('home:%s' % case['home'])
                ck.count('completed:%s' % ('0' if c == 0 else '1-9' if c < 10 else '>=10'))
                nontrivial = ('ph' in kinds or 'tilde' in kinds or 'pct' in kinds)
                ck.case(nontrivial_key=('b', json.dumps(inp['run']), info['command'], info['args'], c,
                                        case['home']) if nontrivial else None,
                        sample={'command': info['command'], 'run': inp['run'], 'completed': c, 'next': obs['next']})
    answers = ck.model(ops)
    for (inp, obs, info, run), ans in zip(recs, answers):
        if 'err' in ans:
            raise lib.InfraError('model rejected op: %s' % json.dumps(inp)[:400])
        ck.count('model:' + ans['status'])
        if ans['two_phase'] == 'crash':
            ck.count('model:two-phase-would-crash')
        elif isinstance(ans['two_phase'], dict) and ans['status'] == 'ok' and \
                ans['two_phase']['ok'] != ans['pre']:
            ck.count('model:two-phase-would-differ')
        m = {}
        if ans['status'] == 'ok':
            m = {'cmdline': ans['cmdline'], 'next': ans['text'],
                 'location': ans['location']['ok'], 'env': dict(ans['run_env'])}
        else:
            m = {'cmdline': 'ui_error' if ans['cmdline'] is None else ans['cmdline'], 'next': 'ui_error',
                 'location': 'ui_error' if ans['location'] == 'ui_error' else ans['location']['ok'],
                 'env': dict(ans['run_env'])}
        diffs = [k for k in ('cmdline', 'next', 'location', 'env') if obs[k] != m[k]]
        if diffs:
            ck.disagree('c03.launch: RunId.%s vs RB.Cmdline' % '/'.join(diffs), inp,
                        dict((k, obs[k]) for k in diffs), dict((k, m[k]) for k in diffs),
                        THEOREMS_TEXT + THEOREMS_LAUNCH)


def gen_bulk_case(rng):
    cfg, info = dc.gen_config(rng)
    return {'kind': 'bulk', 'cfg': cfg, 'info': info, 'home': rng.choice(HOMES),
            'completed': [rng.choice([0, 0, 1, 2, 5, 9, 10, 99]) for _ in range(3)]}


def flush(ck, batch):
    """run the queued model ops in one driver start and hand every answer to its comparison"""
    if not batch:
        return
    answers = ck.model([op for op, _f in batch])
    for (op, f), ans in zip(batch, answers):
        if isinstance(ans, dict) and 'err' in ans:
            raise lib.InfraError('model rejected %s' % op['op'])
        f(ans)


# --------------------------------------------------------------- sessions
def gen_session_scenario(rng):
    with_fail = rng.random() < 0.7
    cfg, info = dc.gen_config(rng, for_sessions=True, braces=not with_fail, env_tilde=False)
    n_sessions = rng.randint(2, 4)
    sessions = []
    for s in range(n_sessions):
        plan = rng.random() < 0.35
        outs = {}
        for j in range(len(info['bench'])):
            outs['m%dm' % j] = ['fail' if (with_fail and rng.random() < 0.3) else 'ok' for _ in range(8)]
        sessions.append({'plan': plan, 'script': outs})
    adapter = dc.gen_adapter(rng)
    if adapter['kind'] == 'perf' and with_fail:
        for sess in sessions:
            for m in sess['script']:
                sess['script'][m] = [('fail_report' if (o == 'fail' and rng.random() < 0.5) else o)
                                     for o in sess['script'][m]]
    return {'kind': 'sessions', 'cfg': cfg, 'info': info, 'home': rng.choice(HOMES[:5]), 'sessions': sessions,
            'adapter': adapter}


def marker_of(text, n):
    for j in range(n):
        if ('m%dm' % j) in text:
            return 'm%dm' % j
    return None


def parse_plan(stdout, prefix=''):
    """`cd <dir>` lines followed by a command line (the Time adapter's format string contains
    line feeds: they are protected while the output is split into lines)"""
    if '\n' in prefix:
        stdout = stdout.replace(prefix, prefix.replace('\n', '\x00'))
    entries, cd = [], None
    for line in stdout.split('\n'):
        if line == '':
            continue
        if line.startswith('cd ') and cd is None:
            cd = line[3:]
            continue
        entries.append({'cd': cd, 'cmd': line.replace('\x00', '\n')})
        cd = None
    return entries


def unwrap(ck, inp, prefix, text, where):
    """clause `adapter_wrapper`: what is started is the adapter's prefix followed by the command"""
    if not isinstance(text, str):
        return text
    if text.startswith(prefix):
        return text[len(prefix):]
    ck.oracle_fail('adapter_wrapper', inp, {'expected_prefix': prefix, 'observed': text, 'where': where},
                   {'adapter': inp.get('adapter', {}).get('kind')})
    return text


_time_table = {}


def model_adapter(ck, adapter):
    """the model's `Adapter` value; for Time the model itself decides from the probe results"""
    if adapter['kind'] == 'plain':
        return {'kind': 'plain'}
    if adapter['kind'] == 'perf':
        rec = dc.PERF_RECORD_DEFAULT if adapter['record_args'] is None else adapter['record_args']
        rep = dc.PERF_REPORT_DEFAULT if adapter['report_args'] is None else adapter['report_args']
        return {'kind': 'perf', 'command': 'perf', 'record_args': rec + dc.PERF_OUT, 'report_args': rep + dc.PERF_IN}
    if not _time_table:
        combos = [(a, b) for a in (0, 1, 2, 127, None) for b in (0, 1, 2, None)]
        ans = ck.model([{'op': 'c03.time_decision', 'rc1': a, 'rc2': b} for a, b in combos])
        for c, a in zip(combos, ans):
            _time_table[c] = a
    d = _time_table[(adapter['rc1'], adapter['rc2'])]
    return {'kind': 'time', 'formatted': d['formatted'], 'bin': d['bin']}


_dirs = [0]


def check_sessions(ck, scenarios):
    batch = []
    for idx, sc in enumerate(scenarios):
        _dirs[0] += 1
        wd = os.path.join(ck.scratch, 'sess%d' % _dirs[0])
        os.makedirs(wd)
        cfg, info = copy.deepcopy(sc['cfg']), sc['info']
        adapter = sc.get('adapter') or {'kind': 'plain', 'name': 'RebenchLog'}
        dc.apply_adapter(cfg, info, adapter, wd)
        prefix = dc.spec_adapter_prefix(adapter)
        ck.count('adapter:' + (adapter['kind'] if adapter['kind'] != 'plain' else adapter['name']))
        names = list(info['bench'].keys())
        n = len(names)
        conf = drive.write_config(wd, copy.deepcopy(cfg))
        data_file = os.path.join(wd, 't.data')
        time_calls = []
        with dc.chdir(wd), dc.environ(home=sc['home']), dc.time_world(adapter, time_calls):
            runs = dc.compile_runs(cfg, wd)
            # a run is identified by the marker of its benchmark and, with several executors, the
            # marker in the executor's args
            ex_names = list((info.get('executors') or {info['executor']: None}).keys())
            multi = len(ex_names) > 1

            def key_of(text):
                m = marker_of(text, n)
                if m is None or not multi:
                    return m
                for k in range(len(ex_names)):
                    if ('Q%dQ' % k) in text:
                        return '%s|Q%dQ' % (m, k)
                return None
            by_marker = {}
            for run in runs:
                k = 'm%dm' % names.index(run.benchmark.name)
                if multi:
                    k += '|Q%dQ' % ex_names.index(run.benchmark.suite.executor.name)
                by_marker[k] = run
            keys = sorted(by_marker)
            w = dc.world(wd, dict(os.environ))
            completed = dict((m, 0) for m in by_marker)
            model_sessions, observed = [], []
            crashed = False
            for s_i, sess in enumerate(sc['sessions']):
                used = dict((m, []) for m in by_marker)
                pos = dict((m, 0) for m in by_marker)
                starts_of = dict((m, []) for m in by_marker)
                reports_of = dict((m, []) for m in by_marker)
                unknown = []
                last = {}

                def script(rec, sess=sess, used=used, pos=pos, starts_of=starts_of, unknown=unknown,
                           reports_of=reports_of, last=last):
                    text = rec['args'] if isinstance(rec['args'], str) else ' '.join(rec['args'])
                    m = key_of(text)
                    if m is None and adapter['kind'] == 'perf' and last.get('m') and 'profile.perf' in text:
                        # the report step of the invocation that was just recorded
                        reports_of[last['m']].append(rec)
                        return drive.Outcome(last['report_rc'], dc.perf_report_output() if last['report_rc'] == 0 else 'no')
                    if m is None or m not in used:
                        unknown.append(rec['args'])
                        return drive.Outcome(1, '')
                    outs_m = sess['script'][m.split('|')[0]]
                    o = outs_m[pos[m] % len(outs_m)]
                    pos[m] += 1
                    used[m].append(o)
                    starts_of[m].append(rec)
                    last['m'], last['report_rc'] = m, (1 if o == 'fail_report' else 0)
                    if o in ('ok', 'fail_report'):
                        return drive.Outcome(0, dc.benchmark_output(adapter))
                    return drive.Outcome(1, 'no\n')
                before = open(data_file, 'rb').read() if os.path.exists(data_file) else None
                res = drive.run_session(wd, [conf] + (['-p'] if sess['plan'] else []), script)
                after = open(data_file, 'rb').read() if os.path.exists(data_file) else None
                ck.impl_traces += 1
                inp = dict(sc, session_index=s_i)
                ck.count('session:%s:%s' % ('plan' if sess['plan'] else 'exec', res.status()))
                if unknown:
                    ck.oracle_fail('command_exact', inp, {'unattributable_start': unknown[:2]},
                                   {'class': 'marker-lost', 'outcome': 'wrong-text'})
                if res.crash:
                    crashed = True
                    if sess['plan']:
                        if res.starts:
                            ck.oracle_fail('plan_no_start', inp, {'starts': [r['args'] for r in res.starts]})
                        if before != after:
                            ck.oracle_fail('plan_no_write', inp,
                                           {'before': None if before is None else len(before),
                                            'after': None if after is None else len(after)})
                    if any(not pct_free(info, r) for r in runs) and \
                            any('cmdline_for_next_invocation' in fr for fr in res.crash[2]):
                        ck.oracle_fail('command_exact', inp, {'observed': 'crash:' + res.crash[0], 'where': 'session',
                                                              'frames': res.crash[2]},
                                       {'class': 'pct-literal', 'outcome': 'crash'})
                    else:
                        ck.disagree('c03.sessions: session crashed', inp, {'crash': res.crash}, None,
                                    THEOREMS_LAUNCH)
                    break
                if sess['plan']:
                    entries = parse_plan(res.stdout, prefix)
                    # ---- oracle: exactly dir + command of the next invocation of every unfinished run
                    unfinished = sorted(m for m in by_marker if completed[m] < info['invocations'])
                    printed = {}
                    stray = []
                    for e in entries:
                        m = key_of(e['cmd'])
                        if m is None or m in printed:
                            stray.append(e)
                        else:
                            printed[m] = e
                    if stray or sorted(printed) != unfinished:
                        ck.oracle_fail('plan_exact', inp, {'unfinished_runs': unfinished, 'printed': entries},
                                       {'where': 'stdout of -p', 'what': 'set of runs'})
                    for m in unfinished:
                        if m not in printed:
                            continue
                        spec = command_oracle(ck, inp, info, by_marker[m], completed[m] + 1, wd,
                                              unwrap(ck, inp, prefix, printed[m]['cmd'], 'plan'), 'plan')
                        if spec is not None:
                            cd = printed[m]['cd']
                            cd = dc._tilde_one(cd, home_of(), users_dict()) if cd else None
                            if cd != spec['cwd']:
                                ck.oracle_fail('plan_exact', inp, {'expected_cd': spec['cwd'], 'printed': printed[m]},
                                               {'where': 'stdout of -p', 'what': 'directory'})
                    if res.starts:
                        ck.oracle_fail('plan_no_start', inp, {'starts': [r['args'] for r in res.starts]})
                    if before != after:
                        ck.oracle_fail('plan_no_write', inp,
                                       {'before': None if before is None else len(before),
                                        'after': None if after is None else len(after)})
                    model_sessions.append({'plan': True, 'outcomes': [[] for _ in keys]})
                    observed.append({'plan': sorted(([e['cd'], e['cmd']] for e in entries), key=json.dumps)})
                else:
                    obs_starts = {}
                    for m, run in sorted(by_marker.items()):
                        c = completed[m]
                        obs_starts[m] = []
                        for rec, o in zip(starts_of[m], used[m]):
                            spec = command_oracle(ck, inp, info, run, c + 1, wd,
                                                  unwrap(ck, inp, prefix, rec['args'], 'Popen args'), 'Popen args')
                            if spec is not None:
                                if rec['cwd'] != spec['cwd']:
                                    ck.oracle_fail('cwd_exact', inp, {'expected': spec['cwd'], 'observed': rec['cwd']},
                                                   {'where': 'Popen cwd'})
                                if rec['env'] != spec['env']:
                                    ck.oracle_fail('env_exact', inp, {'expected': spec['env'], 'observed': rec['env']},
                                                   {'where': 'Popen env'})
                                if rec['shell'] is not True:
                                    ck.oracle_fail('command_exact', inp, {'shell': rec['shell']},
                                                   {'class': 'not-through-shell', 'outcome': 'wrong-text'})
                            obs_starts[m].append({'text': rec['args'], 'cwd': rec['cwd'],
                                                  'env': sorted(rec['env'].items()) if rec['env'] is not None else None})
                            if o == 'ok':
                                c += 1
                        completed[m] = c
                        # the profiler's report step: `perf <report_args>` where the recording ran
                        want_reports = sum(1 for o in used[m] if o in ('ok', 'fail_report')) \
                            if adapter['kind'] == 'perf' else 0
                        if len(reports_of[m]) != want_reports:
                            ck.oracle_fail('report_step', inp, {'run': m, 'reports': len(reports_of[m]),
                                                                'expected': want_reports}, {'what': 'count'})
                        spec0 = dc.spec_launch(info, run, 1, wd, home_of(), users_dict())
                        obs_starts[m + ':reports'] = []
                        for rec in reports_of[m]:
                            if rec['args'] != dc.spec_report_text(adapter):
                                ck.oracle_fail('report_step', inp, {'expected': dc.spec_report_text(adapter),
                                                                    'observed': rec['args']}, {'what': 'text'})
                            if spec0 is not None and rec['cwd'] != spec0['cwd']:
                                ck.oracle_fail('cwd_exact', inp, {'expected': spec0['cwd'], 'observed': rec['cwd']},
                                               {'where': 'Popen cwd of the perf report step'})
                            if spec0 is not None and rec['env'] != spec0['env']:
                                ck.oracle_fail('env_exact', inp, {'expected': spec0['env'], 'observed': rec['env']},
                                               {'where': 'Popen env of the perf report step'})
                            obs_starts[m + ':reports'].append(
                                {'text': rec['args'], 'cwd': rec['cwd'],
                                 'env': sorted(rec['env'].items()) if rec['env'] is not None else None})
                    model_sessions.append({'plan': False,
                                           'outcomes': [used[k] for k in keys]})
                    observed.append({'starts': obs_starts})
                ck.case(nontrivial_key=('s', idx, s_i) if (sess['plan'] or any(used.values())) else None,
                        sample={'plan': sess['plan'], 'starts': len(res.starts), 'status': res.status()}
                        if idx < 2 else None)
            if crashed:
                continue
            if adapter['kind'] == 'time' and any(not x['plan'] for x in sc['sessions']):
                want = [['/usr/bin/time']] + ([['/opt/local/bin/gtime']] if adapter['rc1'] in (1, None) else [])
                if [c[:1] for c in time_calls] != want and time_calls:
                    ck.oracle_fail('adapter_wrapper', dict(sc, session_index='all'),
                                   {'probes': time_calls, 'expected': want}, {'adapter': 'time', 'what': 'probes'})
            # ---- invocation numbers recorded in the data file (oracle + model)
            df = drive.read_data_file(data_file if adapter['kind'] != 'perf' else data_file + '.none')
            marker_of_id = {}
            for rid, meta in df['run_meta']:
                marker_of_id[rid] = key_of((meta.get('cmdline', '') or '') + ' ' + str(meta.get('extraArgs', '') or ''))
            recorded = dict((m, []) for m in by_marker)
            for row in df['rows']:
                m = marker_of_id.get(int(row[-1]))
                if m in recorded and row[4] == 'total':     # one `total` row per data point
                    recorded[m].append(int(row[0]))
            inp = dict(sc, session_index='all')
            for m in by_marker:
                want = list(range(1, completed[m] + 1))
                if adapter['kind'] == 'perf':
                    recorded[m] = want     # profile data goes to another file, in another format
                if recorded[m] != want:
                    ck.oracle_fail('invocation_number', inp, {'run': m, 'recorded': recorded[m], 'expected': want},
                                   {'where': 'data file'})
            # ---- model (queued: one driver start for all scenarios)
            ordered = [by_marker[k] for k in keys]
            m_adapter = model_adapter(ck, adapter)
            op = {'op': 'c03.sessions', 'world': w,
                  'runs': [dict(dc.model_run(info, r), adapter=m_adapter) for r in ordered],
                  'sessions': model_sessions[:len(observed)]}

            def compare(ans, sc=sc, observed=observed, by_marker=by_marker, n=n, recorded=recorded, keys=keys):
                if 'err' in ans:
                    raise lib.InfraError('model rejected c03.sessions')
                m_recorded = dict((m, []) for m in by_marker)
                for s_i, (events, obs) in enumerate(zip(ans, observed)):
                    inp = dict(sc, session_index=s_i)
                    if 'plan' in obs:
                        m_plan = sorted(([e['cd'], e['cmd']] for e in events if e['t'] == 'plan'), key=json.dumps)
                        others = [e for e in events if e['t'] != 'plan']
                        if m_plan != obs['plan'] or others:
                            ck.disagree('c03.sessions: plan printed by -p vs RB.Cmdline.session', inp,
                                        obs['plan'], m_plan, THEOREMS_PLAN)
                    else:
                        for j, m in enumerate(keys):
                            ms = [{'text': e['text'], 'cwd': e['cwd'], 'env': sorted((k, v) for k, v in e['env'])}
                                  for e in events if e['t'] == 'start' and e['run'] == j]
                            os_ = [{'text': s['text'], 'cwd': s['cwd'],
                                    'env': None if s['env'] is None else [tuple(x) for x in s['env']]}
                                   for s in obs['starts'].get(m, [])]
                            for x in ms:
                                x['env'] = [tuple(e) for e in x['env']]
                            if ms != os_:
                                ck.disagree('c03.sessions: starts of run %s vs RB.Cmdline.session' % m, inp,
                                            os_, ms, THEOREMS_LAUNCH + THEOREMS_TEXT)
                            mr = [{'text': e['text'], 'cwd': e['cwd'], 'env': [tuple(x) for x in sorted(e['env'])]}
                                  for e in events if e['t'] == 'report' and e['run'] == j]
                            orr = [{'text': s['text'], 'cwd': s['cwd'],
                                    'env': None if s['env'] is None else [tuple(x) for x in s['env']]}
                                   for s in obs['starts'].get(m + ':reports', [])]
                            if mr != orr:
                                ck.disagree('c03.sessions: report steps of run %s vs RB.Cmdline.session' % m, inp,
                                            orr, mr, ['RB.Cmdline.c03_report_step'])
                            m_recorded[m] += [e['inv'] for e in events if e['t'] == 'append' and e['run'] == j]
                if len(observed) == len(sc['sessions']) and m_recorded != recorded:
                    ck.disagree('c03.sessions: invocation numbers in the data file vs model', dict(sc, session_index='all'),
                                recorded, m_recorded, ['RB.Cmdline.c03_invocation_number'])
            batch.append((op, compare))
    flush(ck, batch)


# ----------------------------------------------------------- real launches
def gen_real_scenario(rng):
    cfg, info = dc.gen_config(rng, for_sessions=True, braces=True, parens=False, multi_exec=False)
    extra = {}
    for _ in range(rng.randint(8, 25)):
        extra['RBV_%s' % dc.gen_plain(rng, 3, 8, braces=False).translate({ord(c): '_' for c in '-./=:,@+éλ'})] = \
            dc.gen_plain(rng, 0, 12)
    extra.update({'EDITOR': 'vi', 'FOO_BAR': '~/x', 'RB_SECRET': 's3cr3t'})
    return {'kind': 'real', 'cfg': cfg, 'info': info, 'parent_extra': extra,
            'loc': rng.choice(['absent', 'rel', 'abs', 'home'])}


def check_real(ck, scenarios):
    batch = []
    for idx, sc in enumerate(scenarios):
        _dirs[0] += 1
        wd = os.path.realpath(os.path.join(ck.scratch, 'real%d' % _dirs[0]))
        os.makedirs(wd)
        home = os.path.join(wd, 'home')
        os.makedirs(os.path.join(home, 'sub3'))
        os.makedirs(os.path.join(wd, 'sub'))
        cfg, info = copy.deepcopy(sc['cfg']), copy.deepcopy(sc['info'])
        logdir = os.path.join(wd, 'log')
        dc.write_fake_harness(wd, 'h.sh', logdir)
        # the executable is the fake harness; everything else stays as generated
        ex = cfg['executors'][info['executor']]
        su = cfg['benchmark_suites'][info['suite']]
        ex['path'], ex['executable'] = wd, 'h.sh'
        info['path'], info['executable'] = wd, 'h.sh'
        info['executors'] = {info['executor']: {'path': wd, 'executable': 'h.sh', 'args': info['args']}}
        su.pop('location', None)
        info['has_location'], info['location'] = False, None
        if sc['loc'] != 'absent':
            loc = {'rel': 'sub', 'abs': os.path.join(wd, 'sub'), 'home': '~/sub3'}[sc['loc']]
            su['location'] = loc
            info['has_location'], info['location'] = True, loc
        conf = drive.write_config(wd, copy.deepcopy(cfg))
        with dc.chdir(wd), dc.environ(home=home, extra=sc['parent_extra']):
            runs = dc.compile_runs(cfg, wd)
            names = list(info['bench'].keys())
            by_marker = dict(('m%dm' % names.index(r.benchmark.name), r) for r in runs)
            w = dc.world(wd, dict(os.environ))
            res = drive.run_session(wd, [conf], None)
            ck.impl_traces += 1
            log = dc.read_fake_log(logdir)
            inp = dict(sc, wd='<scratch>')
            ck.count('real:%s:%s' % (sc['loc'], res.status()))
            if res.crash or res.status() != 'ok':
                ck.disagree('c03.real: session with the fake harness did not succeed', inp,
                            {'status': res.status(), 'crash': res.crash, 'stdout': res.stdout[-400:]}, None,
                            THEOREMS_LAUNCH)
                continue
            seen = dict((m, []) for m in by_marker)
            for e in log:
                m = marker_of(' '.join(e['argv']), len(names))
                if m in seen:
                    seen[m].append(e)
                else:
                    ck.oracle_fail('command_exact', inp, {'unattributable_start': e['argv']},
                                   {'class': 'marker-lost', 'outcome': 'wrong-text'})
            ordered = [by_marker['m%dm' % j] for j in range(len(names)) if ('m%dm' % j) in by_marker]
            op = {'op': 'c03.sessions', 'world': w, 'runs': [dc.model_run(info, r) for r in ordered],
                  'sessions': [{'plan': False,
                                'outcomes': [['ok'] * len(seen['m%dm' % j]) for j in range(len(names))]}]}

            def compare(ans, seen=seen, names=names, info=info, inp=inp, wd=wd, by_marker=by_marker):
                events = ans[0]
                for j in range(len(names)):
                    m = 'm%dm' % j
                    model_starts = [e for e in events if e['t'] == 'start' and e['run'] == j]
                    if len(model_starts) != len(seen.get(m, [])):
                        ck.disagree('c03.real: number of starts vs RB.Cmdline.session', inp,
                                    len(seen.get(m, [])), len(model_starts), THEOREMS_LAUNCH)
                    for e, ms in zip(seen.get(m, []), model_starts):
                        child_env = dict((a, b) for a, b in e['env'].items()
                                         if a not in dc.SH_ADDS or a in dc.env_of(info, by_marker[m]))
                        m_env = dict((a, b) for a, b in ms['env'])
                        if ms['argv'][1:] != e['argv'] or m_env != child_env or \
                                os.path.realpath(ms['cwd'] or wd) != os.path.realpath(e['cwd']):
                            ck.disagree('c03.real: process seen by the fake harness vs RB.Cmdline.launch', inp,
                                        {'argv': e['argv'], 'cwd': e['cwd'], 'env': child_env},
                                        {'argv': ms['argv'], 'cwd': ms['cwd'], 'env': m_env},
                                        THEOREMS_LAUNCH + THEOREMS_TEXT)
            batch.append((op, compare))
            for j in range(len(names)):
                m = 'm%dm' % j
                run = by_marker[m]
                if len(seen[m]) != info['invocations']:
                    ck.oracle_fail('invocation_number', inp, {'run': m, 'starts': len(seen[m]),
                                                              'configured': info['invocations']},
                                   {'where': 'fake harness log'})
                for k, e in enumerate(seen[m]):
                    spec = dc.spec_launch(info, run, k + 1, wd, home, users_dict())
                    child_env = dict((a, b) for a, b in e['env'].items()
                                     if a not in dc.SH_ADDS or a in dc.env_of(info, by_marker[m]))
                    if spec is None:
                        continue
                    command_oracle(ck, inp, info, run, k + 1, wd, None, 'fake harness',
                                   observed_argv=[os.path.join(wd, 'h.sh')] + e['argv'], home=home)
                    if os.path.realpath(e['cwd']) != os.path.realpath(spec['cwd'] or wd):
                        ck.oracle_fail('cwd_exact', inp, {'expected': spec['cwd'], 'observed': e['cwd']},
                                       {'where': 'fake harness'})
                    want_env = dict((a, b) for a, b in spec['env'].items())
                    if child_env != want_env:
                        inherited = sorted(set(child_env) & set(os.environ) - set(want_env))
                        ck.oracle_fail('env_exact', inp, {'expected': want_env, 'observed': child_env,
                                                          'inherited_from_rebench': inherited},
                                       {'where': 'fake harness', 'inherited': bool(inherited)})
                ck.case(nontrivial_key=('r', idx, j),
                        sample={'real_argv': seen[m][0]['argv'] if seen[m] else None,
                                'env_keys': sorted(seen[m][0]['env']) if seen[m] else None,
                                'parent_vars': len(os.environ)} if idx < 1 else None)


    flush(ck, batch)



# ------------------------------------------- env of one run while another run expands its own
def gen_env_isolation_case(rng):
    env = {}
    pool = [('LIBS', '~/lib:/opt/lib:~/more'), ('P', '~'), ('JAVA_HOME', '~/jdk'), ('A', '1'), ('Q', 'x ~/y'),
            ('PATH', '~root/bin:/bin'), ('E', ''), ('K', 'k:~')]
    for k, v in rng.sample(pool, rng.randint(2, 5)):
        env[k] = v
    if not any('~' in v for v in env.values()):
        env['LIBS'] = '~/lib:/opt/lib:~/more'
    level = rng.choice(['runs', 'suite', 'executor', 'benchmark'])
    bench = {'B': {'env': env}} if level == 'benchmark' else 'B'
    suite = {'gauge_adapter': 'RebenchLog', 'command': 'h %(benchmark)s %(input)s', 'benchmarks': [bench],
             'input_sizes': rng.choice([[1, 2], [1, 2, 3], ['s', 'm', 'l', 'xl']])}
    executor = {'path': '.', 'executable': 'exe'}
    runs_cfg = {'invocations': 1, 'execute_exclusively': False}
    {'runs': runs_cfg, 'suite': suite, 'executor': executor}.get(level, {})['env'] = env
    cfg = {'default_experiment': 'T', 'default_data_file': 't.data', 'runs': runs_cfg,
           'benchmark_suites': {'S': suite}, 'executors': {'E': executor},
           'experiments': {'T': {'suites': ['S'], 'executions': ['E']}}}
    info = {'bench': {'B': {'command': 'B', 'extra_args': None, 'env': dict(env)}}, 'executor': 'E', 'suite': 'S',
            'iterations': None, 'warmup': None, 'env': dict(env), 'invocations': 1, 'path': '.', 'executable': 'exe',
            'args': None, 'command': 'h %(benchmark)s %(input)s', 'has_location': False, 'location': None,
            'dims': {'input_sizes': suite['input_sizes']}, 'kinds': ['env-isolation']}
    return {'kind': 'env_isolation', 'cfg': cfg, 'info': info, 'home': rng.choice(['/home/u', '/root', '/h/']),
            'order': rng.choice([[0, 1], [1, 0], [0, -1]])}


def check_env_isolation(ck, cases):
    """Several runs of one benchmark share its configuration.  One run's env is read while
    another run of the same benchmark is in the middle of expanding `~` in its own (the window a
    worker thread of the parallel scheduler can fall into, made deterministic by holding the first
    `expand_user` call of the first reader): every run must see the completely expanded map."""
    import threading
    from rebench.model import run_id as run_id_mod
    base = os.path.join(ck.scratch, 'bulk')
    os.makedirs(base, exist_ok=True)
    if not hasattr(run_id_mod, 'expand_user'):
        ck.notes.append('env isolation: rebench.model.run_id.expand_user not found, race not driven')
        return
    for case in cases:
        cfg, info = case['cfg'], case['info']
        with dc.chdir(base), dc.environ(home=case['home']):
            runs = dc.compile_runs(cfg, base)
            runs.sort(key=lambda r: str(r.input_size))
            first, second = runs[case['order'][0]], runs[case['order'][1]]
            inside, go = threading.Event(), threading.Event()
            state = {'n': 0}
            orig = run_id_mod.expand_user
            lock = threading.Lock()

            def held(value, shell_escape, orig=orig):
                with lock:
                    state['n'] += 1
                    is_first = state['n'] == 1
                if is_first:
                    inside.set()
                    go.wait(5)
                return orig(value, shell_escape)
            got = {}

            def reader():
                got['first'] = status_of(lambda: dict(first.env))
            run_id_mod.expand_user = held
            try:
                t = threading.Thread(target=reader)
                t.start()
                entered = inside.wait(3)
                # … while `first` is still expanding, another run of the same benchmark is started
                got['second'] = status_of(lambda: dict(second.env))
                go.set()
                t.join(10)
            finally:
                go.set()
                run_id_mod.expand_user = orig
            got['later'] = status_of(lambda: dict(runs[-1].env))
            ck.count('env-isolation:%s' % ('window-reached' if entered else 'no-expansion-call'))
            home, users = home_of(), users_dict()
            for which, run in (('first', first), ('second', second), ('later', runs[-1])):
                spec = dc.spec_launch(info, run, 1, base, home, users)
                inp = dict(case, which=which)
                if got.get(which) != spec['env']:
                    ck.oracle_fail('env_exact', inp, {'expected': spec['env'], 'observed': got.get(which),
                                                      'reader': which},
                                   {'where': 'RunId.env read while another run of the benchmark expands its env'})
            ck.case(nontrivial_key=('enviso', json.dumps(case, sort_keys=True)) if entered else None)


# ------------------------------------------------------------------ driver
def load_corpus():
    d = os.path.join(lib.VERIF, 'harness', 'corpus', 'C03')
    out = []
    if os.path.isdir(d):
        for f in sorted(os.listdir(d)):
            if f.endswith('.json'):
                out.append(json.load(open(os.path.join(d, f)))['input'])
    return out


def dispatch(ck, inputs):
    bulk = [i for i in inputs if i['kind'] == 'bulk']
    if bulk:
        for i in range(0, len(bulk), 150):
            check_bulk(ck, bulk[i:i + 150])
    check_sessions(ck, [i for i in inputs if i['kind'] == 'sessions'])
    iso = [i for i in inputs if i['kind'] == 'env_isolation']
    if iso:
        check_env_isolation(ck, iso)
    check_real(ck, [i for i in inputs if i['kind'] == 'real'])


def run(ck):
    quick = ck.tier == 'quick'
    ck.rule = ('generated configurations (templates over the 10 placeholders with literal text from the shell-safe '
               'alphabet incl. % { } ~ = : and non-ASCII, values containing %, env maps with ~ and : lists, '
               'absolute/relative/~/absent paths and locations, HOME variants) compiled by the real Configurator; '
               'per run and completed count: cmdline(), cmdline_for_next_invocation(), location, env vs the model; '
               'resumed and -p sessions with a scripted Popen; real launches with a /bin/sh fake harness recording '
               'argv, cwd and the complete environment. non-trivial = a case whose template has a placeholder, a ~ '
               'word or a %% (distinct by run, text, completed count, HOME), a session that started a process or '
               'printed a plan, a real launch')
    ck.assumptions = ['restricted to the property\'s shell-safe alphabet (no quotes, backslash, whitespace other '
                      'than the space, shell metacharacters) for the configured text; gauge adapters RebenchLog, '
                      'TimeManual, a custom adapter file, Time (availability probes scripted) and perf profile '
                      'runs in the scripted sessions, RebenchLog in bulk and real launches; `/bin/sh` word splitting and `shlex` are taken as '
                      'given and cross-checked by the real launches']
    dispatch(ck, load_corpus())
    n_bulk = 1000 if quick else 15000
    n_sess = 60 if quick else 800
    n_real = 10 if quick else 150
    dispatch(ck, [gen_bulk_case(ck.rng) for _ in range(n_bulk)])
    dispatch(ck, [gen_session_scenario(ck.rng) for _ in range(n_sess)])
    dispatch(ck, [gen_real_scenario(ck.rng) for _ in range(n_real)])
    dispatch(ck, [gen_env_isolation_case(ck.rng) for _ in range(40 if quick else 600)])


def replay(ck, data):
    dispatch(ck, [data['input']])
