"""C20 — denoise is always undone and used only as granted.

Correspondence (model `RB.Denoise`, driver ops `c20.session`, `c20.wrap`, `c20.shield_table`):
the real `ReBench.run` with the `subprocess` of `rebench.denoise_client` scripted (no `sudo`,
no `denoise.py` is ever executed) and the scripted `Popen` of the process layer: all
termination paths x capability reports x profiling x `-D`; every `sudo` call, every process
start (wrapped command text, env) and end is logged in order and compared with the model.
`_shield_lower_bound` / `_shield_upper_bound` are evaluated for every n in 1..4096.

Oracle: the property as a predicate on the logged events (independent of the Lean model).
"""
import itertools
import json
import math
import os
import shlex
from fractions import Fraction

import lib
import drive
import drive_denoise as dd

TH_SESSION = ['RB.Denoise.c20_restore_once', 'RB.Denoise.c20_noD_silent',
              'RB.Denoise.c20_restore_after_processes_partial', 'RB.Denoise.c20_no_result_no_restore']
TH_PAR = ['RB.Denoise.c20_par_restore_once', 'RB.Denoise.c20_interleave_perm']
TH_DPY = ['RB.Denoise.c20_denoise_restore_undoes', 'RB.Denoise.c20_denoise_roundtrip_standard',
          'RB.Denoise.c20_denoise_restore_only_to_standard', 'RB.Denoise.c20_denoise_shield_reset_only_if_reported']
TH_EXEC = ['RB.Denoise.c20_flags_roundtrip', 'RB.Denoise.c20_exec_as_granted', 'RB.Denoise.c20_exec_both']
TH_WRAP = ['RB.Denoise.c20_wrap_spec', 'RB.Denoise.c20_wrap_none', 'RB.Denoise.c20_caps_as_reported']
TH_SHIELD = ['RB.Denoise.c20_shield_range', 'RB.Denoise.c20_shield_range_real', 'RB.Denoise.c20_shieldLo_is_floor_log',
             'RB.Denoise.c20_shield_within_cores']

PATHS = ['ok', 'failed', 'ui_error', 'interrupt', 'crash']
ENVS = [{}, {'A': '1'}, {'LANG': 'C', 'JAVA_HOME': '/opt/j', 'X_1': 'a b'}]


def all_reports():
    reps = []
    for nice, shield in itertools.product([None, 'yes', 'no'], repeat=2):
        for others in (['yes', 'yes', 'yes'], ['yes', 'failed', 'yes'], ['failed', 'failed', 'failed'], []):
            reps.append({'kind': 'json', 'nice': nice, 'shield': shield, 'others': others})
    for m in ('password', 'not_found', 'sudo_missing', 'other'):
        reps.append({'kind': 'nonjson', 'msg': m})
    for e in ('interrupt', 'crash'):
        reps.append({'kind': 'raised', 'ending': e})
    return reps


def make_config(sc):
    b1, b2 = {}, ({'extra_args': '%z'} if sc['path'] == 'ui_error' else {})
    # runs of one session with *different* env maps (also: none, and the inherited one)
    for name, d in (('B1', b1), ('B2', b2)):
        e = (sc.get('bench_env') or {}).get(name)
        if e is not None:
            d['env'] = dict(e)
    suite = {'gauge_adapter': 'RebenchLog', 'command': 'h %(benchmark)s %(invocation)s',
             'benchmarks': [{'B1': b1} if b1 else 'B1', {'B2': b2} if b2 else 'B2']}
    cfg = {'default_experiment': 'T', 'default_data_file': 't.data',
           'runs': {'invocations': 2, 'min_iteration_time': 0},
           'benchmark_suites': {'S': suite}, 'executors': {'E': {'path': '.', 'executable': 'exe'}},
           'experiments': {'T': {'suites': ['S'], 'executions': ['E']}}}
    if sc.get('sudo_cmd'):
        # a benchmark whose own command starts with `sudo` (never executed: scripted Popen)
        cfg['executors']['E'] = {'executable': 'sudo', 'args': 'exe'}
    if sc['env']:
        cfg['runs']['env'] = dict(sc['env'])
    if sc['path'] == 'timeout':
        cfg['runs']['max_invocation_time'] = 1
    if sc['profiling']:
        cfg['experiments']['T']['action'] = 'profile'
        cfg['executors']['E']['profiler'] = {'perf': {}}
    return cfg


def env_of_start(sc, text):
    """the configured env map of the run a started command belongs to"""
    for name in ('B1', 'B2'):
        if (' h %s ' % name) in text + ' ':
            e = (sc.get('bench_env') or {}).get(name)
            return dict(e) if e is not None else dict(sc['env'])
    return dict(sc['env'])


def gen_bench_env(rng):
    x = rng.random()
    if x < 0.25:
        return None
    pool = [None, {}, {'A': '1'}, {'B': '2', 'A': '1'}, {'LANG': 'C', 'JAVA_HOME': '/opt/j', 'X_1': 'a b'},
            {'ONLY_HERE': 'x'}, {'Z': '', 'A': '9'}]
    return {'B1': rng.choice(pool), 'B2': rng.choice(pool)}


def make_script(sc):
    state = {'k': 0}

    def script(rec):
        text = rec['args'] if isinstance(rec['args'], str) else ' '.join(rec['args'])
        if 'perf report' in text:
            return drive.Outcome(0, '')
        state['k'] += 1
        k = state['k']
        if sc['path'] == 'failed' and k == 1:
            return drive.Outcome(1, 'no\n')
        if sc['path'] == 'timeout' and k == 1:
            return drive.Outcome(hang=True)
        if sc['path'] == 'interrupt' and k == sc.get('at', 2):
            return drive.Outcome(interrupt=True)
        if sc['path'] == 'crash' and k == sc.get('at', 2):
            raise RuntimeError('internal error injected by the harness')
        return drive.Outcome(0, 'B: iterations=1 runtime: 5ms\n')
    return script


def ending_of(res):
    st = res.status()
    if st.startswith('crash:'):
        return 'crash'
    return {'ok': 'ok', 'failed': 'failed', 'aborted': 'interrupt', 'ui_error': 'ui_error'}.get(st, st)


def granted(report, key):
    return report['kind'] == 'json' and report.get(key) == 'yes'


def settings_changed(report):
    """the start-up step reported at least one setting as set"""
    if report['kind'] != 'json':
        return False
    vals = list(report['others']) + [v for v in (report['nice'], report['shield']) if v is not None]
    return any(v == 'yes' for v in vals)


def expected_prefix(sc, env, denoise_path):
    """the property: sudo [--preserve-env=<exactly the env keys>] denoise [--without-nice]
    [--without-shielding | --cset-path p] [--for-profiling] --num-cores n exec --"""
    nice, shield = granted(sc['report'], 'nice'), granted(sc['report'], 'shield')
    if sc['no_denoise'] or not (nice or shield):
        return []
    w = ['sudo']
    if env:
        w.append('--preserve-env=' + ','.join(env.keys()))
    w.append(denoise_path)
    if not nice:
        w.append('--without-nice')
    if not shield:
        w.append('--without-shielding')
    elif sc['cset']:
        w += ['--cset-path', sc['cset']]
    if sc['profiling']:
        w.append('--for-profiling')
    w += ['--num-cores', str(sc['num_cores']), 'exec', '--']
    return w


def trace_oracle(ck, inp, sc, trace, sudo, ending, num_cores):
    """the property on the ordered log; sudo: list of (verb, argv)"""
    n_restore = sum(1 for t in trace if t['t'] == 'restore')
    n_minimize = sum(1 for t in trace if t['t'] == 'minimize')
    if sc['no_denoise']:
        if sudo:
            ck.oracle_fail('noD_silent', inp, {'sudo_calls': [a for _v, a in sudo]})
        return
    if n_minimize != 1 or trace[0]['t'] != 'minimize':
        ck.oracle_fail('minimize_once_first', inp, {'trace': trace})
    if any(v == 'kill' for v, _a in sudo) and not (granted(sc['report'], 'nice') or granted(sc['report'], 'shield')):
        # nothing was granted: the commands are not wrapped, a kill must not go through sudo/denoise
        ck.oracle_fail('denoise_only_as_granted', inp, {'sudo_calls': [a for v, a in sudo if v == 'kill']},
                       {'what': 'kill'})
    for v, a in sudo:
        if v == 'other':
            ck.oracle_fail('denoise_only_as_granted', inp, {'sudo_call': a}, {'what': 'unknown call'})
    if settings_changed(sc['report']) and n_restore != 1:
        ck.oracle_fail('restore_once', inp, {'restores': n_restore, 'trace': trace, 'ending': ending},
                       {'path': sc['path'], 'restores': 'none' if n_restore == 0 else 'many'})
    if n_restore > 1:
        ck.oracle_fail('restore_once', inp, {'restores': n_restore, 'trace': trace},
                       {'path': sc['path'], 'restores': 'many'})
    if n_restore:
        ri = max(i for i, t in enumerate(trace) if t['t'] == 'restore')
        late_starts = [t for t in trace[ri:] if t['t'] == 'start']
        if late_starts:
            ck.oracle_fail('restore_after_last_start', inp, {'trace': trace},
                           dict({'path': sc['path']}, **({'scheduler': 'parallel'} if sc['kind'] == 'parallel' else {})))
        open_at_restore = set(t['i'] for t in trace[:ri] if t['t'] == 'start') - \
            set(t['i'] for t in trace[:ri] if t['t'] == 'stop')
        if open_at_restore:
            ck.oracle_fail('restore_after_processes_ended', inp,
                           {'running_at_restore': sorted(open_at_restore), 'trace': trace},
                           dict({'path': 'interrupt' if sc['path'] in ('interrupt', 'terminate') else sc['path'],
                                 'cause': 'child-not-killed' if not any(t['t'] == 'kill' for t in trace[:ri])
                                 else 'other'}, **({'scheduler': 'parallel'} if sc['kind'] == 'parallel' else {})))
        r = [t for t in trace if t['t'] == 'restore'][0]
        if r['without_nice'] != (not granted(sc['report'], 'nice')) or \
                r['without_shielding'] != (not granted(sc['report'], 'shield')):
            ck.oracle_fail('restore_flags', inp, {'restore': [a for v, a in sudo if v == 'restore']})
    for v, a in sudo:
        if v in ('minimize', 'restore'):
            if '--num-cores' not in a or a[a.index('--num-cores') + 1] != str(num_cores):
                ck.oracle_fail('sudo_args', inp, {'cmd': a}, {'what': 'num-cores'})
            if v == 'minimize' and (('--for-profiling' in a) != sc['profiling']):
                ck.oracle_fail('sudo_args', inp, {'cmd': a}, {'what': 'for-profiling'})


_counter = [0]


def check_sessions(ck, scenarios):
    from rebench.denoise import paths as denoise_paths
    wrap_ops, wrap_recs = [], []
    sess_ops, sess_recs = [], []
    for idx, sc in enumerate(scenarios):
        _counter[0] += 1
        wd = os.path.join(ck.scratch, 'd%d' % _counter[0])
        os.makedirs(wd)
        conf = drive.write_config(wd, make_config(sc))
        res, events = dd.run_denoise_session(wd, [conf] + (['-p'] if sc['path'] == 'plan' else []),
                                             make_script(sc), sc['report'], cset=sc['cset'],
                                             num_cores=sc['num_cores'], no_denoise=sc['no_denoise'],
                                             restore_behaviour=sc.get('restore', 'ok'))
        ck.impl_traces += 1
        ending = ending_of(res)
        inp = dict(sc)
        denoise_path = denoise_paths.get_denoise()
        ck.count('path:%s->%s' % (sc['path'], ending))
        ck.count('report:%s' % (sc['report']['kind'] if sc['report']['kind'] != 'json' else
                                'json nice=%s shield=%s' % (sc['report']['nice'], sc['report']['shield'])))
        if sc['no_denoise']:
            ck.count('-D')
        if sc.get('sudo_cmd'):
            ck.count('command-starts-with-sudo:%s%s' % (sc['path'], ':-D' if sc['no_denoise'] else ''))
        # ------------------------------------------------ canonical trace
        trace = []
        for e in events:
            if e[0] == 'sudo':
                if e[1] == 'minimize':
                    trace.append({'t': 'minimize', 'profiling': '--for-profiling' in e[2]})
                elif e[1] == 'restore':
                    trace.append({'t': 'restore', 'without_shielding': '--without-shielding' in e[2],
                                  'without_nice': '--without-nice' in e[2]})
                elif e[1] == 'kill':
                    trace.append({'t': 'kill', 'i': 0})
                else:
                    trace.append({'t': 'sudo-other', 'args': e[2]})
            elif e[0] == 'start':
                trace.append({'t': 'start', 'i': e[1]})
            elif e[0] == 'stop':
                trace.append({'t': 'stop', 'i': e[1], 'how': e[2]})
        sudo = [e for e in events if e[0] == 'sudo']
        starts = [e for e in events if e[0] == 'start']
        n_restore = sum(1 for t in trace if t['t'] == 'restore')
        n_minimize = sum(1 for t in trace if t['t'] == 'minimize')
        # ------------------------------------------------ oracle
        trace_oracle(ck, inp, sc, trace, [(e[1], e[2]) for e in sudo], ending, sc['num_cores'])
        # wrapping of every benchmark command
        seen_keysets = set()
        for e in starts:
            text = e[2]
            if 'perf report' in text:
                ck.count('start:perf-report-step')
                continue
            # "forwarding exactly the run's configured environment variables": per start
            env = env_of_start(sc, text)
            seen_keysets.add(tuple(env.keys()))
            prefix = expected_prefix(sc, env, denoise_path)
            words = shlex.split(text)
            inner_at = (words.index('--') + 1) if ('--' in words and words[0] == 'sudo') else 0
            if words[:inner_at] != prefix:
                ck.oracle_fail('wrap_as_granted', inp, {'expected_prefix': prefix, 'observed': text},
                               {'nice': granted(sc['report'], 'nice'), 'shield': granted(sc['report'], 'shield')})
            if (e[3] or {}) != env:
                ck.oracle_fail('env_forwarded', inp, {'expected': env, 'observed': e[3]})
            pe = [w_ for w_ in words[:inner_at] if w_.startswith('--preserve-env=')]
            want_pe = ['--preserve-env=' + ','.join(env.keys())] if (env and prefix) else []
            if pe != want_pe:
                ck.oracle_fail('env_forwarded', inp, {'expected': want_pe, 'observed': pe, 'command': text},
                               {'what': 'preserve-env list'})
            inner = text.split(' exec -- ', 1)[1] if (text.startswith('sudo ') and ' exec -- ' in text) else text
            wrap_ops.append({'op': 'c20.wrap', 'use_nice': None, 'use_shielding': None,
                             'env_keys': list(env.keys()), 'profiling': sc['profiling'],
                             'cset': sc['cset'], 'denoise': denoise_path, 'num_cores': str(sc['num_cores']),
                             'cmd': inner})
            wrap_recs.append((inp, text, len(sess_ops)))
        if len(seen_keysets) > 1:
            ck.count('session:runs-with-different-env-keys')
        # ------------------------------------------------ model
        if n_restore:
            ri = max(i for i, t in enumerate(trace) if t['t'] == 'restore')
            head, late = trace[:ri + 1], trace[ri + 1:]
        else:
            head, late = trace, []
        body = [{'t': t['t'], 'i': t['i']} for t in head if t['t'] in ('start', 'stop', 'kill')]
        sess_ops.append({'op': 'c20.session', 'no_denoise': sc['no_denoise'], 'profiling': sc['profiling'],
                         'report': sc['report'], 'body': {'trace': body, 'ending': ending}})
        sess_recs.append((inp, [dict((k, v) for k, v in t.items() if k != 'how') for t in head], ending, late))
        ck.case(nontrivial_key=('s', json.dumps(sc, sort_keys=True)) if not sc['no_denoise'] else None,
                sample={'path': sc['path'], 'report': sc['report'], 'trace': [t['t'] for t in trace]}
                if idx % 97 == 0 else None)
    answers = ck.model(sess_ops)
    for (inp, head, ending, late), ans in zip(sess_recs, answers):
        if 'err' in ans:
            raise lib.InfraError('model rejected c20.session: %s' % json.dumps(inp)[:300])
        if ans['trace'] != head or ans['ending'] != ending:
            ck.disagree('c20.session: sudo calls / process events of ReBench.run vs RB.Denoise.session', inp,
                        {'trace': head, 'ending': ending}, {'trace': ans['trace'], 'ending': ans['ending']}, TH_SESSION)
        if ans['changed'] != settings_changed_model_view(inp['report'], inp['no_denoise']):
            pass
    # wrapping: the model's capabilities come from its own `minimize`
    for op, (inp, text, si) in zip(wrap_ops, wrap_recs):
        r = answers[si]['result']
        op['use_nice'] = bool(r and r['use_nice'])
        op['use_shielding'] = bool(r and r['use_shielding'])
    wanswers = ck.model(wrap_ops)
    for op, (inp, text, si), ans in zip(wrap_ops, wrap_recs, wanswers):
        if 'err' in ans:
            raise lib.InfraError('model rejected c20.wrap')
        if ans['text'] != text:
            ck.disagree('c20.wrap: wrapped command line vs RB.Denoise.wrap', inp, text, ans['text'], TH_WRAP)
        ck.case(nontrivial_key=('w', text) if text.startswith('sudo') else None)


def settings_changed_model_view(report, no_denoise):
    return None


def check_shield(ck, upto):
    from rebench import denoise as dn
    table = ck.model([{'op': 'c20.shield_table', 'upto': upto}])[0]
    # e^k as exact rational enclosures: sum of the series with a remainder bound
    def exp_bounds(k):
        terms = 60 + 4 * k
        s = Fraction(0)
        t = Fraction(1)
        for i in range(terms):
            s += t
            t = t * k / (i + 1)
        return s, s + 2 * t      # remainder < 2 * next term once i > 2k
    bounds = [exp_bounds(k) for k in range(0, 12)]
    for n in range(1, upto + 1):
        lo, hi = dn._shield_lower_bound(n), dn._shield_upper_bound(n)
        m_lo, m_hi = table[n - 1]
        inp = {'kind': 'shield', 'n': n}
        if (lo, hi) != (m_lo, m_hi):
            ck.disagree('c20.shield: _shield_lower_bound/_shield_upper_bound vs RB.Denoise.shieldLo/Hi', inp,
                        [lo, hi], [m_lo, m_hi], TH_SHIELD)
        # oracle: within 0..cores-1, lower bound is the floor of the natural logarithm
        if not (0 <= lo <= hi <= n - 1):
            ck.oracle_fail('shield_range', inp, {'lo': lo, 'hi': hi}, {'what': 'range'})
        k = max(k for k in range(0, 12) if bounds[k][1] <= n or (k == 0))
        exact = max(k for k in range(0, 12) if bounds[k][0] <= n)
        if bounds[exact][1] > n and exact > 0:
            raise lib.InfraError('exp enclosure too coarse at n=%d' % n)
        if lo != exact:
            ck.oracle_fail('shield_range', inp, {'lo': lo, 'floor_ln_n': exact}, {'what': 'floor-log'})
        if hi != n - 1:
            ck.oracle_fail('shield_range', inp, {'hi': hi}, {'what': 'upper'})
        ck.case(nontrivial_key=('n', n) if n > 1 else None,
                sample={'n': n, 'lo': lo, 'hi': hi} if n in (1, 3, 4096) else None)
    ck.count('shield:n=1..%d' % upto)



# ------------------------------------------------- thorough: real CLI + fake sudo
def gen_cli_scenarios(ck, n):
    rng = ck.rng
    reps = [r for r in all_reports() if r['kind'] == 'json' and r['others']] + \
        [{'kind': 'nonjson', 'msg': 'password'}, {'kind': 'nonjson', 'msg': 'other'}]
    out = []
    paths = ['ok', 'failed', 'ui_error', 'interrupt', 'terminate', 'crash']
    for i in range(n):
        rep = rng.choice(reps) if i >= 6 else {'kind': 'json', 'nice': 'yes', 'shield': rng.choice(['yes', 'no']),
                                                'others': ['yes', 'yes', 'yes']}
        out.append({'kind': 'cli', 'report': rep, 'path': paths[i % len(paths)], 'profiling': False,
                    'no_denoise': rng.random() < 0.1, 'env': rng.choice(ENVS), 'cset': None, 'at': rng.choice([1, 2, 3])})
    return out


def check_cli(ck, scenarios):
    import drive_denoise_cli as cli
    from rebench.denoise import paths as denoise_paths
    denoise_path = denoise_paths.get_denoise()
    ops, recs = [], []
    for sc in scenarios:
        _counter[0] += 1
        wd = os.path.realpath(os.path.join(ck.scratch, 'cli%d' % _counter[0]))
        os.makedirs(wd)
        rep = sc['report']
        if rep['kind'] == 'json':
            out, rc = dd.report_output(rep), (1 if 'failed' in list(rep['others']) + [rep['nice'], rep['shield']] else 0)
        elif rep['msg'] == 'password':
            out, rc = b'sudo: a password is required\n', 1
        else:
            out, rc = b'this is not JSON\n', 0
        r = cli.run_cli_session(wd, sc, out, rc, lib.REPO)
        ck.impl_traces += 1
        inp = dict(sc)
        ending = {0: 'ok', 2: 'interrupt', 3: 'ui_error'}.get(
            r['exit'], 'crash' if ('Traceback' in r['stderr'] or r['exit'] != 1) else 'failed')
        ck.count('cli:%s->%s' % (sc['path'], ending))
        idx_of = {}
        stopped = set()
        trace, sudo, execs = [], [], []
        alive_at_restore = set()
        for e in r['events']:
            if e[0] == 'sudo':
                a = ['sudo'] + e[1:]
                if 'minimize' in a:
                    trace.append({'t': 'minimize', 'profiling': '--for-profiling' in a})
                    sudo.append(('minimize', a))
                elif 'restore' in a:
                    trace.append({'t': 'restore', 'without_shielding': '--without-shielding' in a,
                                  'without_nice': '--without-nice' in a})
                    sudo.append(('restore', a))
                elif 'exec' in a and '--' in a:
                    execs.append(a)
                    sudo.append(('exec', a))
                elif 'kill' in a:
                    if not trace or trace[-1]['t'] != 'kill':
                        trace.append({'t': 'kill', 'i': 0})
                    sudo.append(('kill', a))
                else:
                    sudo.append(('other', a))
            elif e[0] == 'start':
                idx_of[e[1]] = int(e[2])
                trace.append({'t': 'start', 'i': int(e[2])})
            elif e[0] in ('stop', 'killed'):
                if e[1] in idx_of and e[1] not in stopped:
                    stopped.add(e[1])
                    trace.append({'t': 'stop', 'i': idx_of[e[1]]})
            elif e[0] == 'alive-at-restore':
                alive_at_restore.add(e[1])
        # a process that was killed directly (commands not wrapped) cannot log its end; the fake
        # sudo noted at `restore` which processes were still running: the others had ended before
        if any(t['t'] == 'restore' for t in trace):
            ri = min(i for i, t in enumerate(trace) if t['t'] == 'restore')
            for pid, n_ in idx_of.items():
                if pid not in stopped and pid not in alive_at_restore and \
                        any(t['t'] == 'start' and t['i'] == n_ for t in trace[:ri]):
                    trace.insert(ri, {'t': 'stop', 'i': n_})
                    stopped.add(pid)
                    ri += 1
        num_cores = None
        for v, a in sudo:
            if v == 'minimize' and '--num-cores' in a:
                num_cores = a[a.index('--num-cores') + 1]
        if sc['no_denoise']:
            if [x for x in sudo]:
                ck.oracle_fail('noD_silent', inp, {'sudo_calls': [a for _v, a in sudo]})
        else:
            trace_oracle(ck, inp, sc, trace, [(v, a) for v, a in sudo if v != 'exec'], ending, num_cores)
        if r['left_running']:
            ck.oracle_fail('restore_after_processes_ended', inp,
                           {'alive_after_rebench_exited': r['left_running'], 'trace': trace},
                           {'path': 'interrupt' if sc['path'] in ('interrupt', 'terminate') else sc['path'],
                            'cause': 'child-not-killed' if not r['killed'] else 'other'})
        # wrapping as seen by the fake sudo, env as seen by the benchmark process
        sc2 = dict(sc, num_cores=num_cores)

        def env_for(words):
            return r['run_env_b2'] if 'B2' in words else r['run_env']
        wrapped = bool(expected_prefix(sc2, r['run_env'], denoise_path))
        n_starts = sum(1 for t in trace if t['t'] == 'start')
        if wrapped and len(execs) != n_starts:
            ck.oracle_fail('wrap_as_granted', inp, {'wrapped_starts': len(execs), 'starts': n_starts},
                           {'what': 'count'})
        if not wrapped and execs:
            ck.oracle_fail('wrap_as_granted', inp, {'unexpected_sudo_exec': execs[:2]}, {'what': 'not-granted'})
        for a in execs:
            k = a.index('--')
            prefix = expected_prefix(sc2, env_for(a[k + 1:]), denoise_path)
            if a[:k + 1] != prefix:
                ck.oracle_fail('wrap_as_granted', inp, {'expected_prefix': prefix, 'observed': a},
                               {'nice': granted(rep, 'nice'), 'shield': granted(rep, 'shield')})
        start_args = dict((int(e[2]), e[3:]) for e in r['events'] if e[0] == 'start')
        for n, env in r['envs'].items():
            got = dict((k, v) for k, v in env.items() if k not in ('PWD', 'OLDPWD', 'SHLVL', '_'))
            want = env_for(start_args.get(n, []))
            if got != want:
                ck.oracle_fail('env_forwarded', inp, {'expected': want, 'observed': got, 'args': start_args.get(n)})
        # model
        if any(t['t'] == 'restore' for t in trace):
            ri = max(i for i, t in enumerate(trace) if t['t'] == 'restore')
            head = trace[:ri + 1]
        else:
            head = trace
        body = [{'t': t['t'], 'i': t['i']} for t in head if t['t'] in ('start', 'stop', 'kill')]
        ops.append({'op': 'c20.session', 'no_denoise': sc['no_denoise'], 'profiling': False,
                    'report': rep, 'body': {'trace': body, 'ending': ending}})
        recs.append((inp, head, ending))
        ck.case(nontrivial_key=('cli', _counter[0]), sample={'cli': sc['path'], 'trace': [t['t'] for t in trace]}
                if _counter[0] % 20 == 1 else None)
    for (inp, head, ending), ans in zip(recs, ck.model(ops)):
        if ans.get('trace') != head or ans.get('ending') != ending:
            ck.disagree('c20.session: fake-sudo log of the real CLI vs RB.Denoise.session', inp,
                        {'trace': head, 'ending': ending}, ans, TH_SESSION)


# ------------------------------------------------- the exec side: `denoise.py … exec -- cmd`
def gen_exec_cases(ck):
    rng = ck.rng
    out = []
    for nice, shield in ((True, True), (True, False), (False, True)):
        for cset_mode in ('path', 'lookup', 'none'):
            for prof in (False, True):
                out.append({'kind': 'exec', 'nice': nice, 'shield': shield, 'cset_mode': cset_mode, 'profiling': prof,
                            'num_cores': rng.choice([1, 2, 4, 8, 64]),
                            'cmd': rng.choice([['/x/exe', 'h', 'B1', '1'], ['perf', 'record', '-g', '/x/exe', 'h'],
                                               ['/x/exe', '--', '-n', 'nice'], ['sudo', 'exe', 'h']])})
    return out


def check_exec(ck, cases):
    """the wrapper's flags -> the real argument parser and `_exec` of denoise.py (sandboxed, `os.execvpe`
    recorded, nothing executed) -> the argv the benchmark is finally started with"""
    import drive_denoise_py as dpy
    from rebench.denoise import paths as denoise_paths
    denoise_path = denoise_paths.get_denoise()
    ops, recs = [], []
    for sc in cases:
        cset = '/usr/bin/cset' if sc['cset_mode'] == 'path' else None
        lookup = '/usr/bin/cset' if sc['cset_mode'] == 'lookup' else None
        rep = {'kind': 'json', 'nice': 'yes' if sc['nice'] else 'no', 'shield': 'yes' if sc['shield'] else 'no',
               'others': []}
        sc2 = {'report': rep, 'no_denoise': False, 'cset': cset, 'profiling': sc['profiling'],
               'num_cores': sc['num_cores']}
        prefix = expected_prefix(sc2, {}, denoise_path)       # the property's wrapper, without `sudo`
        argv = prefix[1:] + sc['cmd']
        r = dpy.call_exec(argv, lookup_cset=lookup)
        ck.impl_traces += 1
        inp = dict(sc)
        ck.count('exec:nice=%s shield=%s cset=%s' % (sc['nice'], sc['shield'], sc['cset_mode']))
        if 'crash' in r or 'exec' not in r:
            ck.oracle_fail('exec_as_granted', inp, r, {'what': 'no exec'})
            continue
        got = r['exec']['argv']
        shielded = sc['shield'] and sc['cset_mode'] != 'none'
        want = (['/usr/bin/cset', 'shield', '--exec', '--'] if shielded else []) + \
            (['nice', '-n-20'] if sc['nice'] else []) + sc['cmd']
        if got != want or r['exec']['cmd'] != want[0]:
            ck.oracle_fail('exec_as_granted', inp, {'expected_argv': want, 'observed_argv': got, 'wrapper': argv},
                           {'nice': sc['nice'], 'shield': sc['shield']})
        n = sc['num_cores']
        want_cs = '%d-%d' % (int(math.floor(math.log(n))), n - 1) if shielded else None
        if r['exec']['core_set'] != want_cs:
            ck.oracle_fail('exec_as_granted', inp, {'expected_core_set': want_cs, 'observed': r['exec']['core_set']},
                           {'what': 'core set'})
        if not r['exec']['env_kept']:
            ck.oracle_fail('env_forwarded', inp, {'exec': r['exec']}, {'what': 'denoise exec dropped the environment'})
        ops.append({'op': 'c20.exec', 'use_nice': sc['nice'], 'use_shielding': sc['shield'], 'profiling': sc['profiling'],
                    'cset': cset, 'lookup': lookup, 'denoise': denoise_path, 'num_cores': str(n), 'n': n,
                    'cmd': sc['cmd']})
        recs.append((inp, prefix, r))
        ck.case(nontrivial_key=('exec', json.dumps(sc, sort_keys=True)))
    for (inp, prefix, r), ans in zip(recs, ck.model(ops)):
        m_cs = None if ans['core_set'] is None else '%d-%d' % tuple(ans['core_set'])
        flags = prefix[2:prefix.index('--num-cores')]
        if ans['argv'] != r['exec']['argv'] or m_cs != r['exec']['core_set'] or ans['flag_words'] != flags:
            ck.disagree('c20.exec: denoise.py exec (argument parser + _exec) vs RB.Denoise.execArgv', inp,
                        {'argv': r['exec']['argv'], 'core_set': r['exec']['core_set'], 'flags': flags},
                        {'argv': ans['argv'], 'core_set': m_cs, 'flags': ans['flag_words']}, TH_EXEC)


# ------------------------------------------------------ denoise.py itself
STANDARD = {'no_turbo': '0', 'perf_max_percent': '25', 'perf_sample_rate': '50000', 'perf_paranoid': '3',
            'shield': 'off'}      # docs/denoise.md: "the presumed standard state"; governors: powersave


def std_value(setting):
    return 'powersave' if setting.startswith('governor:') else STANDARD[setting]


def simulate(acts, host, state):
    """the effect of a list of observed actions on a dictionary system"""
    st = dict(state)
    for a in acts:
        if a['t'] == 'write':
            st[a['s']] = a['v']
        elif a['t'] == 'shield_on' and host['shield_activates']:
            st['shield'] = 'on'
        elif a['t'] == 'shield_reset' and host['shield_resets']:
            st['shield'] = 'off'
    return st


def gen_denoise_py_cases(ck, n_cases, exhaustive=False):
    rng = ck.rng
    out = []
    if exhaustive:
        for bits in itertools.product([True, False], repeat=11):
            (nt, mp, sr, pa, cs, act, rst, cn, nice, shield, prof) = bits
            n = rng.choice([1, 2, 4, 8])
            gov = [rng.random() < 0.85 for _ in range(n)]
            out.append({'kind': 'denoise_py', 'n': n, 'nice': nice, 'shield': shield, 'profiling': prof,
                        'host': {'governor_writable': gov, 'no_turbo_writable': nt, 'max_percent_writable': mp,
                                 'sample_rate_writable': sr, 'paranoid_writable': pa, 'has_cset': cs,
                                 'shield_activates': act, 'shield_resets': rst, 'can_nice': cn},
                        'initial': rng.choice(['standard', 'other'])})
        return out
    for _ in range(n_cases):
        n = rng.choice([1, 2, 3, 4, 8, 16, 64])
        allw = rng.random() < 0.4
        gov = [True] * n if allw else [rng.random() < 0.9 for _ in range(n)]

        def w():
            return True if allw else rng.random() < 0.75
        out.append({'kind': 'denoise_py', 'n': n, 'nice': rng.random() < 0.5, 'shield': rng.random() < 0.6,
                    'profiling': rng.random() < 0.5,
                    'host': {'governor_writable': gov, 'no_turbo_writable': w(), 'max_percent_writable': w(),
                             'sample_rate_writable': w(), 'paranoid_writable': w(), 'has_cset': rng.random() < 0.7,
                             'shield_activates': rng.random() < 0.7, 'shield_resets': rng.random() < 0.85,
                             'can_nice': rng.random() < 0.7},
                    'initial': rng.choice(['standard', 'other'])})
    return out


def check_denoise_py(ck, cases):
    import drive_denoise_py as dpy
    ops, recs = [], []
    for sc in cases:
        host, n = sc['host'], sc['n']
        inp = dict(sc)
        m = dpy.call('minimize', host, n, sc['nice'], sc['shield'], sc['profiling'])
        if 'crash' in m:
            ck.oracle_fail('denoise_py_no_crash', inp, m, {'step': 'minimize'})
            continue
        reported_shield = bool(m['result'].get('shielding'))
        r = dpy.call('restore', host, n, shield=reported_shield)
        if 'crash' in r:
            ck.oracle_fail('denoise_py_no_crash', inp, r, {'step': 'restore'})
            continue
        ck.impl_traces += 2
        ck.count('denoise.py:n=%d' % n if n <= 4 else 'denoise.py:n>4')
        ck.count('denoise.py:profiling' if sc['profiling'] else 'denoise.py:benchmarking')
        strange = [a for a in m['acts'] + r['acts'] if a['t'].startswith('unexpected')]
        if strange:
            ck.oracle_fail('denoise_py_only_documented_settings', inp, {'acts': strange})
        # ---- oracle: restore brings back the standard value of everything minimize changed
        settings = ['governor:%d' % i for i in range(n + 2)] + list(STANDARD)
        if sc['initial'] == 'standard':
            s0 = dict((k, std_value(k)) for k in settings)
        else:
            s0 = dict((k, 'x-' + k) for k in settings)
        s1 = simulate(m['acts'], host, s0)
        s2 = simulate(r['acts'], host, s1)
        if host['shield_resets']:
            bad = [k for k in settings if s1[k] != s0[k] and s2[k] != std_value(k)]
            if bad:
                ck.oracle_fail('restore_undoes_minimize', inp, {'not_restored': bad, 'minimize': m['acts'],
                                                                'restore': r['acts']}, {'setting': bad[0].split(':')[0]})
            if sc['initial'] == 'standard' and s2 != s0:
                ck.oracle_fail('restore_undoes_minimize', inp, {'after': s2, 'minimize': m['acts'],
                                                                'restore': r['acts']}, {'setting': 'roundtrip'})
        nonstd = [a for a in r['acts'] if a['t'] == 'write' and a['v'] != std_value(a['s'])]
        if nonstd:
            ck.oracle_fail('restore_only_to_standard', inp, {'writes': nonstd})
        if not reported_shield and any(a['t'] == 'shield_reset' for a in r['acts']):
            ck.oracle_fail('restore_only_to_standard', inp, {'restore': r['acts']}, {'what': 'shield reset unreported'})
        # ---- model
        ops.append({'op': 'c20.denoise_minimize', 'host': host, 'n': n, 'nice': sc['nice'], 'shield': sc['shield'],
                    'profiling': sc['profiling']})
        ops.append({'op': 'c20.denoise_restore', 'host': host, 'n': n, 'shield': reported_shield})
        recs.append((inp, m, r))
        ck.case(nontrivial_key=('dpy', json.dumps(sc, sort_keys=True)),
                sample={'denoise.py': [a['t'] for a in m['acts']][:6]} if len(recs) % 150 == 1 else None)
    answers = ck.model(ops)
    for i, (inp, m, r) in enumerate(recs):
        am, ar = answers[2 * i], answers[2 * i + 1]
        om = {'acts': m['acts'],
              'result': {'governor_ok': m['result']['scaling_governor'] != 'failed',
                         'no_turbo_ok': m['result']['no_turbo'] != 'failed',
                         'perf_ok': m['result']['perf_event_max_sample_rate'] != 'failed',
                         'can_nice': bool(m['result']['can_set_nice']), 'shielding': bool(m['result']['shielding'])}}
        orr = {'acts': r['acts'],
               'result': {'governor_ok': r['result']['scaling_governor'] != 'failed',
                          'no_turbo_ok': r['result']['no_turbo'] != 'failed',
                          'perf_ok': r['result']['perf_event_max_sample_rate'] != 'failed',
                          'shielding': bool(r['result']['shielding'])}}
        if am != om:
            ck.disagree('c20.denoise_minimize: _minimize_noise vs RB.Denoise.minimizeActs', inp, om, am, TH_DPY)
        if ar != orr:
            ck.disagree('c20.denoise_restore: _restore_standard_settings vs RB.Denoise.restoreActs', inp, orr, ar, TH_DPY)


# ------------------------------------- signals that arrive between two benchmark processes
def gen_signal_scenarios(ck, quick):
    rng = ck.rng
    reps = [r for r in all_reports() if r['kind'] == 'json' and settings_changed(r)]
    out = []
    for sched, cpu in (('batch', 1), ('round-robin', 1), ('random', 1), ('batch', 8), ('round-robin', 5)):
        for sig in ('SIGTERM', 'SIGINT'):
            for at in ((1, 2, 3, 4) if sig == 'SIGTERM' else (1, rng.choice([2, 3, 4]))):
                if cpu > 1 and quick and at == 3:
                    continue
                out.append({'kind': 'signal', 'report': rng.choice(reps), 'scheduler': sched, 'cpu_count': cpu,
                            'signal': sig, 'at': at, 'profiling': False, 'no_denoise': False, 'env': rng.choice(ENVS),
                            'cset': None, 'num_cores': 4,
                            'path': '%s-%s%s' % (sig.lower(), 'before-first-process' if at == 1 else 'between-invocations',
                                                 '-parallel' if cpu > 1 else '')})
    return out


def check_signals(ck, scenarios):
    """SIGTERM / SIGINT delivered while ReBench is *not* waiting for a benchmark process (before the
    first one, between two: while a result is parsed and recorded), on every scheduler, in a forked
    child with the signal dispositions of a fresh process"""
    import signal
    ops, recs = [], []
    for sc in scenarios:
        _counter[0] += 1
        wd = os.path.join(ck.scratch, 'sig%d' % _counter[0])
        os.makedirs(wd)
        with open(os.path.join(wd, 'sig_adapter.py'), 'w') as f:
            f.write(dd.SIG_ADAPTER)
        cfg = {'default_experiment': 'T', 'default_data_file': 't.data',
               'runs': {'invocations': 2, 'min_iteration_time': 0, 'execute_exclusively': sc['cpu_count'] == 1},
               'benchmark_suites': {'S': {'gauge_adapter': {'SigAdapter': './sig_adapter.py'},
                                          'command': 'h %(benchmark)s %(invocation)s', 'benchmarks': ['B1', 'B2', 'B3']}},
               'executors': {'E': {'path': '.', 'executable': 'exe'}},
               'experiments': {'T': {'suites': ['S'], 'executions': ['E']}}}
        if sc['env']:
            cfg['runs']['env'] = dict(sc['env'])
        conf = drive.write_config(wd, cfg)

        def script(rec):
            o = drive.Outcome(0, 'B: iterations=1 runtime: 5ms\n')
            o.delay = 0.03
            return o
        r = dd.run_forked_session(wd, [conf, '-s', sc['scheduler']], script, sc['report'], sig_at=sc['at'],
                                  sig=getattr(signal, sc['signal']), cpu_count=sc['cpu_count'],
                                  num_cores=sc['num_cores'])
        ck.impl_traces += 1
        inp = dict(sc)
        if r['exit'] == 5 or (r['done'] is None and r['signal'] is None):
            raise lib.InfraError('forked session failed: %r' % (r,))
        ending = 'killed-by-signal-%s' % r['signal'] if r['signal'] is not None else \
            {'ok': 'ok', 'failed': 'failed', 'aborted': 'interrupt', 'ui_error': 'ui_error'}.get(r['done'][1], 'crash')
        ck.count('signal:%s:%s->%s' % (sc['scheduler'] + ('/parallel' if sc['cpu_count'] > 1 else ''), sc['path'],
                                       ending))
        delivered = any(e[0] == 'signal' for e in r['events'])
        trace = []
        for e in r['events']:
            if e[0] == 'sudo':
                if e[1] == 'minimize':
                    trace.append({'t': 'minimize', 'profiling': '--for-profiling' in e[2]})
                elif e[1] == 'restore':
                    trace.append({'t': 'restore', 'without_shielding': '--without-shielding' in e[2],
                                  'without_nice': '--without-nice' in e[2]})
                elif e[1] == 'kill':
                    trace.append({'t': 'kill', 'i': e[4] if len(e) > 4 and e[4] is not None else 0})
            elif e[0] == 'start':
                trace.append({'t': 'start', 'i': e[1]})
            elif e[0] == 'stop':
                trace.append({'t': 'stop', 'i': e[1], 'how': e[2]})
        sudo = [(e[1], e[2]) for e in r['events'] if e[0] == 'sudo']
        trace_oracle(ck, inp, dict(sc, kind='parallel' if sc['cpu_count'] > 1 else 'session'), trace, sudo, ending,
                     sc['num_cores'])
        if delivered and ending not in ('interrupt',) and not ending.startswith('killed'):
            ck.count('signal:delivered-after-all-work')
        if sc['cpu_count'] == 1:
            head = [dict((k, v) for k, v in t.items() if k != 'how') for t in trace]
            body = [{'t': t['t'], 'i': t['i']} for t in head if t['t'] in ('start', 'stop', 'kill')]
            ops.append({'op': 'c20.session', 'no_denoise': False, 'profiling': False, 'report': sc['report'],
                        'body': {'trace': body, 'ending': 'interrupt' if delivered else ending}})
            recs.append((inp, head, ending))
        ck.case(nontrivial_key=('sig', json.dumps(sc, sort_keys=True)),
                sample={'signal': sc['path'], 'ending': ending} if _counter[0] % 17 == 0 else None)
    for (inp, head, ending), ans in zip(recs, ck.model(ops)):
        if ans.get('trace') != head or (ans.get('ending') != ending and not ending.startswith('killed')) \
                or ending.startswith('killed'):
            ck.disagree('c20.session: signal between two benchmark processes vs RB.Denoise.session', inp,
                        {'trace': head, 'ending': ending}, ans, TH_SESSION)


# --------------------------- the process around the session: a stdout that breaks, PATH of ReBench
def gen_process_env_scenarios(ck, quick):
    rng = ck.rng
    warn = [r for r in all_reports() if r['kind'] == 'json' and settings_changed(r)
            and not (r['nice'] == 'yes' and r['shield'] == 'yes' and 'failed' not in r['others'])]
    full = [{'kind': 'json', 'nice': 'yes', 'shield': 'yes', 'others': ['yes', 'yes', 'yes']}]
    out = []
    # stdout is a pipe whose reader leaves after k writes (`rebench conf | head`): every print from
    # then on raises BrokenPipeError — wherever that happens, restore exactly once
    for k in ([0, 1, 2, 3, 4, 6, 9, 14, 22, 40] if quick else list(range(0, 60))):
        for rep in (rng.choice(warn), rng.choice(warn + full)):
            out.append({'kind': 'process_env', 'report': rep, 'path': 'stdout-breaks', 'stdout_ok_writes': k,
                        'rebench_path': 'default', 'profiling': False, 'no_denoise': False,
                        'env': rng.choice(ENVS), 'cset': None, 'num_cores': 4})
    # Ctrl-C / SIGTERM arriving *while* the k-th piece of output is written (also the start-up warning)
    for k in ([0, 1, 2, 3, 5, 8] if quick else list(range(0, 40))):
        for mode in ('keyboard-interrupt', 'sigint'):
            out.append({'kind': 'process_env', 'report': rng.choice(warn), 'path': 'interrupt-during-output',
                        'stdout_ok_writes': k, 'stdout_mode': mode, 'rebench_path': 'default', 'profiling': False,
                        'no_denoise': False, 'env': rng.choice(ENVS), 'cset': None, 'num_cores': 4})
    # PATH of ReBench's own process: unset / empty / without the directory of sudo / usual
    for rp in ('unset', 'empty', 'without-sudo', 'usual'):
        for rep in (rng.choice(warn), full[0]):
            out.append({'kind': 'process_env', 'report': rep, 'path': 'ok', 'stdout_ok_writes': None,
                        'rebench_path': rp, 'profiling': False, 'no_denoise': False,
                        'env': rng.choice(ENVS), 'cset': None, 'num_cores': 4})
    return out


def check_process_env(ck, scenarios):
    ops, recs = [], []
    for sc in scenarios:
        _counter[0] += 1
        wd = os.path.join(ck.scratch, 'pe%d' % _counter[0])
        os.makedirs(wd)
        conf = drive.write_config(wd, make_config(dict(sc, path='ok')))
        stream = dd.BrokenPipeStream(sc['stdout_ok_writes'], sc.get('stdout_mode', 'broken-pipe')) \
            if sc['stdout_ok_writes'] is not None else None
        saved_env = dict(os.environ)
        try:
            if sc['rebench_path'] == 'unset':
                os.environ.pop('PATH', None)
            elif sc['rebench_path'] == 'empty':
                os.environ['PATH'] = ''
            elif sc['rebench_path'] == 'without-sudo':
                os.environ['PATH'] = '/opt/only/bin:/bin'
            elif sc['rebench_path'] == 'usual':
                os.environ['PATH'] = '/usr/local/bin:/usr/bin:/bin'
            res, events, _left = dd.run_parallel_session(wd, [conf], make_script(dict(sc, path='ok')), sc['report'],
                                                         cpu_count=1, num_cores=sc['num_cores'], out_stream=stream)
        finally:
            os.environ.clear()
            os.environ.update(saved_env)
        ck.impl_traces += 1
        ending = ending_of(res)
        inp = dict(sc)
        ck.count('process:%s path=%s -> %s' % (sc['path'], sc['rebench_path'], ending))
        if stream is not None:
            ck.count('stdout:%s' % ('broke' if stream.broken_at is not None else 'never-broke'))
        trace, sudo = [], []
        for e in events:
            if e[0] == 'sudo':
                found = e[5] if len(e) > 5 else True
                if not found:
                    trace.append({'t': 'sudo-not-found', 'verb': e[1]})
                    continue
                sudo.append((e[1], e[2]))
                if e[1] == 'minimize':
                    trace.append({'t': 'minimize', 'profiling': '--for-profiling' in e[2]})
                elif e[1] == 'restore':
                    trace.append({'t': 'restore', 'without_shielding': '--without-shielding' in e[2],
                                  'without_nice': '--without-nice' in e[2]})
            elif e[0] == 'start':
                trace.append({'t': 'start', 'i': e[1]})
            elif e[0] == 'stop':
                trace.append({'t': 'stop', 'i': e[1], 'how': e[2]})
        minimized = any(t['t'] == 'minimize' for t in trace)
        if not minimized:
            # sudo could not be found at start-up: nothing was changed, nothing may be invoked later
            if any(t['t'] == 'restore' for t in trace):
                ck.oracle_fail('denoise_only_as_granted', inp, {'trace': trace}, {'what': 'restore without minimize'})
            ck.case(nontrivial_key=None)
            continue
        core = [t for t in trace if t['t'] != 'sudo-not-found']
        trace_oracle(ck, inp, dict(sc, kind='session'), core, sudo, ending, sc['num_cores'])
        head = [dict((k, v) for k, v in t.items() if k != 'how') for t in core]
        body = [{'t': t['t'], 'i': t['i']} for t in head if t['t'] in ('start', 'stop')]
        ops.append({'op': 'c20.session', 'no_denoise': False, 'profiling': False, 'report': sc['report'],
                    'body': {'trace': body, 'ending': ending}})
        recs.append((inp, head, ending))
        ck.case(nontrivial_key=('penv', json.dumps(sc, sort_keys=True)),
                sample={'process': sc['path'], 'rebench_path': sc['rebench_path'], 'trace': [t['t'] for t in trace]}
                if _counter[0] % 11 == 0 else None)
    for (inp, head, ending), ans in zip(recs, ck.model(ops)):
        if ans.get('trace') != head or ans.get('ending') != ending:
            ck.disagree('c20.session: session whose stdout breaks / with another PATH vs RB.Denoise.session', inp,
                        {'trace': head, 'ending': ending}, ans, TH_SESSION)


# ------------------------------------------------------- parallel scheduler
def gen_parallel_scenarios(ck, n):
    rng = ck.rng
    reps = [r for r in all_reports() if r['kind'] == 'json' and r['others'] and 'failed' not in r['others'][:1]]
    out = []
    for i in range(n):
        n_bench = rng.randint(3, 7)
        inv = rng.randint(1, 2)
        total = n_bench * inv
        out.append({'kind': 'parallel', 'report': rng.choice(reps), 'path': 'interrupt' if i % 4 != 3 else 'ok',
                    'profiling': False, 'no_denoise': False, 'env': rng.choice(ENVS), 'cset': None,
                    'num_cores': rng.choice([2, 4, 64]), 'cpu_count': rng.choice([5, 8, 10]),
                    'n_bench': n_bench, 'invocations': inv, 'at': rng.randint(1, total)})
    # an internal exception in one worker thread (an early one: it is joined first) while the other
    # workers are in the middle of long benchmarks; also a failing benchmark in one worker
    for i in range(max(6, n // 3)):
        n_bench = rng.randint(5, 8)
        out.append({'kind': 'parallel', 'report': rng.choice(reps), 'path': 'crash' if i % 4 != 3 else 'failed',
                    'profiling': False, 'no_denoise': False, 'env': rng.choice(ENVS), 'cset': None,
                    'num_cores': rng.choice([2, 4, 64]), 'cpu_count': rng.choice([5, 8, 10]),
                    'n_bench': n_bench, 'invocations': 2, 'at': rng.choice([1, 1, 1, 2]), 'long': True})
    return out


def canon_abort(trace, p):
    """the order in which the running processes are killed is the order in which the worker
    threads registered them, which the log cannot see: sort the block between the interrupt
    (after `p` body events) and restore"""
    if p is None or not any(t['t'] == 'restore' for t in trace):
        return trace
    ri = max(i for i, t in enumerate(trace) if t['t'] == 'restore')
    block = sorted(trace[1 + p:ri], key=lambda t: (t['i'], t['t'] == 'stop'))
    return trace[:1 + p] + block + trace[ri:]


def check_parallel(ck, scenarios):
    import signal
    import threading
    import time
    ops, recs = [], []
    for sc in scenarios:
        _counter[0] += 1
        wd = os.path.join(ck.scratch, 'p%d' % _counter[0])
        os.makedirs(wd)
        cfg = {'default_experiment': 'T', 'default_data_file': 't.data',
               'runs': {'invocations': sc['invocations'], 'min_iteration_time': 0, 'execute_exclusively': False},
               'benchmark_suites': {'S': {'gauge_adapter': 'RebenchLog', 'command': 'h %(benchmark)s %(invocation)s',
                                          'benchmarks': ['B%d' % j for j in range(sc['n_bench'])]}},
               'executors': {'E': {'path': '.', 'executable': 'exe'}},
               'experiments': {'T': {'suites': ['S'], 'executions': ['E']}}}
        if sc['env']:
            cfg['runs']['env'] = dict(sc['env'])
        conf = drive.write_config(wd, cfg)
        state = {'k': 0}
        lock = threading.Lock()

        def script(rec, sc=sc, state=state, lock=lock):
            with lock:
                state['k'] += 1
                k = state['k']
            if sc['path'] == 'crash' and k == sc['at']:
                raise RuntimeError('internal error injected by the harness (in a worker thread)')
            o = drive.Outcome(1 if (sc['path'] == 'failed' and k == sc['at']) else 0,
                              'B: iterations=1 runtime: 5ms\n')
            o.delay = (0.10 if sc.get('long') else 0.04) + 0.01 * (k % 3)
            if sc['path'] == 'interrupt' and k == sc['at']:
                def fire():
                    time.sleep(0.015)
                    os.kill(os.getpid(), signal.SIGINT)     # Ctrl-C: delivered to the main thread
                threading.Thread(target=fire).start()
            return o
        res, events, left = dd.run_parallel_session(wd, [conf], script, sc['report'], cpu_count=sc['cpu_count'],
                                                    num_cores=sc['num_cores'])
        ck.impl_traces += 1
        ending = ending_of(res) if res.exit != 4 else 'crash'
        inp = dict(sc)
        ck.count('parallel:%s->%s' % (sc['path'], ending))
        if left:
            raise lib.InfraError('worker threads still alive: %s' % left)
        trace = []
        for e in events:
            if e[0] == 'sudo':
                if e[1] == 'minimize':
                    trace.append({'t': 'minimize', 'profiling': '--for-profiling' in e[2]})
                elif e[1] == 'restore':
                    trace.append({'t': 'restore', 'without_shielding': '--without-shielding' in e[2],
                                  'without_nice': '--without-nice' in e[2]})
                elif e[1] == 'kill':
                    trace.append({'t': 'kill', 'i': e[4] if e[4] is not None else 0})
            elif e[0] == 'start':
                trace.append({'t': 'start', 'i': e[1]})
            elif e[0] == 'stop':
                trace.append({'t': 'stop', 'i': e[1], 'how': e[2]})
        sudo = [(e[1], e[2]) for e in events if e[0] == 'sudo']
        trace_oracle(ck, inp, sc, trace, sudo, ending, sc['num_cores'])
        if sc['path'] == 'interrupt' and ending != 'interrupt':
            ck.count('parallel:interrupt-after-all-work')
        # ---- model: the observed global order of the workers' own events (starts, natural ends) and
        # the point where the interrupt fell.  A process whose thread was already registered when
        # the scheduler began to stop may still start (and is then killed); one may end by itself
        # just before its kill.  Both are worker events; the kills and the ends they cause are the
        # scheduler's reaction, which the model computes.
        interrupted = ending == 'interrupt'
        p = None
        if interrupted:
            p = 0
            for t in trace[1:]:
                if t['t'] in ('restore', 'kill') or (t['t'] == 'stop' and t.get('how') == 'killed'):
                    break
                p += 1
        own = [{'t': t['t'], 'i': t['i']} for t in trace
               if t['t'] == 'start' or (t['t'] == 'stop' and t.get('how') != 'killed')]
        if interrupted:
            ri = max(i for i, t in enumerate(trace) if t['t'] == 'restore') if any(
                t['t'] == 'restore' for t in trace) else len(trace)
            own = [{'t': t['t'], 'i': t['i']} for t in trace[:ri]
                   if t['t'] == 'start' or (t['t'] == 'stop' and t.get('how') != 'killed')]
        op = {'op': 'c20.par_session', 'profiling': False, 'report': sc['report'], 'events': own,
              'ending': ending, 'pinned': False}
        if interrupted:
            op['interrupt_at'] = len(own)
        ops.append(op)
        recs.append((inp, canon_abort([dict((k, v) for k, v in t.items() if k != 'how') for t in trace], p), ending, p))
        ck.case(nontrivial_key=('par', json.dumps(sc, sort_keys=True)),
                sample={'parallel': sc['path'], 'trace': [t['t'] for t in trace]} if _counter[0] % 10 == 0 else None)
    for (inp, trace, ending, p), ans in zip(recs, ck.model(ops)):
        if canon_abort(ans.get('trace', []), p) != trace or ans.get('ending') != ending:
            ck.disagree('c20.par_session: parallel scheduler, sudo calls / process events vs RB.Denoise.parSession',
                        inp, {'trace': trace, 'ending': ending}, ans, TH_PAR)


def gen_scenarios(ck, quick):
    rng = ck.rng
    out = []
    reps = all_reports()
    for rep in reps:
        for path in PATHS:
            for profiling in (False, True):
                if quick and profiling and rng.random() < 0.5:
                    continue
                out.append({'kind': 'session', 'report': rep, 'path': path, 'profiling': profiling,
                            'no_denoise': False, 'env': rng.choice(ENVS), 'bench_env': gen_bench_env(rng),
                            'cset': rng.choice([None, '/usr/bin/cset']),
                            'num_cores': rng.choice([1, 2, 4, 8, 64, 4096]), 'at': rng.choice([1, 2, 3]),
                            'restore': rng.choice(['ok', 'ok', 'fails'])})
    for path in ['plan'] * 4 + (['timeout'] * 6 if not quick else []):
        out.append({'kind': 'session', 'report': rng.choice([r for r in reps if r['kind'] == 'json']), 'path': path,
                    'profiling': False, 'no_denoise': False, 'env': rng.choice(ENVS),
                    'cset': rng.choice([None, '/usr/bin/cset']), 'num_cores': rng.choice([1, 4, 64]), 'at': 2,
                    'restore': 'ok'})
    # a command that itself starts with `sudo` and has to be killed (Ctrl-C; thorough: time-out too):
    # with -D and when nothing was granted no sudo/denoise call of any kind may occur
    not_granted = [{'kind': 'nonjson', 'msg': 'password'}, {'kind': 'nonjson', 'msg': 'sudo_missing'},
                   {'kind': 'json', 'nice': 'no', 'shield': 'no', 'others': ['yes', 'yes', 'yes']},
                   {'kind': 'json', 'nice': None, 'shield': None, 'others': ['failed', 'yes', 'yes']}]
    some_granted = [{'kind': 'json', 'nice': 'yes', 'shield': 'no', 'others': ['yes', 'yes', 'yes']},
                    {'kind': 'json', 'nice': 'yes', 'shield': 'yes', 'others': ['yes', 'yes', 'yes']}]
    for path in ['interrupt'] + ([] if quick else ['timeout']):
        for rep, noD in [(r_, False) for r_ in not_granted + some_granted] + [(rng.choice(reps), True)] * 2:
            out.append({'kind': 'session', 'report': rep, 'path': path, 'profiling': False, 'no_denoise': noD,
                        'sudo_cmd': True, 'env': rng.choice(ENVS), 'cset': None, 'num_cores': 4,
                        'at': rng.choice([1, 2]), 'restore': 'ok'})
    for path in PATHS:
        for profiling in (False, True):
            out.append({'kind': 'session', 'report': rng.choice(reps), 'path': path, 'profiling': profiling,
                        'no_denoise': True, 'env': rng.choice(ENVS), 'cset': None, 'num_cores': 4, 'at': 2})
    return out


def load_corpus():
    d = os.path.join(lib.VERIF, 'harness', 'corpus', 'C20')
    out = []
    if os.path.isdir(d):
        for f in sorted(os.listdir(d)):
            if f.endswith('.json'):
                out.append(json.load(open(os.path.join(d, f)))['input'])
    return out


def dispatch(ck, inputs):
    sess = [i for i in inputs if i['kind'] == 'session']
    for i in range(0, len(sess), 120):
        check_sessions(ck, sess[i:i + 120])
    pe = [i for i in inputs if i['kind'] == 'process_env']
    if pe:
        check_process_env(ck, pe)
    sg = [i for i in inputs if i['kind'] == 'signal']
    if sg:
        check_signals(ck, sg)
    ex = [i for i in inputs if i['kind'] == 'exec']
    if ex:
        check_exec(ck, ex)
    dp = [i for i in inputs if i['kind'] == 'denoise_py']
    for i in range(0, len(dp), 400):
        check_denoise_py(ck, dp[i:i + 400])
    pa = [i for i in inputs if i['kind'] == 'parallel']
    if pa:
        check_parallel(ck, pa)
    cl = [i for i in inputs if i['kind'] == 'cli']
    if cl:
        check_cli(ck, cl)
    for i in inputs:
        if i['kind'] == 'shield':
            check_shield(ck, 4096)
            break


def run(ck):
    quick = ck.tier == 'quick'
    dd.assert_no_real_sudo()
    ck.rule = ('every capability report (nice absent/yes/no x shielding absent/yes/no x settings all ok / one failed / '
               'all failed / none; non-JSON: password required, command not found, sudo missing, other; start-up '
               'raising Ctrl-C / an exception) x termination path (ok, failed benchmark, run-time configuration error, '
               'Ctrl-C, internal exception) x profiling, plus -D sessions, run through the real ReBench.run with a '
               'scripted sudo and scripted processes; env maps, cset path, core count, interrupt position random. '
               'non-trivial = a session with denoise enabled (distinct by scenario) or a wrapped command text; '
               '_shield_lower_bound/_shield_upper_bound for every n in 1..4096')
    ck.assumptions = ['sudo and denoise.py are never executed: `subprocess` inside rebench.denoise_client and the Popen of '
                      'the process layer are scripted; what `denoise.py` itself does to the system is out of scope',
                      'parallel scheduler: modelled by the observed global order of the worker events and the '
                      'interrupt position']
    ck.exhaustive = True
    dispatch(ck, load_corpus())
    dispatch(ck, gen_scenarios(ck, quick))
    dispatch(ck, gen_parallel_scenarios(ck, 16 if quick else 120))
    try:  # Ctrl-C inside the parallel scheduler's join (harness/corr/interrupt_join.py)
        from corr import interrupt_join; interrupt_join.scenarios(ck)
    except ImportError:
        pass
    dispatch(ck, gen_denoise_py_cases(ck, 300))
    dispatch(ck, gen_exec_cases(ck))
    dispatch(ck, gen_signal_scenarios(ck, quick))
    dispatch(ck, gen_process_env_scenarios(ck, quick))
    if not quick:
        dispatch(ck, gen_denoise_py_cases(ck, 0, exhaustive=True))
    check_shield(ck, 4096)
    if not quick:
        for _ in range(3):
            dispatch(ck, gen_scenarios(ck, False))
        dispatch(ck, gen_cli_scenarios(ck, 48))


def replay(ck, data):
    if data['input'].get('kind') == 'interrupt-join':
        from corr import interrupt_join
        return interrupt_join.replay(ck, data)
    dispatch(ck, [data['input']])
