"""C19 — any configuration file is either accepted or rejected with a diagnostic.

Correspondence: valid generated configurations, mutated as the property lists (dropping
optional and required keys, dangling references, empty maps / lists / null details,
scalars of the wrong YAML type, unknown keys, dot-keys, anchors and merge keys,
non-mapping roots, empty documents). The YAML text goes to a real session with `-E`
(`ReBench().run`, wrapped like `main_func`); the parsed document (what `yaml.safe_load`
returns, as JSON) goes to the Lean model `RB.ConfigDoc.compile`. Compared: the outcome
class  ok | ui_error | crash:<ExceptionClass>.
Oracle (model-independent): the session never ends in a traceback while loading /
compiling the configuration, and every unmutated generated configuration is accepted.
"""
import copy
import datetime
import json
import os

import yaml

import lib
import drive
import drive_config

lib.use_repo()
from rebench import rebench as rb_main  # noqa: E402

THEOREMS = ['RB.ConfigDoc.c19_never_crash', 'RB.ConfigDoc.c19_accepted_or_rejected', 'RB.ConfigDoc.c19_schema_invalid_rejected']


class RefLoader(yaml.SafeLoader):
    """what a configuration file means: YAML 1.1 as PyYAML's safe loader reads it, except that scalars
    that look like a date or a time are the text that is written (ReBench has no date values; fix
    'values in the configuration that look like a date are read as the text written'). Restated here,
    not taken from the code under test."""


RefLoader.yaml_implicit_resolvers = {
    ch: [(tag, rx) for tag, rx in rs if tag != 'tag:yaml.org,2002:timestamp']
    for ch, rs in yaml.SafeLoader.yaml_implicit_resolvers.items()}


def ref_load(text):
    return yaml.load(text, Loader=RefLoader)


# ------------------------------------------------------------------ wire format
def is_recursive(o, stack=()):
    """a self-referential anchor gives a cyclic object: the model cannot be given it"""
    if isinstance(o, (list, dict)):
        if id(o) in stack:
            return True
        st = stack + (id(o),)
        items = list(o.values()) + list(o.keys()) if isinstance(o, dict) else o
        return any(is_recursive(x, st) for x in items)
    return False


def to_wire(o):
    if o is None or isinstance(o, (bool, str)):
        return o
    if isinstance(o, int):
        return o
    if isinstance(o, float):
        return {'f': repr(o)}
    if isinstance(o, list):
        return [to_wire(x) for x in o]
    if isinstance(o, dict):
        return {'m': [[to_wire(k), to_wire(v)] for k, v in o.items()]}
    return {'o': type(o).__name__}


# ------------------------------------------------------------------ generator
def gen_details(rng, p=0.3, variables=True):
    d = {}
    if rng.random() < p:
        d['invocations'] = rng.choice([1, 2, '3', '2!', 3, '12', '5', ' 4', '7!'])
    if rng.random() < p:
        d['iterations'] = rng.choice([1, 2, '4!', 5, '3', '10', '6!'])
    if rng.random() < p / 2:
        d['warmup'] = rng.choice([0, 1, '2', '1!', '0', '3'])
    if rng.random() < p / 2:
        d['max_invocation_time'] = rng.choice([-1, 10, 300])
    if rng.random() < p / 2:
        d['min_iteration_time'] = rng.choice([0, 50])
    if rng.random() < p / 3:
        d['retries_after_failure'] = rng.choice([0, 2])
    if rng.random() < p / 3:
        d['ignore_timeouts'] = rng.choice([True, False])
    if rng.random() < p / 3:
        d['execute_exclusively'] = rng.choice([True, False])
    if rng.random() < p / 3:
        d['parallel_interference_factor'] = rng.choice([2.5, 1, '1.5', 0, 0.0, -0.0, float('nan'), 1e-320, float('inf'), -1, '0', 'nan'])
    if rng.random() < p / 2:
        d['env'] = rng.choice([{}, {'A': 'x'}, {'PATH': '/bin', 'B': '1'}, {'H': '{HOME}/x', 'J': '{}'},
                               {'JAVA_OPTS': "-Dgreeting=it's"}, {'D': '5" display', 'W': 'C:\\data\\'}, {'Q': '"', 'T': '~/it\'s'}])
    # a YAML null (`~`, `null`, empty value) is accepted for every non-required scalar and means
    # "not set here": the setting of the enclosing level / the default applies
    for k in ('invocations', 'iterations', 'warmup', 'min_iteration_time', 'max_invocation_time',
              'retries_after_failure', 'ignore_timeouts', 'execute_exclusively', 'parallel_interference_factor'):
        if rng.random() < p / 6:
            d[k] = None
    if not variables:
        return d
    if rng.random() < p / 2:
        d['input_sizes'] = rng.choice([[1, 2], ['small'], [10]])
    if rng.random() < p / 2:
        d['cores'] = rng.choice([[1], [1, 2], ['4']])
    if rng.random() < p / 3:
        d['variable_values'] = rng.choice([['a', 'b'], [1]])
    if rng.random() < p / 3:
        d['tags'] = rng.choice([['t1'], ['t1', 't2']])
    return d


def gen_valid(rng):
    n_s = rng.choice([1, 1, 2])
    n_e = rng.choice([1, 1, 2])
    suites, executors, experiments = {}, {}, {}
    for i in range(n_s):
        benches = []
        for j in range(rng.choice([1, 2, 3])):
            name = ('b%d' if rng.random() < 0.85 else 'b{%d}') % (j + 1)
            r = rng.random()
            if r < 0.5:
                benches.append(name)
            else:
                det = gen_details(rng, 0.25)
                if rng.random() < 0.4:
                    det['extra_args'] = rng.choice(['x', 3, '-v', '{a}', '-D{0}'])
                if rng.random() < 0.2:
                    det['command'] = 'other'
                if rng.random() < 0.1:
                    det['codespeed_name'] = 'cs'
                benches.append({name: det})
        s = {'gauge_adapter': rng.choice(['Time', 'RebenchLog', 'PlainSecondsLog', {'Custom': 'custom.py'}]),
             'command': 'harness %(benchmark)s', 'benchmarks': benches}
        if rng.random() < 0.3:
            s['location'] = rng.choice(['loc', '~/suite', '/abs/dir'])
        if rng.random() < 0.3:
            s['build'] = rng.choice([['make'], ['./configure', 'make -j'], ['make {target}']])
        if rng.random() < 0.2:
            s['description'] = rng.choice(['a suite', 'suite {name} of {0}', '{'])
        s.update(gen_details(rng, 0.2))
        suites['S%d' % (i + 1)] = s
    for i in range(n_e):
        e = {'executable': 'vm%d' % (i + 1)}
        if rng.random() < 0.5:
            e['path'] = rng.choice(['bin', '~/vm', '/opt/vm'])
        if rng.random() < 0.3:
            e['args'] = '-Xfoo'
        if rng.random() < 0.3:
            e['build'] = ['make vm']
        if rng.random() < 0.2:
            e['desc'] = 'a vm'
        if rng.random() < 0.25:
            e['profiler'] = rng.choice([{'perf': {}}, {'perf': {'record_args': 'record -g'}}])
        e.update(gen_details(rng, 0.15))
        executors['E%d' % (i + 1)] = e
    for i in range(rng.choice([1, 1, 2])):
        x = {}
        style = rng.random()
        enames = list(executors)
        snames = list(suites)
        if style < 0.5:
            x['suites'] = snames[:rng.randint(1, len(snames))]
            x['executions'] = enames[:rng.randint(1, len(enames))]
        elif style < 0.8:
            if rng.random() < 0.5:
                # the same details for every execution (written once and aliased in `factor`)
                shared = dict(gen_details(rng, 0.3), suites=snames[:rng.randint(1, len(snames))])
                x['executions'] = [{en: copy.deepcopy(shared)} for en in enames]
            else:
                x['executions'] = [{en: dict(gen_details(rng, 0.2), suites=snames[:rng.randint(1, len(snames))])} for en in enames]
        else:
            x['suites'] = snames
            x['executions'] = [enames[0]] + [{en: gen_details(rng, 0.3)} for en in enames[1:]]
        if rng.random() < 0.2:
            x['description'] = rng.choice(['an experiment', 'exp {x}'])
        if rng.random() < 0.2:
            x['data_file'] = rng.choice(['exp%d.data', 'exp{%d}.data', 'nodir/exp%d.data', 'notes.txt/exp%d.data']) % i
        if rng.random() < 0.15:
            x['action'] = 'benchmark'
        if rng.random() < 0.1:
            x['reporting'] = {}
        x.update(gen_details(rng, 0.15))
        experiments['X%d' % (i + 1)] = x
    if len(experiments) == 1 and rng.random() < 0.25:
        # a second experiment that repeats the first (an alias of it in `factor`)
        experiments['X2'] = copy.deepcopy(experiments['X1'])
    if rng.random() < 0.15:
        # braces in experiment names
        experiments = {k.replace('X', 'X{') + '}': v for k, v in experiments.items()}
    cfg = {}
    if rng.random() < 0.3:
        cfg['default_experiment'] = rng.choice(['all', list(experiments)[0]])
    if rng.random() < 0.2:
        cfg['default_data_file'] = 'my.data'
    if rng.random() < 0.1:
        cfg['build_log'] = 'b.log'
    if rng.random() < 0.1:
        cfg['artifact_review'] = rng.choice([True, False])
    if rng.random() < 0.4:
        cfg['runs'] = gen_details(rng, 0.4, variables=False)
    if rng.random() < 0.15:
        cfg['reporting'] = rng.choice([{}, {'rebenchdb': {'db_url': 'http://localhost:1', 'project_name': 'p', 'record_all': False}},
                                       {'codespeed': {'url': 'http://localhost:1/', 'project': 'p'}}])
    if rng.random() < 0.3:
        cfg['machines'] = {'m1': dict(gen_details(rng, 0.3), description='box')}
    if rng.random() < 0.2:
        cfg['.anything'] = rng.choice([1, {'a': [1, 2]}, None])
    if rng.random() < 0.3:
        # every run may execute in parallel with others (the parallel scheduler is then chosen when
        # there are several CPUs), with some value of the factor that once steered the parallelism
        cfg.setdefault('runs', {})['execute_exclusively'] = False
        if rng.random() < 0.7:
            cfg['runs']['parallel_interference_factor'] = rng.choice([0, 0.0, float('nan'), 1e-320, 2.5, 1e308, -2, '0.0'])
    cfg['benchmark_suites'] = suites
    cfg['executors'] = executors
    cfg['experiments'] = experiments
    return cfg


POOL = [float('inf'), float('-inf'), float('nan'), 10 ** 30, 'q\0.data', '/tmp', '.', '{x}', 'a{0}b', '{', '}}', '{}', {'{k}': {}}, ['{s}'], None, {}, [], '', 'abc', '3!', '!', 'x!', 2.5, True, False, 0, -1, 7, '2.5', ' 4 ', '1_0', [1], ['a', None], [None],
        {'a': 1}, {'a': {}, 'b': {}}, {'a': None}, '~x', 'profile', 'benchmark', 'profiler', 'all', 'S1', 'E1', 'X1',
        datetime.date(2020, 1, 2), 1e100, 'inf', ['S1'], ['E1'], [['S1']], {'perf': {}}, {'perf': {'record_args': None}},
        {'other': {}}, {'suites': None}, {'suites': ['S1']}, {'invocations': ''}, {'cores': None}, [{}]]
KEYS = ['{k}', '.{d}', 'foo', '.foo', 'a.b', 1, '', True, None, 'invocations', 'cores', 'suites', 'executions', 'env', 'build', 'action',
        'profiler', 'data_file', 'input_sizes', 'tags', 'variable_values', 'warmup', 'iterations']


def paths(obj, pre=()):
    yield pre
    if isinstance(obj, dict):
        for k in list(obj):
            yield from paths(obj[k], pre + (k,))
    elif isinstance(obj, list):
        for i in range(len(obj)):
            yield from paths(obj[i], pre + (i,))


def get_at(obj, p):
    for k in p:
        obj = obj[k]
    return obj


def mutate(rng, cfg):
    """one mutation of the kinds the property lists; returns (kind, new cfg)"""
    cfg = copy.deepcopy(cfg)
    ps = [p for p in paths(cfg) if p]
    kind = rng.choice(['drop', 'set', 'set', 'set', 'addkey', 'dangle', 'wrap', 'null', 'empty', 'edge', 'edge'])
    if kind == 'edge':
        maps = detail_maps(cfg)
        if maps and rng.random() < 0.2:
            # an env variable without a value (null), on any level
            m, _wv = rng.choice(maps)
            env = m.get('env') if isinstance(m.get('env'), dict) else {}
            m['env'] = dict(env, NOVALUE=None)
            return 'edge:env:NoneType', cfg
        if maps:
            m, _wv = rng.choice(maps)
            k = rng.choice(EDGE_KEYS)
            v = rng.choice(EDGE)
            m[k] = v
            return 'edge:%s:%s' % (k, type(v).__name__), cfg
        kind = 'set'
    p = rng.choice(ps)
    parent = get_at(cfg, p[:-1])
    cur = parent[p[-1]]
    if kind == 'drop':
        del parent[p[-1]]
        return 'drop:' + key_class(p), cfg
    if kind == 'null':
        parent[p[-1]] = None
        return 'null:' + key_class(p), cfg
    if kind == 'empty':
        parent[p[-1]] = rng.choice([{}, [], ''])
        return 'empty:' + key_class(p), cfg
    if kind == 'set':
        v = rng.choice(POOL)
        parent[p[-1]] = copy.deepcopy(v)
        return 'set:%s:%s' % (key_class(p), type(v).__name__), cfg
    if kind == 'addkey':
        maps = [q for q in paths(cfg) if isinstance(get_at(cfg, q), dict)]
        q = rng.choice(maps)
        k = rng.choice(KEYS)
        get_at(cfg, q)[k] = copy.deepcopy(rng.choice([1, None, {}, [], 'x', {'a': 1}, ['S1'], 2.5]))
        return 'addkey:%s:%s' % (key_class(q) if q else 'root', k if isinstance(k, str) else type(k).__name__), cfg
    if kind == 'dangle':
        strs = [q for q in ps if isinstance(get_at(cfg, q), str)]
        if strs:
            q = rng.choice(strs)
            par = get_at(cfg, q[:-1])
            par[q[-1]] = par[q[-1]] + rng.choice(['9', '9', '{9}', '{'])
            return 'dangle:' + key_class(q), cfg
        return 'none', cfg
    if kind == 'wrap':
        if isinstance(cur, str):
            parent[p[-1]] = rng.choice([{cur: {}, 'zz': {}}, {cur: None}, {cur: {}}, [cur], {cur: {'invocations': 2.5}},
                                        {cur: {'suites': None}}])
        else:
            parent[p[-1]] = [copy.deepcopy(cur)]
        return 'wrap:' + key_class(p), cfg
    return 'none', cfg


def key_class(p):
    """the last string key on the path (names of suites etc. mapped to their section)"""
    named = {'benchmark_suites': 'suite', 'executors': 'executor', 'experiments': 'experiment', 'machines': 'machine'}
    if len(p) >= 2 and p[-2] in named and isinstance(p[-2], str):
        return named[p[-2]]
    for k in reversed(p):
        if isinstance(k, str):
            return k
    return 'root'


ANCHOR_TEXTS = [
    # anchors and merge keys: shared details through a dot key
    ('anchor-merge', """
.common: &c
  invocations: 3
  cores: [1, 2]
benchmark_suites:
  S1:
    <<: *c
    gauge_adapter: Time
    command: c %(benchmark)s
    benchmarks: &bs [b1, b2]
  S2:
    gauge_adapter: Time
    command: d
    benchmarks: *bs
executors:
  E1: &e {executable: x}
  E2: *e
experiments:
  X: {suites: [S1, S2], executions: [E1, E2], <<: *c}
"""),
    ('merge-null', "benchmark_suites:\n  S1:\n    <<: ~\n    gauge_adapter: Time\n    command: c\n    benchmarks: [b]\n"),
    ('merge-scalar', "a: &a 3\nruns:\n  <<: *a\n"),
    ('anchor-to-null-details', ".d: &d\nbenchmark_suites:\n  S1: {gauge_adapter: Time, command: c, benchmarks: [{b1: *d}]}\n"),
    ('anchor-two-key', ".d: &d {b1: {}, b2: {}}\nbenchmark_suites:\n  S1: {gauge_adapter: Time, command: c, benchmarks: [*d]}\n"
                       "executors:\n  E1: {executable: x}\nexperiments:\n  X: {suites: [S1], executions: [E1]}\n"),
    ('merge-list', ".a: &a {invocations: 2}\n.b: &b {iterations: ''}\nruns:\n  <<: [*a, *b]\n"),
    ('empty', ''),
    ('only-comment', '# nothing\n'),
    ('null-doc', '~\n'),
    ('doc-markers', '---\n...\n'),
    ('two-docs', 'a: 1\n---\nb: 2\n'),
    ('root-list', '- a\n- b\n'),
    ('root-str', 'hello\n'),
    ('root-int', '42\n'),
    ('root-false', 'false\n'),
    ('root-empty-map', '{}\n'),
    ('root-empty-list', '[]\n'),
    ('bad-yaml', 'a: [1, 2\n'),
    ('tab-indent', 'a:\n\t- b\n'),
    ('unhashable-key', '? [a, b]\n: 1\n'),
    ('python-tag', 'a: !!python/object:os.system x\n'),
    ('dup-keys', 'runs: {invocations: 2}\nruns: {invocations: ""}\n'),
    ('binary', 'benchmark_suites:\n  S1: {gauge_adapter: Time, command: !!binary aGVsbG8=, benchmarks: [b]}\n'),
    ('set-tag', '.x: !!set {a, b}\n'),
    ('timestamp', 'build_log: 2001-12-14t21:59:43.10-05:00\n'),
    ('int-keys', 'benchmark_suites:\n  1: {gauge_adapter: Time, command: c, benchmarks: [b]}\nexecutors:\n  2: {executable: x}\n'
                 'experiments:\n  3: {suites: [1], executions: [2]}\n'),
    ('null-suite-ref', 'benchmark_suites:\n  S1: {gauge_adapter: Time, command: c, benchmarks: [b]}\nexecutors:\n  E1: {executable: x}\n'
                       'experiments:\n  X: {suites: [~], executions: [E1]}\n'),
    ('null-bench', 'benchmark_suites:\n  S1: {gauge_adapter: Time, command: c, benchmarks: [~]}\nexecutors:\n  E1: {executable: x}\n'
                   'experiments:\n  X: {suites: [S1], executions: [E1]}\n'),
    ('null-build-item', 'benchmark_suites:\n  S1: {gauge_adapter: Time, command: c, benchmarks: [b]}\nexecutors:\n  E1: {executable: x, build: [~]}\n'
                        'experiments:\n  X: {suites: [S1], executions: [E1]}\n'),
    ('profile-no-profiler', 'benchmark_suites:\n  S1: {gauge_adapter: Time, command: c, benchmarks: [b]}\nexecutors:\n  E1: {executable: x}\n'
                            'experiments:\n  X: {suites: [S1], executions: [E1], action: profile}\n'),
    ('profile-ok', 'benchmark_suites:\n  S1: {gauge_adapter: Time, command: c, benchmarks: [b]}\nexecutors:\n  E1: {executable: x, profiler: {perf: {}}}\n'
                   'experiments:\n  X: {suites: [S1], executions: [E1], action: profile}\n'),
    ('profiler-unknown', 'benchmark_suites:\n  S1: {gauge_adapter: Time, command: c, benchmarks: [b]}\nexecutors:\n  E1: {executable: x, profiler: {vtune: {}}}\n'
                         'experiments:\n  X: {suites: [S1], executions: [E1]}\n'),
    ('default-data-file-null', 'default_data_file: ~\nbenchmark_suites:\n  S1: {gauge_adapter: Time, command: c, benchmarks: [b]}\nexecutors:\n  E1: {executable: x}\n'
                               'experiments:\n  X: {suites: [S1], executions: [E1]}\n'),
    ('default-exp-null', 'default_experiment: ~\nexperiments: {}\n'),
    ('gauge-two-keys', 'benchmark_suites:\n  S1: {gauge_adapter: {A: a.py, B: b.py}, command: c, benchmarks: [b]}\n'),
    ('gauge-one-key', 'benchmark_suites:\n  S1: {gauge_adapter: {A: a.py}, command: c, benchmarks: [b]}\n'),
    ('gauge-int', 'benchmark_suites:\n  S1: {gauge_adapter: 5, command: c, benchmarks: [b]}\n'),
    ('gauge-list', 'benchmark_suites:\n  S1: {gauge_adapter: [Time], command: c, benchmarks: [b]}\n'),
    ('gauge-null', 'benchmark_suites:\n  S1: {gauge_adapter: ~, command: c, benchmarks: [b]}\n'),
    ('gauge-empty-map', 'benchmark_suites:\n  S1: {gauge_adapter: {}, command: c, benchmarks: [b]}\n'),
    ('no-executable', 'executors:\n  E1: {path: p}\n'),
    ('suite-unknown-key', 'benchmark_suites:\n  S1: {gauge_adapter: Time, command: c, benchmarks: [b], foo: 1}\n'),
    ('invocations-list', 'runs:\n  invocations: [1]\n'),
    ('invocations-bool', 'runs:\n  invocations: true\n'),
    ('invocations-str-number', 'runs:\n  invocations: "12"\n'),
    ('invocations-bang-only', 'runs:\n  invocations: "!"\nbenchmark_suites:\n  S1: {gauge_adapter: Time, command: c, benchmarks: [b]}\nexecutors:\n  E1: {executable: x}\n'
                             'experiments:\n  X: {suites: [S1], executions: [E1]}\n'),
    ('action-prefix', 'experiments:\n  X: {suites: [], executions: [], action: benchmarking}\n'),
    ('action-other', 'experiments:\n  X: {suites: [], executions: [], action: run}\n'),
    ('empty-lists', 'experiments:\n  X: {suites: [], executions: []}\n'),
    ('machine-null', 'machines:\n  m1: ~\n'),
    ('env-null', 'runs:\n  env: ~\n'),
    ('env-int-value', 'runs:\n  env: {A: 1}\n'),
    ('pif-string', 'runs:\n  parallel_interference_factor: "1e-3"\n'),
    ('pif-bad-string', 'runs:\n  parallel_interference_factor: "fast"\n'),
    ('yaml-unclosed-flow-map', '{a: b\n'),
    ('yaml-error-braces', 'a: {b: }c}\n'),
    ('yaml-error-braces-2', 'runs: {invocations: {0}\n  x\n'),
    ('data-file-directory', 'default_data_file: /tmp\nbenchmark_suites:\n  S1: {gauge_adapter: Time, command: c, benchmarks: [b]}\n'
                            'executors:\n  E1: {executable: x}\nexperiments:\n  X: {suites: [S1], executions: [E1]}\n'),
    ('exp-data-file-directory', 'benchmark_suites:\n  S1: {gauge_adapter: Time, command: c, benchmarks: [b]}\n'
                                'executors:\n  E1: {executable: x}\nexperiments:\n  X: {suites: [S1], executions: [E1], data_file: /}\n'),
    ('command-bad-format-braces', 'benchmark_suites:\n  S1: {gauge_adapter: Time, command: "h {x} %(nokey)s", benchmarks: [b]}\n'
                                  'executors:\n  E1: {executable: x}\nexperiments:\n  X: {suites: [S1], executions: [E1]}\n'),
    ('command-bad-format-braces-2', 'benchmark_suites:\n  S1: {gauge_adapter: Time, command: "h {} %(benchmark)", benchmarks: [b]}\n'
                                    'executors:\n  E1: {executable: x}\nexperiments:\n  X: {suites: [S1], executions: [E1]}\n'),
    ('gauge-two-keys-brace-suite', 'benchmark_suites:\n  "S{1}": {gauge_adapter: {A: a.py, B: b.py}, command: c, benchmarks: [b]}\n'),
    ('gauge-int-brace-suite', 'benchmark_suites:\n  "S{x}": {gauge_adapter: 5, command: c, benchmarks: [b]}\n'),
    ('undefined-executor-braces', 'benchmark_suites:\n  S1: {gauge_adapter: Time, command: c, benchmarks: [b]}\n'
                                  'experiments:\n  X: {suites: [S1], executions: ["E{9}"]}\n'),
    ('undefined-suite-braces', 'benchmark_suites:\n  S1: {gauge_adapter: Time, command: c, benchmarks: [b]}\n'
                               'executors:\n  E1: {executable: x}\nexperiments:\n  X: {suites: ["S{9}"], executions: [E1]}\n'),
    ('default-exp-braces', 'default_experiment: "{x}"\nexperiments: {}\n'),
    ('unknown-key-braces', '"{k}": 1\n'),
    ('wrong-type-braces', 'build_log: ["{0}"]\n'),
    ('invocations-braces', 'runs:\n  invocations: "{3}"\nbenchmark_suites:\n  S1: {gauge_adapter: Time, command: c, benchmarks: [b]}\n'
                           'executors:\n  E1: {executable: x}\nexperiments:\n  X: {suites: [S1], executions: [E1]}\n'),
    ('quoted-invocations-everywhere', 'runs: {invocations: "5", iterations: "3", warmup: "1"}\n'
        'benchmark_suites:\n  S1: {gauge_adapter: Time, command: "c %(iterations)s", iterations: "4", benchmarks: [b1, {b2: {invocations: "2", warmup: "0"}}]}\n'
        'executors:\n  E1: {executable: x, invocations: "6"}\nexperiments:\n  X: {suites: [S1], executions: [{E1: {iterations: "7"}}], invocations: "8"}\n'),
    ('recursive-anchor-experiments', 'experiments: &r {X: *r}\n'),
    ('recursive-anchor-dot-key', '.x: &r [*r]\nexperiments: {}\n'),
    ('recursive-anchor-env', 'runs: &r {env: *r}\n'),
    ('recursive-anchor-suite', 'benchmark_suites: &r\n  S1: {gauge_adapter: Time, command: c, benchmarks: [b], build: *r}\n'),
    ('nul-data-file', 'benchmark_suites:\n  S1: {gauge_adapter: Time, command: c, benchmarks: [b]}\nexecutors:\n  E1: {executable: x}\n'
                      'experiments:\n  X: {suites: [S1], executions: [E1], data_file: "q\\0.data"}\n'),
    ('nul-default-data-file', 'default_data_file: "q\\0.data"\nbenchmark_suites:\n  S1: {gauge_adapter: Time, command: c, benchmarks: [b]}\n'
                              'executors:\n  E1: {executable: x}\nexperiments:\n  X: {suites: [S1], executions: [E1]}\n'),
    ('nul-in-names', 'benchmark_suites:\n  "S\\01": {gauge_adapter: Time, command: "c\\0", benchmarks: ["b\\0"]}\nexecutors:\n  E1: {executable: x}\n'
                     'experiments:\n  X: {suites: ["S\\01"], executions: [E1]}\n'),
    ('null-details-every-level',
     'runs: {invocations: ~, iterations: null, warmup: , retries_after_failure: ~, min_iteration_time: ~, max_invocation_time: ~, ignore_timeouts: ~, execute_exclusively: ~, parallel_interference_factor: ~}\n'
     'machines:\n  m1: {retries_after_failure: ~, invocations: ~}\n'
     'benchmark_suites:\n  S1:\n    gauge_adapter: Time\n    command: c %(benchmark)s\n    retries_after_failure:\n    max_invocation_time: null\n    iterations: ~\n'
     '    benchmarks:\n      - b1\n      - b2: {retries_after_failure: ~, warmup: ~, min_iteration_time: ~, execute_exclusively: ~}\n'
     'executors:\n  E1: {executable: x, retries_after_failure: ~, ignore_timeouts: ~, invocations: ~}\n'
     'experiments:\n  X:\n    suites: [S1]\n    retries_after_failure: ~\n    executions:\n      - E1: {retries_after_failure: ~, iterations: ~}\n'),
    ('null-retries-runs', 'runs: {retries_after_failure: ~}\nbenchmark_suites:\n  S1: {gauge_adapter: Time, command: c, benchmarks: [b]}\n'
                          'executors:\n  E1: {executable: x}\nexperiments:\n  X: {suites: [S1], executions: [E1]}\n'),
    ('null-retries-benchmark', 'benchmark_suites:\n  S1: {gauge_adapter: Time, command: c, benchmarks: [{b: {retries_after_failure: }}]}\n'
                               'executors:\n  E1: {executable: x}\nexperiments:\n  X: {suites: [S1], executions: [E1]}\n'),
    ('float-edges-every-level',
     'runs: {max_invocation_time: .inf}\nbenchmark_suites:\n  S1:\n    gauge_adapter: Time\n    command: c\n    max_invocation_time: -.inf\n'
     '    benchmarks: [{b: {max_invocation_time: 1.0e+400, min_iteration_time: .nan}}]\n'
     'executors:\n  E1: {executable: x, retries_after_failure: .inf}\nexperiments:\n  X: {suites: [S1], executions: [{E1: {max_invocation_time: .NaN}}], min_iteration_time: -.Inf}\n'),
    ('max-invocation-time-inf', 'runs: {max_invocation_time: .inf}\nbenchmark_suites:\n  S1: {gauge_adapter: Time, command: c, benchmarks: [b]}\n'
                                'executors:\n  E1: {executable: x}\nexperiments:\n  X: {suites: [S1], executions: [E1]}\n'),
    ('max-invocation-time-huge-exp', 'benchmark_suites:\n  S1: {gauge_adapter: Time, command: c, benchmarks: [{b: {max_invocation_time: 1.0e+400}}]}\n'
                                     'executors:\n  E1: {executable: x}\nexperiments:\n  X: {suites: [S1], executions: [E1]}\n'),
    ('pif-inf', 'runs: {parallel_interference_factor: .inf}\nbenchmark_suites:\n  S1: {gauge_adapter: Time, command: c, benchmarks: [b]}\n'
                'executors:\n  E1: {executable: x}\nexperiments:\n  X: {suites: [S1], executions: [E1]}\n'),
    ('env-lone-apostrophe', 'runs:\n  env: {JAVA_OPTS: "-Dgreeting=it\'s", D: \'5" display\', W: \'C:\\data\\\'}\n'
                            'benchmark_suites:\n  S1: {gauge_adapter: Time, command: "c %(benchmark)s", benchmarks: [b]}\n'
                            'executors:\n  E1: {executable: x}\nexperiments:\n  X: {suites: [S1], executions: [E1]}\n'),
    ('env-tilde-and-quote', 'benchmark_suites:\n  S1: {gauge_adapter: Time, command: c, benchmarks: [{b: {env: {P: "~/it\'s", Q: "\\""}}}]}\n'
                            'executors:\n  E1: {executable: x}\nexperiments:\n  X: {suites: [S1], executions: [E1]}\n'),
    ('env-null-value-runs', 'runs:\n  env: {X: ~, Y: y}\nbenchmark_suites:\n  S1: {gauge_adapter: Time, command: c, benchmarks: [b]}\n'
                            'executors:\n  E1: {executable: x}\nexperiments:\n  X: {suites: [S1], executions: [E1]}\n'),
    ('env-null-value-every-level',
     'runs:\n  env: {R: null}\nmachines:\n  m1: {env: {M: }}\nbenchmark_suites:\n  S1:\n    gauge_adapter: Time\n    command: c\n    env: {S: ~}\n'
     '    benchmarks: [{b: {env: {B: ~}}}]\nexecutors:\n  E1: {executable: x, env: {E: ~}}\n'
     'experiments:\n  X: {suites: [S1], env: {X: ~}, executions: [{E1: {env: {D: ~}}}]}\n'),
    ('env-null-value-benchmark', 'benchmark_suites:\n  S1: {gauge_adapter: Time, command: c, benchmarks: [{b: {env: {B: }}}]}\n'
                                 'executors:\n  E1: {executable: x}\nexperiments:\n  X: {suites: [S1], executions: [E1]}\n'),
    ('pif-zero-non-exclusive', 'runs: {execute_exclusively: false, parallel_interference_factor: 0}\nbenchmark_suites:\n  S1: {gauge_adapter: Time, command: "c %(benchmark)s", benchmarks: [b1, b2]}\n'
                               'executors:\n  E1: {executable: x}\nexperiments:\n  X: {suites: [S1], executions: [E1]}\n'),
    ('pif-nan-non-exclusive', 'benchmark_suites:\n  S1: {gauge_adapter: Time, command: "c %(benchmark)s", execute_exclusively: false, parallel_interference_factor: .nan, benchmarks: [b1, b2, b3]}\n'
                              'executors:\n  E1: {executable: x}\nexperiments:\n  X: {suites: [S1], executions: [E1]}\n'),
    ('pif-denormal-non-exclusive', 'benchmark_suites:\n  S1: {gauge_adapter: Time, command: "c %(benchmark)s", execute_exclusively: false, benchmarks: [b1, {b2: {parallel_interference_factor: 1.0e-320}}]}\n'
                                   'executors:\n  E1: {executable: x}\nexperiments:\n  X: {suites: [S1], executions: [E1]}\n'),
    ('data-file-below-regular-file', 'benchmark_suites:\n  S1: {gauge_adapter: Time, command: c, benchmarks: [b]}\nexecutors:\n  E1: {executable: x}\n'
                                     'experiments:\n  X: {suites: [S1], executions: [E1], data_file: notes.txt/exp.data}\n'),
    ('default-data-file-below-regular-file', 'default_data_file: notes.txt/sub/all.data\nbenchmark_suites:\n  S1: {gauge_adapter: Time, command: c, benchmarks: [b]}\n'
                                             'executors:\n  E1: {executable: x}\nexperiments:\n  X: {suites: [S1], executions: [E1]}\n'),
    ('empty-key', 'benchmark_suites:\n  "": {gauge_adapter: Time, command: c, benchmarks: [b]}\n'),
]

CLI_VARIANTS = [[], [], [], ['X1'], ['X9'], ['all'], ['-m', 'm1'], ['-m', 'm9'], ['-q'], ['-in', '2'], ['-it', '3'],
                ['--setup-only'], ['-c'], ['-c'], ['-v'], ['-v'], ['-d', '-v']]


def cli_model(args):
    d = {'exp': None, 'machine': None, 'inv_override': False, 'it_override': False}
    i = 0
    while i < len(args):
        a = args[i]
        if a == '-m':
            d['machine'] = args[i + 1]
            i += 1
        elif a in ('-p', '-c', '-v', '-d'):
            pass
        elif a in ('-q', '--setup-only'):
            d['inv_override'] = True
            d['it_override'] = True
        elif a == '-in':
            d['inv_override'] = True
            i += 1
        elif a == '-it':
            d['it_override'] = True
            i += 1
        else:
            d['exp'] = a
        i += 1
    return d


# ------------------------------------------------------------------ implementation side
def run_impl(ck, text, cli, idx):
    """the real `main_func` on the YAML text with -E; returns (outcome class for the
    comparison, phase, frame that raised, result)"""
    wd = os.path.join(ck.scratch, 'w')
    os.makedirs(wd, exist_ok=True)
    if not os.path.exists(os.path.join(wd, 'notes.txt')):
        with open(os.path.join(wd, 'notes.txt'), 'w') as f:   # a regular file where a data file wants a directory
            f.write('not a directory\n')
    conf = os.path.join(wd, 'c%d.conf' % (idx % 50))
    with open(conf, 'w') as f:
        f.write(text)
    # `-p` (print the execution plan: command lines are rendered) instead of `-E` when asked for
    mode = ['-p'] if '-p' in cli else ['-E']
    # several CPUs: documents with two or more non-exclusive runs get the parallel scheduler constructed
    r = drive_config.run_main(wd, mode + [conf] + [a for a in cli if a != '-p'], cpu_count=1 if '-p' in cli else 8)
    st = r.status()
    phase = 'after-compile' if r.compiled else 'compile'
    where = None
    if r.crash:
        frames = [f for f in r.crash[2] if not f.startswith('core.py')]
        where = (frames or r.crash[2])[-1]
    return st, phase, where, r


def unreadable_files(ck, doc, cli=()):
    """the part of the file system the model is told about: configured data-file names that
    cannot be opened the way the session needs them — directories (opened for reading) and,
    with -c (discard old data: the file is truncated), names in a directory that is missing"""
    names = []
    if isinstance(doc, dict):
        dflt = doc.get('default_data_file', 'rebench.data')
        names.append(dflt)
        exps = doc.get('experiments')
        if isinstance(exps, dict):
            for e in exps.values():
                if isinstance(e, dict):
                    names.append(e.get('data_file'))
                    if e.get('action') == 'profile' and not e.get('data_file') and isinstance(dflt, str):
                        names.append(dflt + '.profiles')
    wd = os.path.join(ck.scratch, 'w')
    out = set()
    for n in names:
        if not isinstance(n, str) or not n or '\0' in n:
            continue
        full = os.path.join(wd, os.path.expanduser(n) if False else n)
        if os.path.isdir(full):
            out.add(n)
        elif '-c' in cli and not os.path.isdir(os.path.dirname(full) or wd):
            out.add(n)
    return sorted(out)


def is_recursive_text(text):
    try:
        return is_recursive(ref_load(text))
    except Exception:
        return False


def check_docs(ck, cases, variant_repaired=True, search=True):
    """cases: list of (kind, text, cli args, is_valid_generated)"""
    obs, ops = [], []
    to_search = []
    for i, case in enumerate(cases):
        kind, text, cli, valid = case[:4]
        group = case[4] if len(case) > 4 else None
        try:
            doc = ref_load(text)
            yaml_ok = True
        except yaml.YAMLError:
            doc, yaml_ok = None, False
        except RecursionError:
            continue
        recursive = yaml_ok and is_recursive(doc)
        st, phase, where, r = run_impl(ck, text, cli, ck.evaluations + i)
        ck.impl_traces += 1
        obs.append((kind, text, cli, valid, yaml_ok and not recursive, st, where, phase, r, group))
        if yaml_ok and not recursive:
            req = {'op': 'c19.compile', 'doc': to_wire(doc), 'repaired': variant_repaired,
                   'unreadable': unreadable_files(ck, doc, cli)}
            req.update(cli_model(cli))
            ops.append(req)
    answers = iter(ck.model(ops))
    groups = {}
    for (kind, text, cli, valid, yaml_ok, st, where, phase, r, group) in obs:
        if group is not None:
            groups.setdefault(group, []).append((kind, text, cli, st, r.runs))
        inp = {'mutation': kind, 'yaml': text, 'cli': cli}
        mclass = kind.split(':')[0]
        ck.count('mutation:' + mclass)
        ck.count('impl:' + st.split(':')[0] + ('/after-compile' if phase == 'after-compile' and st != 'ok' else ''))
        ck.case(nontrivial_key=(text, tuple(cli)) if st != 'ok' or valid else None,
                sample={'mutation': kind, 'cli': cli, 'outcome': st, 'yaml': text[:300]})
        # oracle
        if st.startswith('crash:'):
            ck.oracle_fail('no_traceback', inp, {'status': st, 'message': r.crash[1], 'frames': r.crash[2]},
                           signature={'clause': 'no_traceback', 'phase': phase, 'exception': st[6:],
                                      'raised_in': where, 'mutation': mclass})
        elif st not in ('ok', 'ui_error'):
            ck.oracle_fail('exit_status', inp, {'status': st}, signature={'clause': 'exit_status', 'status': st})
        if valid and st != 'ok':
            ck.oracle_fail('valid_accepted', inp, {'status': st, 'stderr': r.stderr[-400:], 'stdout': r.stdout[-400:]},
                           signature={'clause': 'valid_accepted', 'status': st})
        if not yaml_ok and is_recursive_text(text):
            ck.count('recursive-document(oracle only)')
            continue
        if not yaml_ok:
            if st != 'ui_error':
                ck.oracle_fail('yaml_error_diagnosed', inp, {'status': st}, signature={'clause': 'yaml_error_diagnosed'})
            continue
        ans = next(answers)
        if 'err' in ans:
            raise lib.InfraError('model rejected the request for %r' % text[:200])
        ck.count('model:' + ans['outcome'].split(':')[0] + ('' if ans['schema_ok'] else '/schema'))
        if ans['raised']:
            ck.count('model-raises:' + ans['raised'])
        # a diagnostic after the configuration was compiled (e.g. an unknown %(key)s in a
        # command, C03) is outside the model: the configuration itself was accepted
        # (and a traceback there is the oracle's business: the model ends with the compilation)
        cmp_st = 'ok' if phase == 'after-compile' else st
        if ans['outcome'] != cmp_st:
            ck.disagree('c19.compile: outcome class vs RB.ConfigDoc.compile', inp,
                        {'outcome': st, 'raised_in': where, 'message': r.crash[1] if r.crash else None},
                        {'outcome': ans['outcome'], 'schema_ok': ans['schema_ok'], 'raised': ans['raised']}, THEOREMS)
            if not st.startswith('crash:'):
                to_search.append((text, cli))
    # documents of one group are the same configuration written differently (anchors, aliases,
    # merge keys with overrides): all accepted, with the same set of runs
    for g, members in groups.items():
        ref = members[0]
        for m in members[1:]:
            ck.count('factored-vs-plain compared')
            # with --setup-only ReBench keeps, for every distinct build, ONE of the runs that need it; which one is
            # not specified (it follows the iteration order of a set), so only their number is compared there
            setup_only = '--setup-only' in (m[2] or [])
            same_runs = (len(m[4]) == len(ref[4])) if setup_only else (m[4] == ref[4])
            if m[3] != ref[3] or (m[3] == 'ok' and not same_runs):
                ck.oracle_fail('anchors_equivalent', {'mutation': m[0], 'yaml': m[1], 'cli': m[2], 'plain_yaml': ref[1]},
                               {'plain': {'status': ref[3], 'runs': ref[4]}, 'factored': {'status': m[3], 'runs': m[4]}},
                               signature={'clause': 'anchors_equivalent', 'plain': ref[3], 'factored': m[3]})
    if search and to_search and ck.dist.get('neighbourhood-searches', 0) < 3:
        neighbourhood(ck, to_search[:3], variant_repaired)


def neighbourhood(ck, items, variant_repaired):
    """a disagreement without oracle failure: evaluate the oracle on mutations of the input"""
    import random
    rng = random.Random(4711)
    cases = []
    for (text, cli) in items:
        ck.count('neighbourhood-searches')
        try:
            doc = ref_load(text)
        except Exception:
            continue
        if not isinstance(doc, (dict, list)):
            continue
        for _ in range(25):
            try:
                k, m = mutate(rng, doc)
                cases.append(('search:' + k.split(':')[0], dump(m), cli, False))
            except Exception:
                continue
    check_docs(ck, cases, variant_repaired, search=False)


DETAIL_KEYS = ['invocations', 'iterations', 'warmup', 'max_invocation_time', 'min_iteration_time',
               'retries_after_failure', 'ignore_timeouts', 'execute_exclusively', 'env']
VAR_KEYS = ['input_sizes', 'cores', 'variable_values', 'tags']


def same_doc(o):
    """canonical form for comparing parsed documents (NaN equals itself, key order irrelevant)"""
    if isinstance(o, dict):
        return ('m', sorted(((repr(k), same_doc(v)) for k, v in o.items()), key=lambda kv: kv[0]))
    if isinstance(o, list):
        return ('l', [same_doc(x) for x in o])
    return repr(o)


def detail_maps(cfg):
    """the maps of a configuration that may carry run details: (map, may it carry variables too)
    — runs, machines, suites, executors, experiments, benchmark details, execution details"""
    targets = []
    if not isinstance(cfg, dict):
        return targets

    def dicts(x):
        return [v for v in x.values() if isinstance(v, dict)] if isinstance(x, dict) else []
    if isinstance(cfg.get('runs'), dict):
        targets.append((cfg['runs'], False))
    for sec in ('benchmark_suites', 'executors', 'experiments', 'machines'):
        for v in dicts(cfg.get(sec)):
            targets.append((v, True))
    for sv in dicts(cfg.get('benchmark_suites')):
        bs = sv.get('benchmarks')
        for b in (bs if isinstance(bs, list) else []):
            for det in dicts(b):
                targets.append((det, True))
    for xv in dicts(cfg.get('experiments')):
        es = xv.get('executions')
        for e in (es if isinstance(es, list) else []):
            for det in dicts(e):
                targets.append((det, True))
    return targets


# YAML scalars on the edges of each type, for every run detail on every level
EDGE = [1e-320, 5e-324, float('inf'), float('-inf'), float('nan'), 1e308, 1e100, -0.0, 0.5, 2.5, 90.0, 10 ** 30, -(10 ** 30), 2 ** 63, 0, -1,
        True, False, None, '', '1e5', '.inf', 'inf', 'nan', '0x10', '1_000', '5', '5!', ' 5', '-3', '+3']
EDGE_KEYS = ['invocations', 'iterations', 'warmup', 'min_iteration_time', 'max_invocation_time', 'retries_after_failure',
             'ignore_timeouts', 'execute_exclusively', 'parallel_interference_factor']


def factor(rng, cfg):
    """the same configuration written with anchors, aliases and merge keys: common settings
    are moved into anchored maps under a dot key and merged with `<<`, some of the merged
    keys are overridden by the map itself (the documented way to share settings); identical
    sub-documents become aliases. Returns YAML text, or None if nothing could be factored."""
    cfg = copy.deepcopy(cfg)
    MERGE = '__verif_merge__'
    defs = {}
    n = 0
    # every repeated non-empty sub-document (map or list) may become an alias of its first
    # occurrence: the loaded configuration then contains the *same* object in several places
    # (execution details, experiments, executors, benchmark lists, suite lists, env maps ...)
    if rng.random() < 0.75:
        seen = []

        def share(node):
            nonlocal n
            items = list(node.items()) if isinstance(node, dict) else list(enumerate(node))
            for k, v in items:
                if isinstance(v, (dict, list)) and len(v) > 0:
                    hit = None
                    for o in seen:
                        if type(o) is type(v) and o == v and o is not v:
                            hit = o
                            break
                    if hit is not None and rng.random() < 0.85:
                        node[k] = hit
                        n += 1
                        continue
                    seen.append(v)
                    share(v)
        share(cfg)
    targets = detail_maps(cfg)
    for (m, with_vars) in targets:
        if MERGE in m:
            continue   # reached a second time through an alias
        allowed = DETAIL_KEYS + (VAR_KEYS if with_vars else [])
        mine = [k for k in m if k in allowed]
        if rng.random() < 0.35:
            continue
        moved = [k for k in mine if rng.random() < 0.5]
        anchor = {k: m[k] for k in moved}
        # keys the anchored map sets as well and the map overrides
        for k in mine:
            if k not in moved and rng.random() < 0.6:
                anchor[k] = rng.choice([1, 7, '9!']) if k in ('invocations', 'iterations', 'warmup') else copy.deepcopy(m[k])
        # settings the map does not have cannot be added (they would change the configuration)
        if not anchor:
            if not mine and rng.random() < 0.5:
                continue
            anchor = {}
        if not anchor:
            continue
        n += 1
        name = 'd%d' % n
        defs[name] = anchor
        rest = [(k, m[k]) for k in m if k not in moved]
        m.clear()
        m[MERGE] = anchor
        for k, v in rest:
            m[k] = v
    # aliases for identical sub-documents: the second of two equal executors / benchmark lists
    ex = cfg.get('executors') or {}
    names = list(ex)
    for i in range(1, len(names)):
        if ex[names[i]] == ex[names[0]]:
            ex[names[i]] = ex[names[0]]
            n += 1
    sv = list((cfg.get('benchmark_suites') or {}).values())
    for i in range(1, len(sv)):
        if sv[i].get('benchmarks') == sv[0].get('benchmarks'):
            sv[i]['benchmarks'] = sv[0]['benchmarks']
            n += 1
    if n == 0:
        return None
    out = {'.defs': defs} if defs else {}
    out.update(cfg)
    text = yaml.safe_dump(out, default_flow_style=False, sort_keys=False)
    return text.replace(MERGE + ':', '<<:')


def dump(cfg):
    return yaml.safe_dump(cfg, default_flow_style=False, sort_keys=False)


def load_corpus():
    d = os.path.join(lib.VERIF, 'harness', 'corpus', 'C19')
    out = []
    if os.path.isdir(d):
        for f in sorted(os.listdir(d)):
            if f.endswith('.json'):
                inp = json.load(open(os.path.join(d, f)))['input']
                out.append((inp['mutation'], inp['yaml'], inp['cli'], inp['mutation'] == 'valid'))
    return out


def run(ck):
    quick = ck.tier == 'quick'
    repaired = os.environ.get('VERIF_C19_VARIANT') != 'pinned'
    ck.rule = ('valid generated configurations (1-2 suites / executors / experiments, run details and variables on every '
               'level, machines, reporting, builds, profilers, dot keys) and 1-3 random mutations of each (drop a key, '
               'null / empty / wrong-typed value from a pool of 45, unknown / dot / non-string keys, dangling names, '
               'two-key and wrapped entries), CLI variants (experiment name, -m, -q, -in, -it, --setup-only), plus a '
               'hand-kept list of YAML texts (anchors, merge keys, non-mapping roots, empty documents, malformed YAML); '
               'real `-E` session vs RB.ConfigDoc.compile on the parsed document, compared on the outcome class; '
               'non-trivial = distinct document that is a valid generated one or is not accepted')
    ck.assumptions = ['PyYAML (safe_load) is shared by both sides: the model starts from the parsed document',
                      'pykwalify 1.8 semantics are re-stated in RB.ConfigDoc.validate for the constructs the schema uses',
                      'the model ends where the configuration is compiled; the rest of the -E session (data loading, '
                      'command-line rendering, the rendering of error messages by main_func) is covered by the oracle only: '
                      'any traceback of the session is an oracle failure (signature phase: after-compile)']
    cases = load_corpus()
    ck.count('corpus', len(cases))
    cases += [(k, t, [], k.startswith(('null-details-', 'null-retries-', 'quoted-invocations', 'anchor-merge', 'profile-ok', 'env-lone', 'env-tilde', 'pif-zero', 'pif-nan', 'pif-denormal', 'pif-inf', 'pif-string'))) for (k, t) in ANCHOR_TEXTS]
    cases += [(k + '/-p', t, ['-p'], k.startswith(('env-lone', 'env-tilde'))) for (k, t) in ANCHOR_TEXTS if k.startswith(('command-', 'quoted-', 'anchor-merge', 'env-lone', 'env-tilde', 'env-null-value'))]
    n = 180 if quick else 3000
    for _ in range(n):
        cfg = gen_valid(ck.rng)
        cli = ck.rng.choice(CLI_VARIANTS)
        needs_m = '-m' in cli and cli[1] == 'm1'
        needs_x = cli == ['X1']
        if needs_m:
            cfg.setdefault('machines', {'m1': {}})
        valid = cli not in (['X9'], ['-m', 'm9']) and (not needs_x or 'X1' in cfg['experiments'])
        if cfg.get('default_experiment', 'all') != 'all' and cfg['default_experiment'] not in cfg['experiments']:
            valid = False
        if '-c' in cli and unreadable_files(ck, cfg, cli):
            valid = False   # -c has to truncate a data file whose directory does not exist
        if any(isinstance(x, dict) and str(x.get('data_file', '')).startswith('notes.txt/') for x in cfg['experiments'].values()):
            valid = False   # a data file below a regular file cannot be read: rejected with a diagnostic when the data is loaded
        grp = len(cases)
        cases.append(('valid' if valid else 'dangling-cli', dump(cfg), cli, valid, grp))
        ftext = factor(ck.rng, cfg)
        if ftext is not None:
            # parsed, the factored text must be the same configuration (plus the dot key)
            back = ref_load(ftext)
            back.pop('.defs', None)
            if same_doc(back) != same_doc(cfg):
                raise lib.InfraError('factoring changed the configuration')
            cases.append(('valid-factored' if valid else 'dangling-cli-factored', ftext, cli, valid, grp))
        for _m in range(3):
            k, m = mutate(ck.rng, cfg)
            if ck.rng.random() < 0.3:
                k2, m = mutate(ck.rng, m)
                k = k + '+' + k2.split(':')[0]
            try:
                text = dump(m)
            except Exception:
                continue
            cases.append((k, text, cli if ck.rng.random() < 0.5 else [], False))
    cli_sessions(ck, not quick)
    # keep the members of a group in one batch
    i = 0
    while i < len(cases):
        j = min(len(cases), i + 400)
        while j < len(cases) and len(cases[j]) > 4 and len(cases[j - 1]) > 4 and cases[j][4] == cases[j - 1][4]:
            j += 1
        check_docs(ck, cases[i:j], repaired)
        i = j


CLI_CONFIG = """default_data_file: cli.data
benchmark_suites:
  S1: {gauge_adapter: RebenchLog, command: "h %(benchmark)s %(input)s", input_sizes: [2, 10], benchmarks: [b1, b2]}
executors:
  E1: {path: bin, executable: vm}
experiments:
  X: {suites: [S1], executions: [E1]}
"""


def cli_sessions(ck, thorough):
    """the real CLI in child processes: a valid configuration is accepted whatever the process is
    started in — the working directory (or --git-repo) is a git repository whose HEAD is ASCII, UTF-8,
    printed in Latin-1, or a raw Latin-1 commit object; the locale is UTF-8 or C"""
    kinds = ['ascii', 'utf8', 'latin1-log', 'latin1-raw', 'unborn']
    scen = []
    for kind in kinds:
        scen.append((kind, 'cwd', {}))
    scen.append(('latin1-raw', 'git-repo', {}))
    scen.append(('unborn', 'git-repo', {}))
    scen.append(('latin1-log', 'cwd', {'LC_ALL': 'C', 'PYTHONUTF8': '0', 'PYTHONCOERCECLOCALE': '0'}))
    if thorough:
        scen += [(k, 'git-repo', {'LC_ALL': 'C', 'PYTHONUTF8': '0', 'PYTHONCOERCECLOCALE': '0'}) for k in kinds]
    repos = {}
    for i, (kind, where, env) in enumerate(scen):
        if kind not in repos:
            repos[kind] = drive_config.make_git_repo(os.path.join(ck.scratch, 'git-' + kind), kind)
        repo = repos[kind]
        wd = repo if where == 'cwd' else os.path.join(ck.scratch, 'cli-plain')
        os.makedirs(wd, exist_ok=True)
        conf = os.path.join(wd, 'cli.conf')
        with open(conf, 'w') as f:
            f.write(CLI_CONFIG)
        argv = ['-E'] + (['--git-repo', repo] if where == 'git-repo' else []) + [conf]
        r = drive_config.run_cli(wd, argv, env)
        ck.impl_traces += 1
        st = r.status()
        inp = {'mutation': 'valid', 'yaml': CLI_CONFIG, 'cli': argv[:-1], 'process': {'git_head': kind, 'repository': where, 'env': env}}
        ck.count('cli-session:git-' + kind)
        ck.case(nontrivial_key=('cli', kind, where, json.dumps(env, sort_keys=True)))
        if r.crash:
            ck.oracle_fail('no_traceback', inp, {'status': st, 'stderr': r.stderr[-500:]},
                           signature={'clause': 'no_traceback', 'phase': 'cli', 'exception': r.crash[0], 'git_head': kind})
        elif st != 'ok':
            ck.oracle_fail('valid_accepted', inp, {'status': st, 'stderr': r.stderr[-500:], 'stdout': r.stdout[-300:]},
                           signature={'clause': 'valid_accepted', 'status': st, 'git_head': kind})


def replay(ck, data):
    if data['input'].get('process'):
        cli_sessions(ck, False)
        return
    inp = data['input']
    check_docs(ck, [(inp['mutation'], inp['yaml'], inp['cli'], inp['mutation'] == 'valid')],
               os.environ.get('VERIF_C19_VARIANT') != 'pinned')
