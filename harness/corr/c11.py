"""C11 — execution order never changes what is executed or recorded.

Correspondence
* sequential schedulers: the same scenario under batch, round-robin and random
  (recorded choice streams) through the real schedulers, against
  `RB.Sched.session` (op `c11.session`);
* parallel scheduler: 2-12 non-exclusive runs, `cpu_count` patched, under the
  deterministic thread controller (`drive_sched.Controller`): the observed
  sequence of process starts / ends is handed to the abstract scheduler of the
  model (`RB.Sched.exec` over `halfSys`, op `c11.exec`), which must find it a
  valid and complete pick sequence producing the same trace and final states;
* free-running parallel sessions with a data-file object that yields the
  processor between writes (contiguity of the lines of one data point).

Oracle (independent of the model): multiset of (run, invocation) starts,
multiset of data-file rows and per-run ending equal to those of the batch
session; the lines of one data point are adjacent in every file.
"""
import json
import os
import time

import lib
import drive_sched as ds
from corr import c04

THEOREMS = ['RB.Sched.c11_schedule_independent_partial', 'RB.Sched.c11_sequential_is_instance_partial']
THEOREMS_ABS = ['RB.Sched.c11_schedule_independent_abstract', 'RB.Sched.c11_schedule_independent_abstract_perm',
                'RB.Sched.c11_datapoint_contiguous']

OK = {'rc': 0, 'dps': 1}


def add_builds(rng, scn):
    """executor builds (shared by all runs of the executor) and suite builds (private to a run), some failing"""
    runs = scn['runs']
    fail = {}
    exes = sorted(set(r['exe'] for r in runs))
    for x in exes:
        if rng.random() < 0.5:
            for r in runs:
                if r['exe'] == x:
                    r['ebuild'] = x
            if rng.random() < 0.4:
                fail['e%d' % x] = 1
    # differently named executors in the same directory with the same build command: ONE build (command, location)
    if len(exes) >= 2 and rng.random() < 0.5:
        grp = rng.sample(exes, rng.randint(2, min(3, len(exes))))
        bid = min(grp)
        for r in runs:
            if r['exe'] in grp:
                r['ebuild'] = bid
        for x in grp:
            fail.pop('e%d' % x, None)
        if rng.random() < 0.3:
            fail['e%d' % bid] = 1
        scn['shared_build_other_names'] = True
    for i, r in enumerate(runs):
        if rng.random() < 0.3:
            r['sbuild'] = i
            if rng.random() < 0.4:
                fail['s%d' % i] = 1
    if not fail and rng.random() < 0.5:
        # make sure failing builds are common: fail one that exists, or add a failing private one
        i = rng.randrange(len(runs))
        if runs[i].get('ebuild') is not None and rng.random() < 0.5:
            fail['e%d' % runs[i]['ebuild']] = 1
        else:
            runs[i]['sbuild'] = i
            fail['s%d' % i] = 1
    # executors in different directories with textually identical build commands (a build = script + location)
    if rng.random() < 0.35 and not scn.get('shared_build_other_names'):
        for r in runs:
            r['file'] = r['exe'] % 2
            if r.get('ebuild') is not None:
                r['ebuild_text'] = 0
    scn['fail_builds'] = fail
    return scn


def build_failed_runs(scn):
    fb = scn.get('fail_builds') or {}
    out = set()
    for i, r in enumerate(scn['runs']):
        if (r.get('ebuild') is not None and 'e%d' % r['ebuild'] in fb) or (r.get('sbuild') is not None and 's%d' % r['sbuild'] in fb):
            out.add(i)
    return out


def gen_scenario(rng, n_min, n_max, parallel, with_127):
    n = rng.randint(n_min, n_max)
    n_exe = rng.choice([1, 2, n])
    runs, scripts = [], []
    for i in range(n):
        r = {'N': rng.randint(1, 3), 'retries': rng.choice([0, 1, 2, 3]), 'exe': rng.randrange(n_exe),
             'excl': (not parallel) or False, 'warmup': rng.choice([None, None, 1])}
        if parallel and rng.random() < 0.15 and n > 3:
            r['excl'] = True
        if parallel and rng.random() < 0.3:
            # a configured interference factor (also larger than the number of cores): whatever degree of parallelism
            # it leads to, every non-exclusive run is executed
            r['pif'] = rng.choice([1.0, 2.5, 4.0, 10.5, 40.0])
        s = []
        kind = rng.choice(['ok', 'ok', 'flaky', 'flaky', 'fails', 'late', 'alternating'])
        if kind == 'alternating':
            # the first attempt of every invocation fails: never `retries` failures in a row, more failures in
            # total than `retries`
            r['N'] = rng.randint(2, 4)
            r['retries'] = rng.choice([2, 2, 3])
        for k in range(r['N'] + 8):
            if kind == 'alternating':
                s.append({'rc': 1, 'dps': 0} if k % 2 == 0 else {'rc': 0, 'dps': rng.choice([1, 2])})
            elif kind == 'ok':
                s.append({'rc': 0, 'dps': rng.choice([1, 2, 3])})
            elif kind == 'flaky':
                s.append({'rc': 0, 'dps': rng.choice([1, 2])} if rng.random() < 0.6
                         else dict(rng.choice([{'rc': 1, 'dps': 0}, {'rc': 0, 'dps': 0}, {'rc': 0, 'dps': 1, 'marker': True},
                                               {'rc': -9, 'dps': 1}])))
            elif kind == 'fails':
                s.append({'rc': 1, 'dps': 0})
            else:
                s.append({'rc': 0, 'dps': 1} if k < r['N'] - 1 else {'rc': 3, 'dps': 1})
        runs.append(r)
        scripts.append(s)
    if with_127:
        # one or a few runs meet a missing executable; the others are ordinary
        hit = [i for i in range(n) if rng.random() < 0.4] or [rng.randrange(n)]
        for i in hit:
            scripts[i].insert(rng.randint(0, min(2, runs[i]['N'])), {'rc': 127, 'dps': 0})
    return {'runs': runs}, scripts


def adapter_scenario(rng, n_min, n_max, parallel):
    """custom gauge adapters loaded from different files, some with the same class name, one named like the
    built-in RebenchLog adapter, next to runs using the built-in one: every run is parsed by its own adapter"""
    n = rng.randint(n_min, n_max)
    runs, scripts = [], []
    variants = rng.sample([1, 2, 3], 3)
    for i in range(n):
        r = {'N': rng.randint(1, 2), 'retries': rng.choice([0, 1]), 'exe': i, 'excl': not parallel}
        if i < 3 and rng.random() < 0.8:
            r['custom'] = {'variant': variants[i], 'cls': rng.choice(['MyAdapter', 'MyAdapter', 'RebenchLog', 'Other'])}
        sc = [{'rc': 0, 'dps': rng.choice([1, 2])} if rng.random() < 0.8 else {'rc': 1, 'dps': 0} for _ in range(r['N'] + 4)]
        runs.append(r)
        scripts.append(sc)
    return {'runs': runs}, scripts


def check_own_adapter(ck, inp, scn, obs, what):
    """the value recorded for a run is the one its own adapter yields (custom variant v adds 0.25 * v)"""
    for row in obs['file']['rows']:
        if row[0] < 0 or row[3] != 'total':
            continue
        c = scn['runs'][row[0]].get('custom')
        want = 0.25 * (c.get('variant', 0) if c else 0)
        if abs((row[4] % 1.0) - want) > 1e-6:
            ck.oracle_fail('parsed_by_own_adapter', inp, {'scheduler': what, 'row': row, 'expected_fraction': want,
                                                          'adapter': c or 'RebenchLog'},
                           signature={'adapter_names_collide': True})
            return False
    return True


def exception_scenario(rng):
    """non-exclusive runs some of whose command lines cannot be built (unknown format key): the worker thread that
    gets one ends with an exception. Few enough runs that every share of work is a single run."""
    cpu = rng.choice([8, 16])
    t = int(cpu / 2.5)
    n = rng.randint(3, 2 * t - 1)
    # at most threads - 1 failing runs: a worker that ends with an exception does not come back, and at least one
    # has to survive to take the rest of the work
    bad = set(rng.sample(range(n), rng.randint(1, min(t - 1, n - 1))))
    runs = [{'N': rng.randint(1, 3), 'retries': 0, 'exe': i, 'excl': False, 'badcmd': i in bad} for i in range(n)]
    scripts = [[{'rc': 0, 'dps': 1}] * 4 for _ in range(n)]
    return {'runs': runs}, scripts, cpu


def exception_sessions(ck, scn, scripts, cpu, schedules, tag):
    first = None
    for schedule in schedules:
        wd = c04._mkwd(ck)
        sess = {'sched': 'batch', 'scripts': scripts, 'cpu': cpu, 'schedule': schedule}
        inp = {'kind': 'parallel-exception', 'scn': scn, 'scripts': scripts, 'cpu': cpu, 'schedule': schedule,
               'exception_runs': True}
        obs = ds.run_session(wd, scn, sess)
        ck.impl_traces += 1
        ck.count('exception-session:' + obs['status'])
        ck.case(nontrivial_key=(tag, json.dumps(scn, sort_keys=True), cpu, str(schedule)),
                sample={'exception_runs': sum(1 for r in scn['runs'] if r.get('badcmd')), 'status': obs['status']})
        if not session_ok(ck, inp, obs):
            return
        check_chunks(ck, inp, scn, obs, cpu)
        cur = {'starts': sorted([r, inv] for (kind, r, inv) in obs['log'] if kind == 'start'),
               'rows': sorted(obs['file']['rows']), 'status': obs['status']}
        if first is None:
            first = cur
        elif cur != first:
            key = [k for k in cur if cur[k] != first[k]][0]
            ck.oracle_fail('schedule_independent', inp, {'differs': key, 'first_schedule': first[key], 'this_schedule': cur[key]},
                           signature={'differs': key, 'a_process_returns_127': False, 'parallel': True,
                                      'worker_exception': True})
            return
        bad = contiguous(obs['file']['rows'])
        if bad:
            ck.oracle_fail('datapoint_contiguous', inp, {'first': bad[:3]}, signature={'parallel': True})


def resumed_scenario(ck, tag, fixed=None):
    """history: an earlier session is interrupted part-way, the build products are gone, the experiment is continued
    under every scheduler: a continued run needs its (shared) build again before its first process of THIS session"""
    import shutil
    from corr import c10
    rng = ck.rng
    n = rng.randint(2, 4)
    n_exe = rng.choice([1, 2, 2])
    runs = []
    for i in range(n):
        r = {'N': rng.randint(2, 3), 'retries': 0, 'exe': rng.randrange(n_exe), 'excl': True}
        r['ebuild'] = r['exe'] if rng.random() < 0.8 else None
        if r['ebuild'] is None:
            del r['ebuild']
        if rng.random() < 0.3:
            r['sbuild'] = i
        runs.append(r)
    eb = dict((r['exe'], r['ebuild']) for r in runs if r.get('ebuild') is not None)
    for r in runs:
        if r['exe'] in eb:
            r['ebuild'] = eb[r['exe']]
    scn = {'runs': runs, 'fail_builds': {}}
    scripts = [[{'rc': 0, 'dps': 1}] * (r['N'] + 2) for r in runs]
    total = sum(r['N'] for r in runs)
    stop_at = rng.randint(2, max(2, total - 1))
    first_sched = rng.choice(['batch', 'round-robin'])
    if fixed is not None:
        scn, scripts, stop_at, first_sched = fixed['scn'], fixed['scripts'], fixed['stop_at'], fixed.get('first_sched', 'batch')
        runs = scn['runs']
    wd0 = c04._mkwd(ck)
    first = c10.run_with_interrupt(wd0, scn, {'sched': first_sched, 'scripts': scripts, 'cpu': 1,
                                              'builds': {}, 'needs_build': True}, stop_at)
    ck.impl_traces += 1
    before = first['file']['rows']
    ck.count('resumed:first session %s' % first['status'])
    plans = [('batch', []), ('round-robin', [])] + [('random', [rng.randrange(64) for _ in range(80)]) for _ in range(3)]
    if fixed is not None and fixed.get('sched') not in (None, 'batch'):
        plans = [('batch', []), (fixed['sched'], fixed.get('choices') or [])]
    ref = None
    data_file = os.path.join(wd0, 't.data')
    saved = open(data_file, 'rb').read() if os.path.exists(data_file) else None
    for sched, choices in plans:
        # the same directory (the run identity contains absolute paths): the data file is put back to what the
        # interrupted session left
        wd = wd0
        if saved is None:
            if os.path.exists(data_file):
                os.unlink(data_file)
        else:
            with open(data_file, 'wb') as f:
                f.write(saved)
        sess = {'sched': sched, 'choices': choices, 'scripts': scripts, 'cpu': 1, 'builds': {}, 'needs_build': True}
        inp = {'kind': 'resumed', 'scn': scn, 'scripts': scripts, 'stop_at': stop_at, 'sched': sched, 'choices': choices,
               'first_sched': first_sched,
               'recorded_before': sorted(set((r[0], r[1]) for r in before))}
        obs = ds.run_session(wd, scn, sess)
        ck.impl_traces += 1
        if not session_ok(ck, inp, obs):
            return
        obs['file_new'] = obs['file']['rows'][len(before):]
        ck.case(nontrivial_key=(tag, json.dumps(scn, sort_keys=True), stop_at, sched, str(choices[:10])),
                sample={'resumed_runs': len(runs), 'stop_at': stop_at, 'sched': sched})
        if obs.get('unbuilt_starts'):
            ck.oracle_fail('built_before_first_process_of_the_session', inp, {'starts_without_build': obs['unbuilt_starts']},
                           signature={'history': 'continued run'})
        init = [{'maxInv': obs['loaded'][i][0], 'samples': obs['loaded'][i][1]} if i in obs['loaded']
                else {'maxInv': 0, 'samples': 0} for i in range(len(runs))]
        op = c04.session_op('c11.session', scn, sess, obs['order'], init=init)
        c04.queue_of(ck).add(op, lambda ans, inp=inp, obs=obs: c04.compare_session(ck, 'c11.session(resumed)', inp, obs, ans, THEOREMS))
        if ref is None:
            ref = obs
        else:
            compare_with_batch(ck, inp, ref, obs, sched, 0)


def check_lines_resolve(ck, inp, scn, obs, what):
    """every data file stands on its own: the run number at the end of a line resolves, through the `# run_id:` /
    `# benchmark:` records of THAT file, to the run the line names; shared runs have the same lines in both files"""
    files = obs.get('raw_files')
    if not files:
        return True
    per_file_rows = {}
    for name, d in files.items():
        bench = dict(d['bench_meta'])
        run_to_bench = {}
        for rid, meta in d['run_meta']:
            run_to_bench[rid] = (bench.get(meta.get('benchmark_id')) or {}).get('name')
        for cols in d['rows']:
            try:
                rid = int(cols[-1])
            except ValueError:
                rid = None
            if run_to_bench.get(rid) != cols[5]:
                ck.oracle_fail('line_resolves_to_its_run_in_its_file', inp,
                               {'scheduler': what, 'file': name, 'line': cols, 'run_number_resolves_to': run_to_bench.get(rid),
                                'records_of_the_file': sorted(run_to_bench.items())},
                               signature={'files': 2})
                return False
            per_file_rows.setdefault(name, {}).setdefault(cols[5], []).append(cols[:5])
    for i in scn.get('second_file_runs') or []:
        a = sorted(per_file_rows.get('t.data', {}).get('B%d' % i, []))
        b = sorted(per_file_rows.get('t2.data', {}).get('B%d' % i, []))
        if a != b:
            ck.oracle_fail('shared_run_recorded_in_both_files', inp, {'scheduler': what, 'run': i, 't.data': a, 't2.data': b},
                           signature={'files': 2})
            return False
    return True


def has_127(scripts):
    return any(o.get('rc') == 127 for s in scripts for o in s)


def summary(obs, rows=None):
    """what the property compares: multisets of starts and rows, per-run ending"""
    rows = obs['file']['rows'] if rows is None else rows
    starts = sorted([r, inv] for (kind, r, inv) in obs['log'] if kind == 'start')
    recorded = {}
    for row in rows:
        if row[3] == 'total':
            recorded.setdefault(row[0], set()).add(row[1])
    ending = {}
    for i, f in obs['final'].items():
        ending[int(i)] = [len(recorded.get(int(i), ())), 'complete' if f['maxInv'] >= f['N'] else 'abandoned']
    return {'starts': starts, 'commands': sorted(obs.get('commands') or []), 'rows': sorted(rows), 'ending': ending}


def contiguous(rows):
    """every data point = consecutive lines of one (run, invocation, iteration), the 'total' line last
    (RebenchLog scenarios: alloc, total; Time adapter: MaxRSS, total or user, sys, total)"""
    bad = []
    i = 0
    while i < len(rows):
        j = i
        while j < len(rows) and rows[j][0] != -2 and rows[j][3] != 'total':
            j += 1
        if j >= len(rows) or rows[j][0] == -2:
            bad.append({'at': i, 'line': rows[i], 'reason': 'data point without total line'})
            i = j + 1
            continue
        key = rows[j][:3]
        for x in range(i, j):
            if rows[x][:3] != key:
                bad.append({'at': x, 'line': rows[x], 'total_line': rows[j]})
                break
        i = j + 1
    return bad


def time_adapter_scenario(rng, n_min, n_max, parallel):
    """runs measured with the Time adapter (wrapped by a `time` binary whose availability is probed first)"""
    n = rng.randint(n_min, n_max)
    runs, scripts = [], []
    for i in range(n):
        r = {'N': rng.randint(1, 3), 'retries': rng.choice([0, 1, 2]), 'exe': i, 'excl': not parallel, 'gauge': 'Time'}
        kind = rng.choice(['ok', 'ok', 'flaky', 'fails'])
        sc = []
        for k in range(r['N'] + 6):
            if kind == 'ok' or (kind == 'flaky' and rng.random() < 0.6):
                sc.append({'rc': 0, 'dps': 1})
            else:
                sc.append(dict(rng.choice([{'rc': 1, 'dps': 0}, {'rc': 0, 'dps': 0}, {'rc': 2, 'dps': 1}])))
        runs.append(r)
        scripts.append(sc)
    probe = rng.choice([{}, {}, {'/usr/bin/time': 1, '/opt/local/bin/gtime': 0},
                        {'/usr/bin/time': 1, '/opt/local/bin/gtime': 1},
                        {'/usr/bin/time': 'oserror', '/opt/local/bin/gtime': 'oserror'}])
    return {'runs': runs, 'time_probe': probe}, scripts


def session_ok(ck, inp, obs):
    if obs.get('ctl_error'):
        raise lib.InfraError('thread controller: %s' % obs['ctl_error'])
    end = obs.get('at_end')
    if end is not None and (end['workers_alive'] or end['blocked']):
        ck.oracle_fail('workers_running_after_session_end', inp,
                       {'status': obs['status'], 'workers_alive': end['workers_alive'], 'processes_running': end['blocked']},
                       signature={'status': obs['status']})
        return False
    allowed = ('ok', 'failed', 'ui_error', 'thread_exc') if inp.get('exception_runs') else ('ok', 'failed')
    if obs['crash'] or obs['status'] not in allowed or obs['unknown_starts'] or obs['order'] is None:
        ck.oracle_fail('session_ends_cleanly', inp, {'status': obs['status'], 'crash': obs['crash'], 'tail': obs['out_tail'][-300:]},
                       signature={'status': obs['status'], 'exception': (obs['crash'] or [None])[0]})
        return False
    return True


def per_run_view(obs):
    v = {}
    for (kind, r, inv) in obs['log']:
        if kind == 'start':
            v.setdefault(r, {'starts': [], 'rows': []})['starts'].append(inv)
    for row in obs['file']['rows']:
        v.setdefault(row[0], {'starts': [], 'rows': []})['rows'].append(row[1:])
    for r in v:
        v[r]['starts'].sort()
        v[r]['rows'].sort()
    return v


def cut_short_by_missing_executable(inp, ref, obs):
    """is the difference between the two sessions confined to runs that were cut short because an executable
    turned out to be missing (their own process returned 127, or a run of the same executable did and they were
    marked to fail immediately)? How much such a run had done by then depends on the schedule (recorded finding)."""
    scn = inp.get('scn') or {}
    va, vb = per_run_view(ref), per_run_view(obs)
    differing = [q for q in sorted(set(va) | set(vb)) if va.get(q) != vb.get(q)]
    fa, fb = ref.get('final') or {}, obs.get('final') or {}
    for q in set(fa) | set(fb):
        if q not in differing and (fa.get(q, {}).get('maxInv'), ) != (fb.get(q, {}).get('maxInv'), ):
            differing.append(q)
    if not differing:
        return False, differing
    missing_exes = set()
    for fin in (fa, fb):
        for q, f in fin.items():
            if f.get('exeMissing') and int(q) < len(scn.get('runs', [])):
                missing_exes.add(scn['runs'][int(q)]['exe'])
    for q in differing:
        marked = (fa.get(q, {}).get('failNow') or fb.get(q, {}).get('failNow'))
        if not marked or q >= len(scn.get('runs', [])) or scn['runs'][q]['exe'] not in missing_exes:
            return False, differing
    return True, differing


def compare_with_batch(ck, inp, ref, obs, what, n127):
    a, b = summary(ref), summary(obs)
    for key in ('starts', 'commands', 'rows', 'ending'):
        if a[key] != b[key]:
            extra = [x for x in b[key] if x not in a[key]] if key != 'ending' else b[key]
            missing = [x for x in a[key] if x not in b[key]] if key != 'ending' else a[key]
            explained, differing = cut_short_by_missing_executable(inp, ref, obs)
            ck.oracle_fail('schedule_independent', inp,
                           {'differs': key, 'scheduler': what, 'batch': a[key], 'other': b[key],
                            'only_other': extra, 'only_batch': missing, 'differing_runs': differing},
                           signature={'differs': key, 'a_process_returns_127': bool(n127),
                                      'only_runs_cut_short_by_a_missing_executable_differ': bool(n127) and explained,
                                      'parallel': what.startswith('parallel')})
            return False
    bad = contiguous(obs['file']['rows'])
    if bad:
        ck.oracle_fail('datapoint_contiguous', inp, {'scheduler': what, 'first': bad[:3]},
                       signature={'parallel': what.startswith('parallel')})
        return False
    return True


# ------------------------------------------------------------------ sequential schedulers
def sequential_scenario(ck, scn, scripts, seeds, tag):
    rng = ck.rng
    n127 = has_127(scripts)
    results = []
    plans = [('batch', []), ('round-robin', [])] + [('random', [rng.randrange(64) for _ in range(160)]) for _ in range(seeds)]
    ref = None
    for sched, choices in plans:
        wd = c04._mkwd(ck)
        sess = {'sched': sched, 'choices': choices, 'scripts': scripts, 'cpu': 1, 'builds': scn.get('fail_builds') or {}, 'builds_once': True, 'time_probe': scn.get('time_probe')}
        inp = {'kind': 'sequential', 'scn': scn, 'scripts': scripts, 'sched': sched, 'choices': choices}
        obs = ds.run_session(wd, scn, sess)
        ck.impl_traces += 1
        if not session_ok(ck, inp, obs):
            return
        ck.count('sched:' + sched)
        op = c04.session_op('c11.session', scn, sess, obs['order'])
        c04.queue_of(ck).add(op, lambda ans, inp=inp, obs=obs: c04.compare_session(ck, 'c11.session', inp, obs, ans, THEOREMS))
        if any(r.get('custom') for r in scn['runs']):
            check_own_adapter(ck, inp, scn, obs, sched)
        check_lines_resolve(ck, inp, scn, obs, sched)
        if ref is None:
            ref = obs
            bad = contiguous(obs['file']['rows'])
            if bad:
                ck.oracle_fail('datapoint_contiguous', inp, {'scheduler': sched, 'first': bad[:3]}, signature={'parallel': False})
        else:
            compare_with_batch(ck, inp, ref, obs, sched, n127)
        ck.case(nontrivial_key=(tag, json.dumps(scn, sort_keys=True), sched, str(choices[:20])) if len(scn['runs']) > 1 else None,
                sample={'runs': len(scn['runs']), 'sched': sched, 'starts': len(obs['log'])})
    return ref


# ------------------------------------------------------------------ parallel scheduler, controlled
def parallel_scenario(ck, scn, scripts, cpu, schedules, tag, ref=None, local='batch'):
    n127 = has_127(scripts)
    bf = build_failed_runs(scn)
    if ref is None:
        wd = c04._mkwd(ck)
        ref = ds.run_session(wd, scn, {'sched': 'batch', 'scripts': scripts, 'cpu': 1, 'builds': scn.get('fail_builds') or {}, 'builds_once': True, 'time_probe': scn.get('time_probe')})
        ck.impl_traces += 1
        if not session_ok(ck, {'kind': 'parallel-ref', 'scn': scn, 'scripts': scripts}, ref):
            return
    for schedule in schedules:
        wd = c04._mkwd(ck)
        sess = {'sched': local, 'scripts': scripts, 'cpu': cpu, 'schedule': schedule, 'builds': scn.get('fail_builds') or {},
                'time_probe': scn.get('time_probe'), 'builds_once': True,
                'choices': [ck.rng.randrange(64) for _ in range(160)] if local == 'random' else []}
        inp = {'kind': 'parallel', 'scn': scn, 'scripts': scripts, 'cpu': cpu, 'schedule': schedule, 'local': local}
        obs = ds.run_session(wd, scn, sess)
        ck.impl_traces += 1
        if not session_ok(ck, inp, obs):
            return
        ck.count('parallel:T=%s' % obs.get('T'))
        if obs.get('probes'):
            ck.count('time-probes-in-session:%d' % len(obs['probes']))
        ck.count('parallel:runs=%d' % len(scn['runs']))
        ck.case(nontrivial_key=(tag, json.dumps(scn, sort_keys=True), cpu, str(schedule)),
                sample={'runs': len(scn['runs']), 'T': obs.get('T'), 'steps': obs['steps'][:10]})
        compare_with_batch(ck, inp, ref, obs, 'parallel', n127)
        if any(r.get('custom') for r in scn['runs']):
            check_own_adapter(ck, inp, scn, obs, 'parallel')
        if obs.get('soft_releases'):
            ck.count('sessions-with-worker-waiting-for-build-lock')
        check_chunks(ck, inp, scn, obs, cpu)
        if not n127:
            picks = [st[1] for st in obs['steps'] if st[0] in ('start', 'finish')]
            op = c04.session_op('c11.exec', scn, sess, obs['order'])
            op['picks'] = picks
            # runs whose build fails never start a process: the half-step system (no builds) is not asked about them
            op['active'] = [i for i in obs['order'] if obs['loaded'][i][0] < scn['runs'][i]['N'] and i not in bf]
            c04.queue_of(ck).add(op, lambda ans, inp=inp, obs=obs: compare_exec(ck, inp, obs, ans, bf))


def check_chunks(ck, inp, scn, obs, cpu):
    """work distribution: what acquire_work handed out vs RB.Sched.handout; every non-exclusive run exactly once"""
    if obs.get('chunks') is None:
        return
    # the parallel scheduler is only selected with more than one core and more than one non-exclusive run
    if cpu <= 1 or sum(1 for r in scn['runs'] if not r.get('excl', True)) <= 1:
        ck.count('parallel-scheduler-not-selected')
        return
    par = [i for i in obs['order'] if not scn['runs'][i].get('excl', True)
           and obs['loaded'][i][0] < scn['runs'][i]['N']]
    handed = sorted(i for c in obs['chunks'] for i in c)
    ck.count('chunks:%d' % len(obs['chunks']))
    if handed != sorted(par):
        ck.oracle_fail('every_run_handed_to_one_worker', inp,
                       {'non_exclusive_runs': par, 'chunks': obs['chunks'], 'worker_threads': obs.get('T')},
                       signature={'cpu_count': cpu, 'nothing_handed_out': not obs['chunks']})
    op = {'op': 'c11.chunks', 'cpu': cpu, 'remaining': par}

    def cmp(ans, obs=obs):
        if ans['chunks'] != obs['chunks']:
            ck.disagree('c11.chunks: ParallelScheduler.acquire_work vs RB.Sched.handout', inp,
                        {'chunks': obs['chunks'], 'T': obs.get('T')}, ans,
                        ['RB.Sched.c11_every_run_handed_out', 'RB.Sched.c11_chunks_partition'])
    c04.queue_of(ck).add(op, cmp)


def compare_exec(ck, inp, obs, ans, skip=()):
    m_starts, m_records, _b = c04.model_views(ans)
    i_starts = [[st[1], st[2]] for st in obs['steps'] if st[0] == 'start']
    _s, i_records, _b2 = c04.impl_views(obs)
    impl_fin = {int(i): {k: f[k] for k in c04.FIN_KEYS} for i, f in obs['final'].items() if int(i) not in skip}
    model_fin = {i: {k: f[k] for k in c04.FIN_KEYS} for i, f in enumerate(ans['final']) if i in impl_fin}
    if (not ans['valid'] or not ans['complete'] or m_starts != i_starts or m_records != i_records
            or impl_fin != model_fin):
        ck.disagree('c11.exec: observed parallel execution is not an instance of the abstract scheduler', inp,
                    {'steps': obs['steps'], 'starts': i_starts, 'records': i_records, 'final': impl_fin},
                    {'valid': ans['valid'], 'complete': ans['complete'], 'starts': m_starts, 'records': m_records,
                     'final': model_fin}, THEOREMS_ABS)


def all_schedules(n_steps, width):
    """all choice lists of length n_steps over 0..width-1 (the controller takes entries modulo the number of
    blocked runs, so this enumerates every interleaving of at most `width` concurrently running processes)"""
    import itertools
    return [list(p) for p in itertools.product(range(width), repeat=n_steps)]


# ------------------------------------------------------------------ parallel scheduler, free running with yielding writes
class YieldingFile(object):
    def __init__(self, f):
        self._f = f

    def write(self, data):
        time.sleep(0.0004)
        r = self._f.write(data)
        time.sleep(0.0004)
        return r

    def __getattr__(self, name):
        return getattr(self._f, name)


def free_running(ck, scn, scripts, cpu, tag):
    import builtins
    from rebench import persistence as rb_pers
    n127 = has_127(scripts)
    wd = c04._mkwd(ck)
    ref = ds.run_session(wd, scn, {'sched': 'batch', 'scripts': scripts, 'cpu': 1})
    inp = {'kind': 'free', 'scn': scn, 'scripts': scripts, 'cpu': cpu}
    if not session_ok(ck, inp, ref):
        return

    def opener(name, mode='r', *a, **kw):
        f = builtins.open(name, mode, *a, **kw)
        if 'a' in mode and str(name).endswith('t.data'):
            return YieldingFile(f)
        return f
    had = 'open' in rb_pers.__dict__
    saved = rb_pers.__dict__.get('open')
    rb_pers.open = opener
    try:
        wd2 = c04._mkwd(ck)
        obs = ds.run_session(wd2, scn, {'sched': 'batch', 'scripts': scripts, 'cpu': cpu})
    finally:
        if had:
            rb_pers.open = saved
        else:
            del rb_pers.open
    ck.impl_traces += 2
    if not session_ok(ck, inp, obs):
        return
    ck.count('free-running')
    ck.case(nontrivial_key=(tag, json.dumps(scn, sort_keys=True), cpu), sample={'free_running_runs': len(scn['runs'])})
    compare_with_batch(ck, inp, ref, obs, 'parallel-free', n127)


# ------------------------------------------------------------------ entry points
def load_corpus(ck):
    d = os.path.join(lib.VERIF, 'harness', 'corpus', 'C11')
    out = []
    if os.path.isdir(d):
        for f in sorted(os.listdir(d)):
            if f.endswith('.json'):
                out.append((f, json.load(open(os.path.join(d, f)))))
    return out


def run_input(ck, inp, tag):
    kind = inp.get('kind')
    if kind == 'sequential':
        sequential_scenario(ck, inp['scn'], inp['scripts'], 4, tag)
    elif kind in ('parallel', 'parallel-ref'):
        parallel_scenario(ck, inp['scn'], inp['scripts'], inp.get('cpu', 8), [inp.get('schedule') or []], tag,
                          local=inp.get('local', 'batch'))
    elif kind == 'resumed':
        resumed_scenario(ck, tag, fixed=inp)
    elif kind == 'parallel-exception':
        exception_sessions(ck, inp['scn'], inp['scripts'], inp.get('cpu', 8), [inp.get('schedule') or []], tag)
    elif kind == 'free':
        free_running(ck, inp['scn'], inp['scripts'], inp.get('cpu', 8), tag)


def run(ck):
    import time as _t
    _t0 = [_t.time()]

    def lap(name):
        ck.notes.append('section %s: %.1fs' % (name, _t.time() - _t0[0]))
        _t0[0] = _t.time()
    quick = ck.tier == 'quick'
    rng = ck.rng
    ck.rule = ('%d scenarios of 2-5 runs (succeeding, flaky and retried, failing, failing at the last invocation; shared '
               'executables) x {batch, round-robin, random x %d recorded choice streams}; parallel scheduler with 2-12 '
               'non-exclusive runs (some with exclusive ones), batch / round-robin / random as thread-local scheduler, cpu_count 2/3/5/8/16 (1, 1, 2, 3, 6 worker threads), %s sampled release '
               'schedules under the thread controller, %s; free-running parallel sessions with a yielding data-file '
               'object; custom gauge adapters from different files with colliding class names (parsed-by-own-adapter oracle); differently named executors sharing one (command, location) build with non-repeatable builds, a running build being a scheduling point; parallel sessions in which worker threads end with an exception (nothing may run after the session returns; same outcome for every completion order); sequential and parallel scenarios measured with the Time adapter (availability probe of the time binaries scripted, and a scheduling point under the controller); a third of the sequential and half of the parallel scenarios have executor builds (shared) and suite builds (private), succeeding and failing; scenarios with a 127 outcome for the recorded finding. non-trivial = more than one run, distinct by '
               'scenario and schedule'
               % ((36, 8, '~200', 'all interleavings of a 2-run scenario') if quick else
                  (110, 40, '~6000', 'all interleavings of 2-run scenarios and of a 3-run scenario (3^7 release schedules)')))
    for name, data in load_corpus(ck):
        ck.count('corpus')
        run_input(ck, data['input'], 'corpus:' + name)
    # (1) sequential schedulers
    for i in range(36 if quick else 110):
        scn, scripts = gen_scenario(rng, 2, 5, False, with_127=(i % 9 == 8))
        if i % 3 == 2 or i % 5 == 0:
            # two experiments with their own data files and partly shared runs (experiment `all`)
            n_runs = len(scn['runs'])
            k = rng.randint(1, n_runs)
            scn['second_file_runs'] = sorted(rng.sample(range(n_runs), k), reverse=rng.random() < 0.5)
            ck.count('two-data-files')
        if i % 3 == 1:
            add_builds(rng, scn)
            ck.count('scenario-with-builds')
            if scn['fail_builds']:
                ck.count('scenario-with-failing-build')
        sequential_scenario(ck, scn, scripts, 8 if quick else 40, 'seq')
    lap('sequential')
    # (1b) Time adapter, sequential schedulers
    for i in range(4 if quick else 30):
        scn, scripts = time_adapter_scenario(rng, 2, 4, False)
        ck.count('time-adapter-scenario')
        sequential_scenario(ck, scn, scripts, 3 if quick else 10, 'seq-time')
    lap('time-sequential')
    # (2) parallel, exhaustive for small scenarios
    small = [(2, 5)] if quick else [(2, 5), (2, 8), (3, 8)]
    for n, cpu in small:
        runs = [{'N': 2, 'retries': 1, 'exe': i, 'excl': False} for i in range(n)]
        scripts = [[{'rc': 0, 'dps': 2}, {'rc': 1, 'dps': 0}, {'rc': 0, 'dps': 1}] if i == 0 else
                   [{'rc': 0, 'dps': 1}, {'rc': 0, 'dps': 2}] for i in range(n)]
        total_steps = 3 + 2 * (n - 1)
        width = min(n, int(cpu / 2.5))
        scheds = all_schedules(total_steps, width)
        if len(scheds) > (64 if quick else 2500):
            scheds = rng.sample(scheds, 64 if quick else 2500)
        ck.notes.append('exhaustive interleavings: %d runs, cpu %d: %d schedules' % (n, cpu, len(scheds)))
        parallel_scenario(ck, {'runs': runs}, scripts, cpu, scheds, 'par-exh')
    ck.exhaustive = True
    lap('parallel-exhaustive')
    # (3) parallel, sampled
    n_scen, per = (18, 10) if quick else (150, 25)
    for i in range(n_scen):
        scn, scripts = gen_scenario(rng, 2, 12, True, with_127=(i % 9 == 8))
        if i % 2 == 1:
            add_builds(rng, scn)
            ck.count('parallel-scenario-with-builds')
        cpu = rng.choice([2, 3, 5, 8, 8, 16])
        schedules = [[rng.randrange(12) for _ in range(200)] for _ in range(per)]
        # the thread-local scheduler of the workers: batch, round-robin or random
        parallel_scenario(ck, scn, scripts, cpu, schedules, 'par', local=['batch', 'round-robin', 'random'][i % 3])
    lap('parallel-sampled')
    # (3b) parallel with the Time adapter: the availability probe is a scheduling point, so other workers
    #      build their command lines and run processes while the first worker is still probing
    for i in range(8 if quick else 80):
        scn, scripts = time_adapter_scenario(rng, 2, 6, True)
        ck.count('time-adapter-parallel-scenario')
        schedules = [[rng.randrange(12) for _ in range(120)] for _ in range(4 if quick else 12)]
        parallel_scenario(ck, scn, scripts, rng.choice([5, 8, 16]), schedules, 'par-time',
                          local=['batch', 'round-robin', 'random'][i % 3])
    lap('parallel-time')
    # (3c) custom gauge adapters whose names collide
    for i in range(6 if quick else 40):
        scn, scripts = adapter_scenario(rng, 2, 4, False)
        ck.count('custom-adapter-scenario')
        sequential_scenario(ck, scn, scripts, 4 if quick else 12, 'seq-adapters')
    for i in range(3 if quick else 30):
        scn, scripts = adapter_scenario(rng, 2, 5, True)
        parallel_scenario(ck, scn, scripts, rng.choice([5, 8]), [[rng.randrange(12) for _ in range(80)] for _ in range(3)],
                          'par-adapters', local=['batch', 'round-robin', 'random'][i % 3])
    # (3c') differently named executors sharing ONE (command, location) build, one run per worker: every worker
    #       reaches the build while the first one is still running it (a running build is a scheduling point; the
    #       build cannot be repeated)
    for i in range(4 if quick else 30):
        n = rng.randint(2, 5)
        runs = [{'N': rng.randint(1, 2), 'retries': 0, 'exe': j, 'excl': False, 'ebuild': 0 if j < max(2, n - 1) else j}
                for j in range(n)]
        scn = {'runs': runs, 'fail_builds': ({'e0': 1} if rng.random() < 0.25 else {}), 'shared_build_other_names': True}
        scripts = [[{'rc': 0, 'dps': rng.choice([1, 2])}] * 3 for _ in runs]
        ck.count('shared-build-one-run-per-worker')
        parallel_scenario(ck, scn, scripts, 16, [[rng.randrange(12) for _ in range(60)] for _ in range(3)],
                          'par-shared-build', local=['batch', 'round-robin', 'random'][i % 3])
    # (3c'') resumed sessions with builds
    for i in range(5 if quick else 40):
        resumed_scenario(ck, 'resumed')
    lap('adapters')
    # (3d) a worker thread ends with an exception: the other workers finish their work, whatever the completion
    #      order, and nothing is running any more when the session returns
    for i in range(5 if quick else 40):
        scn, scripts, cpu = exception_scenario(rng)
        exception_sessions(ck, scn, scripts, cpu, [[rng.randrange(12) for _ in range(80)] for _ in range(3 if quick else 6)],
                           'par-exception')
    lap('exceptions')
    # (4) free running with yielding writes
    for i in range(6 if quick else 60):
        n = rng.randint(4, 10)
        runs = [{'N': rng.randint(2, 3), 'retries': 1, 'exe': j, 'excl': False} for j in range(n)]
        scripts = [[{'rc': 0, 'dps': 3}] * r['N'] for r in runs]
        free_running(ck, {'runs': runs}, scripts, rng.choice([8, 16]), 'free')
    lap('free-running')
    c04.queue_of(ck).flush()
    lap('model')


def replay(ck, data):
    run_input(ck, data['input'], 'replay')
    c04.queue_of(ck).flush()
