"""C01 — scheduled runs are exactly the configured cross product, filtered.

Correspondence: `Configurator.get_runs()` of the real code, projected to the
fields the `__eq__` methods compare, against `RB.Runs.scheduled` (Lean) on
generated schema-valid configurations x filter sets; plus whole sessions
(-p plan lines, process starts).  Oracle: an independent Python enumeration of
the right-hand side of `c01_mem_scheduled_iff`.
"""
import copy
import itertools
import json
import os

import lib
import drive
from corr import c02 as s02

RAW3 = s02.RAW3
PLAIN = s02.PLAIN
VARS = s02.VARS
DEFAULTS = s02.DEFAULTS


# ------------------------------------------------------------------ generator
def gen_level(rng, idx, with_vars=True, p=0.25):
    lv = {}
    for k in RAW3:
        r = rng.random()
        if r < p * 0.6:
            lv[k] = rng.randint(1, 4) + idx
        elif r < p * 0.8:
            lv[k] = '%d!' % (rng.randint(1, 4) + idx)
    for k in PLAIN:
        if rng.random() < p * 0.4:
            lv[k] = s02.value_for(k, idx % 7, rng, idx)
    if with_vars:
        if rng.random() < p:
            lv['cores'] = rng.choice([[1, 2], [2, '2'], ['4'], [idx + 1], ['c%d' % idx, 3], [0, 1], ['0', 0, ''], []])
        if rng.random() < p:
            lv['input_sizes'] = rng.choice([[10, 20], [''], ['', 5], ['big'], [idx], [0, 10], ['0', '', 0], []])
        if rng.random() < p:
            lv['variable_values'] = rng.choice([['a', 'b'], [''], ['v%d' % idx], [7, '7'], [0, 1], ['', 0, '0'], []])
        if rng.random() < p:
            lv['tags'] = rng.choice([['tagA'], ['tagA', 'tagB'], ['tagB', 'x%d' % idx], [5], [0, 'tagA'], ['', 'tagB'], []])
    return lv


def gen_config(rng):
    n_exec, n_suite, n_exp = rng.randint(1, 3), rng.randint(1, 3), rng.randint(1, 3)
    cfg = {'benchmark_suites': {}, 'executors': {}, 'experiments': {}}
    idx = [0]

    def nxt():
        idx[0] += 1
        return idx[0]
    bench_pool = ['B0', 'B1', 'B2']
    for s in range(n_suite):
        suite = {'gauge_adapter': 'RebenchLog',
                 'command': 'harness_%d %%(benchmark)s %%(cores)s %%(input)s %%(variable)s %%(tag)s' % s}
        if rng.random() < 0.3:
            suite['location'] = 'loc%d' % s
        if rng.random() < 0.2:
            suite['description'] = 'suite %d' % s
        suite.update(gen_level(rng, nxt()))
        benches = []
        for b in rng.sample(bench_pool, rng.randint(1, 3)):
            if rng.random() < 0.5:
                benches.append(b)
            else:
                d = gen_level(rng, nxt())
                if rng.random() < 0.4:
                    d['extra_args'] = rng.choice(['x', 'y 1', 3])
                if rng.random() < 0.2:
                    d['command'] = b + '-cmd'
                benches.append({b: d})
        suite['benchmarks'] = benches
        cfg['benchmark_suites']['S%d' % s] = suite
    for e in range(n_exec):
        ex = {'executable': 'exe%d' % e}
        if rng.random() < 0.6:
            ex['path'] = rng.choice(['.', 'bin', '/opt/x'])
        if rng.random() < 0.3:
            ex['args'] = '-a %d' % e
        ex.update(gen_level(rng, nxt()))
        cfg['executors']['E%d' % e] = ex
    suites_all = list(cfg['benchmark_suites'])
    execs_all = list(cfg['executors'])
    for x in range(n_exp):
        if x > 0 and rng.random() < 0.35:
            # a deliberately shared experiment: copy of an earlier one, possibly with a tiny difference
            src = rng.choice(list(cfg['experiments'].values()))
            exp = copy.deepcopy(src)
            if rng.random() < 0.5:
                # equal env maps written in a different key order are the same configuration detail
                # (dict equality; the hash must agree with it)
                src['env'] = {'A_VAR': 'one', 'B_VAR': 'two', 'C_VAR': '3'}
                exp['env'] = {'C_VAR': '3', 'B_VAR': 'two', 'A_VAR': 'one'}
            r = rng.random()
            if r < 0.3:
                exp['description'] = 'copy'          # not part of the run identity
            elif r < 0.5:
                exp['iterations'] = 9                # part of it (unless overridden at a higher level)
            elif r < 0.6:
                exp['data_file'] = 'other.data'
        else:
            exp = {'suites': rng.sample(suites_all, rng.randint(1, len(suites_all)))}
            execs = []
            if rng.random() < 0.3:
                # the same executor may be listed more than once (with different settings or suites)
                chosen = rng.choices(execs_all, k=rng.randint(2, len(execs_all) + 1))
            else:
                chosen = rng.sample(execs_all, rng.randint(1, len(execs_all)))
            for en in chosen:
                if rng.random() < 0.5:
                    execs.append(en)
                else:
                    d = gen_level(rng, nxt())
                    if rng.random() < 0.5:
                        d['suites'] = rng.sample(suites_all, rng.randint(1, len(suites_all)))
                        if rng.random() < 0.15:
                            d['suites'].append(rng.choice(suites_all))      # a suite listed twice
                    execs.append({en: d})
            exp['executions'] = execs
            exp.update(gen_level(rng, nxt()))
        if x > 0 and rng.random() < 0.3 and 'executions' in exp:
            # YAML anchors / aliases / merge keys (docs/config.md): the loaded document then holds the SAME object
            # in several places -- an executions list, or one execution's details map, shared with an earlier experiment
            other = rng.choice([e for e in cfg['experiments'].values()])
            if rng.random() < 0.5:
                exp['executions'] = other['executions']
            else:
                shared = [e for e in other['executions'] if isinstance(e, dict)]
                if shared:
                    exp['executions'] = list(exp['executions']) + [rng.choice(shared)]
            exp['suites'] = rng.sample(suites_all, rng.randint(1, len(suites_all)))
        # experiment names that are substrings of the word `all` are ordinary names
        cfg['experiments'][['X%d' % x, ['a', 'l', 'al'][x]][rng.random() < 0.3]] = exp
    if rng.random() < 0.5:
        cfg['runs'] = gen_level(rng, nxt(), with_vars=False)
    n_mach = rng.randint(0, 2)
    if n_mach:
        cfg['machines'] = {'m%d' % i: gen_level(rng, nxt()) for i in range(n_mach)}
    if rng.random() < 0.4:
        cfg['default_experiment'] = rng.choice(list(cfg['experiments']) + ['all'])
    return cfg


FILTER_POOL = ['e:E0', 'e:E1', 'e:Nope', 's:S0', 's:S1', 's:*:B0', 's:S1:B1', 's:S0:B2', 's:Nope',
               't:tagA', 't:tagB', 't:nope', 't:5']


def gen_selection(rng, cfg):
    exp = rng.choice([None, None, 'all'] + list(cfg['experiments']))
    k = rng.choice([0, 0, 1, 1, 2, 3, 4])
    filters = rng.sample(FILTER_POOL, k)
    machine = rng.choice([None] + list(cfg.get('machines', {}))) if cfg.get('machines') else None
    cli = rng.choice([[], [], [], ['-in', '3'], ['-it', '2'], ['-q']])
    return {'exp': exp, 'filters': filters, 'machine': machine, 'cli': cli}


# ------------------------------------------------------------------ encoding for the model
def enc_val(v):
    if v is None:
        return None
    if isinstance(v, bool):
        raise ValueError('bool in variable list')
    if isinstance(v, int):
        return {'i': v}
    return {'s': str(v)}


def enc_level(lv, codes, with_vars=True):
    o = {}
    for k in RAW3:
        if k in lv:
            t, n = s02.parse_raw(lv[k])
            o[k] = {t: n}
    for k in PLAIN:
        if k in lv:
            o[k] = codes.code(lv[k])
    if with_vars:
        for k in VARS:
            if k in lv:
                o[k] = [enc_val(v) for v in lv[k]]
    return o


def enc_config(cfg, sel, codes):
    inv_o, it_o = s02.overrides_of(sel['cli'])
    m = cfg.get('machines', {}).get(sel['machine'], {}) if sel['machine'] else {}
    out = {
        'machine_name': enc_val(sel['machine']), 'machine': enc_level(m, codes),
        'runs': enc_level(cfg.get('runs', {}), codes, with_vars=False),
        'executors': [], 'suites': [], 'experiments': [],
        'default_experiment': cfg.get('default_experiment'),
        'defaults': s02.defaults_op(codes), 'invocations_override': inv_o, 'iterations_override': it_o,
    }
    # defaults_op also emits variable-list defaults as codes; the C01 model has them built in
    for k in VARS:
        out['defaults'].pop(k, None)
    for i, (n, ex) in enumerate(cfg['executors'].items()):
        d = enc_level(ex, codes)
        d.update({'name': n, 'static': i})
        out['executors'].append(d)
    for i, (n, su) in enumerate(cfg['benchmark_suites'].items()):
        d = enc_level(su, codes)
        d.update({'name': n, 'static': i, 'benchmarks': []})
        for j, b in enumerate(su['benchmarks']):
            if isinstance(b, dict):
                (bn, bd), = b.items()
            else:
                bn, bd = b, {}
            e = enc_level(bd, codes)
            e.update({'name': bn, 'static': codes.code(['bench-static', bd.get('command', bn), bd.get('extra_args')])})
            d['benchmarks'].append(e)
        out['suites'].append(d)
    for n, exp in cfg['experiments'].items():
        d = enc_level(exp, codes)
        d.update({'name': n, 'suites': list(exp.get('suites', [])), 'executions': []})
        for x in exp['executions']:
            if isinstance(x, dict):
                (xn, xd), = x.items()
            else:
                xn, xd = x, {}
            e = enc_level(xd or {}, codes)
            e.update({'executor': xn, 'own_suites': (xd or {}).get('suites')})
            d['executions'].append(e)
        out['experiments'].append(d)
    sel_o = {'exp_name': sel['exp'], 'exec_filters': [], 'suite_filters': [], 'tag_filters': []}
    for f in sel['filters']:
        parts = f.split(':')
        if parts[0] == 'e':
            sel_o['exec_filters'].append(parts[1])
        elif parts[0] == 's':
            sel_o['suite_filters'].append({'suite': parts[1], 'bench': parts[2] if len(parts) == 3 else None})
        else:
            sel_o['tag_filters'].append(parts[1])
    return {'op': 'c01.runs', 'config': out, 'sel': sel_o}


# ------------------------------------------------------------------ implementation side
def enc_raw_obs(v):
    if v is None:
        return None
    t, n = s02.parse_raw(v)
    return {t: n}


def details_obs(rd, codes):
    return {
        'invocations': enc_raw_obs(rd.invocations), 'iterations': enc_raw_obs(rd.iterations),
        'warmup': enc_raw_obs(rd.warmup),
        'min_iteration_time': None if rd.min_iteration_time is None else codes.code(rd.min_iteration_time),
        'max_invocation_time': None if rd.max_invocation_time is None else codes.code(rd.max_invocation_time),
        'ignore_timeouts': None if rd.ignore_timeouts is None else codes.code(rd.ignore_timeouts),
        'retries_after_failure': None if rd.retries_after_failure is None else codes.code(rd.retries_after_failure),
        'execute_exclusively': None if rd.execute_exclusively is None else codes.code(rd.execute_exclusively),
        'env': None if rd.env is None else codes.code(rd.env),
    }


def vars_obs(v):
    return {'input_sizes': [enc_val(x) for x in v.input_sizes], 'cores': [enc_val(x) for x in v.cores],
            'variable_values': [enc_val(x) for x in v.variable_values], 'tags': [enc_val(x) for x in v.tags]}


def project(run, cfg, codes):
    b = run.benchmark
    su = b.suite
    ex = su.executor
    return {
        'bench': b.name, 'bench_static': codes.code(['bench-static', b.command, b.extra_args]),
        'bench_details': details_obs(b.run_details, codes), 'bench_vars': vars_obs(b.variables),
        'suite': su.name, 'suite_static': list(cfg['benchmark_suites']).index(su.name),
        'executor': ex.name, 'executor_static': list(cfg['executors']).index(ex.name),
        'executor_details': details_obs(ex.run_details, codes), 'executor_vars': vars_obs(ex.variables),
        'cores': enc_val(run.cores), 'input': enc_val(run.input_size), 'var': enc_val(run.var_value),
        'tag': enc_val(run.tag), 'machine': enc_val(run.machine),
    }


_parser = None


def impl_runs(cfg, sel):
    from rebench.configurator import Configurator
    from rebench.persistence import DataStore
    from rebench.rebench import ReBench
    from rebench.ui import TestDummyUI
    global _parser
    if _parser is None:
        _parser = ReBench().shell_options()
    args = _parser.parse_args(['-D'] + sel['cli'] + ['dummy.conf'])
    ui = TestDummyUI()
    cnf = Configurator(copy.deepcopy(cfg), DataStore(ui), ui, args, None, sel['exp'], None, None,
                       list(sel['filters']), sel['machine'])
    return list(cnf.get_runs())


# ------------------------------------------------------------------ oracle: the reference enumeration
def norm_cores(c):
    if isinstance(c, str) and c.isdigit():
        return int(c)
    return c


def norm_empty(v):
    return None if v == '' else v


def first_defined(levels, key, default):
    for lv in reversed(levels):
        if key in lv:
            return lv[key]
    return default


def oracle_details(levels, inv_o=None, it_o=None, resolve=False):
    """levels low -> high; C02's rule"""
    out = {}
    for k in RAW3:
        marked = [lv[k] for lv in levels if k in lv and s02.parse_raw(lv[k])[0] == 'm']
        defined = [lv[k] for lv in levels if k in lv]
        v = marked[-1] if marked else (defined[-1] if defined else DEFAULTS[k])
        if resolve:
            ov = {'invocations': inv_o, 'iterations': it_o, 'warmup': None}[k]
            v = ov if ov is not None else (None if v is None else s02.parse_raw(v)[1])
        out[k] = v
    for k in PLAIN:
        out[k] = first_defined(levels, k, DEFAULTS[k])
    return out


def oracle_vars(levels):
    return {k: first_defined(levels, k, DEFAULTS[k]) for k in VARS}


def enc_details_oracle(d, codes):
    o = {k: enc_raw_obs(d[k]) for k in RAW3}
    for k in PLAIN:
        o[k] = None if d[k] is None else codes.code(d[k])
    return o


def oracle_runs(cfg, sel, codes):
    inv_o, it_o = s02.overrides_of(sel['cli'])
    name = sel['exp'] or cfg.get('default_experiment', 'all')
    exps = cfg['experiments'] if name == 'all' else {name: cfg['experiments'][name]}
    mach = cfg.get('machines', {}).get(sel['machine'], {}) if sel['machine'] else {}
    runs_lv = cfg.get('runs', {})
    ef = [f.split(':')[1] for f in sel['filters'] if f.startswith('e:')]
    sf = [f.split(':')[1:] for f in sel['filters'] if f.startswith('s:')]
    tf = [f.split(':')[1] for f in sel['filters'] if f.startswith('t:')]
    out = {}
    for exp in exps.values():
        for x in exp['executions']:
            if isinstance(x, dict):
                (xn, xd), = x.items()
                xd = xd or {}
            else:
                xn, xd = x, {}
            ex = cfg['executors'][xn]
            suites = xd.get('suites', exp.get('suites', []))
            ex_levels_d = [mach, runs_lv, exp, xd, ex]
            ex_levels_v = [mach, exp, xd, ex]
            for sn in suites:
                su = cfg['benchmark_suites'][sn]
                for b in su['benchmarks']:
                    if isinstance(b, dict):
                        (bn, bd), = b.items()
                    else:
                        bn, bd = b, {}
                    if ef and xn not in ef:
                        continue
                    if sf and not any((f[0] == '*' or f[0] == sn) and (len(f) == 1 or f[1] == bn) for f in sf):
                        continue
                    bvars = oracle_vars(ex_levels_v + [su, bd])
                    for c, i, v, t in itertools.product(bvars['cores'], bvars['input_sizes'],
                                                        bvars['variable_values'], bvars['tags']):
                        if tf and not any(t == f for f in tf):
                            continue
                        key = {
                            'bench': bn, 'bench_static': codes.code(['bench-static', bd.get('command', bn), bd.get('extra_args')]),
                            'bench_details': enc_details_oracle(
                                oracle_details(ex_levels_d + [su, bd], inv_o, it_o, resolve=True), codes),
                            'bench_vars': {k: [enc_val(q) for q in bvars[k]] for k in VARS},
                            'suite': sn, 'suite_static': list(cfg['benchmark_suites']).index(sn),
                            'executor': xn, 'executor_static': list(cfg['executors']).index(xn),
                            'executor_details': enc_details_oracle(oracle_details(ex_levels_d), codes),
                            'executor_vars': {k: [enc_val(q) for q in oracle_vars(ex_levels_v)[k]] for k in VARS},
                            'cores': enc_val(norm_cores(c)), 'input': enc_val(norm_empty(i)),
                            'var': enc_val(norm_empty(v)), 'tag': enc_val(t), 'machine': enc_val(sel['machine']),
                        }
                        out[canon(key)] = key
    return out


def canon(k):
    return json.dumps(k, sort_keys=True)


def find_aliases(cfg):
    """paths of containers that are one and the same object (what YAML aliases load as); JSON replays lose
    object identity, so it is recorded next to the configuration"""
    seen, out = {}, []

    def walk(o, path):
        if isinstance(o, (dict, list)):
            if id(o) in seen:
                out.append([seen[id(o)], path])
                return
            seen[id(o)] = path
            for k, v in (o.items() if isinstance(o, dict) else enumerate(o)):
                walk(v, path + [k])
    walk(cfg, [])
    return out


def relink(cfg, aliases):
    def get(path):
        o = cfg
        for k in path:
            o = o[k]
        return o
    for first, second in aliases:
        parent = get(second[:-1])
        parent[second[-1]] = get(first)
    return cfg


# ------------------------------------------------------------------ the check
def check_cases(ck, cases):
    ops, metas = [], []
    for cfg, sel in cases:
        codes = s02.Codes()
        ops.append(enc_config(cfg, sel, codes))
        metas.append((cfg, sel, codes))
    answers = ck.model(ops)
    for (cfg, sel, codes), ans in zip(metas, answers):
        inp = {'config': cfg, 'selection': sel}
        al = find_aliases(cfg)
        if al:
            inp['aliases'] = al
            ck.count('config-with-aliased-objects')
        try:
            runs = impl_runs(cfg, sel)
            crash = None
        except Exception as e:  # noqa
            runs, crash = [], '%s: %s' % (type(e).__name__, str(e)[:200])
        if crash:
            ck.disagree('c01.runs: real Configurator raised on a valid configuration', inp, crash, None)
            ck.oracle_fail('compiles', inp, crash, {'exception': crash.split(':')[0]})
            continue
        impl = [canon(project(r, cfg, codes)) for r in runs]
        model = [canon(k) for k in ans['runs']]
        want = oracle_runs(cfg, sel, codes)
        n = len(want)
        ck.count('runs:0' if n == 0 else 'runs:1-4' if n <= 4 else 'runs:5-20' if n <= 20 else 'runs:>20')
        ck.count('filters:%d' % len(sel['filters']))
        ck.count('exp:' + ('named' if sel['exp'] not in (None, 'all') else str(sel['exp'])))
        ck.count('machine:' + ('yes' if sel['machine'] else 'no'))
        ck.case(nontrivial_key=canon([cfg, sel]) if (n >= 2 or sel['filters']) else None,
                sample={'experiments': list(cfg['experiments']), 'selection': sel, 'scheduled': n})
        if len(set(model)) != len(model):
            ck.disagree('c01.runs: model produced a duplicate', inp, None, None)
        if sorted(impl) != sorted(model):
            extra = sorted(set(impl) - set(model))[:2]
            missing = sorted(set(model) - set(impl))[:2]
            ck.disagree('c01.runs: Configurator.get_runs() vs RB.Runs.scheduled', inp,
                        {'n': len(impl), 'only_impl': [json.loads(x) for x in extra]},
                        {'n': len(model), 'only_model': [json.loads(x) for x in missing]},
                        ['RB.Runs.c01_mem_scheduled_iff', 'RB.Runs.c01_scheduled_nodup'])
        # oracle on the implementation
        if len(set(impl)) != len(impl):
            ck.oracle_fail('no_run_twice', inp, {'runs': len(impl), 'distinct': len(set(impl))})
        omitted = sorted(set(want) - set(impl))
        extra = sorted(set(impl) - set(want))
        if omitted:
            ck.oracle_fail('run_omitted', inp, {'omitted': [json.loads(x) for x in omitted[:3]], 'count': len(omitted)},
                           {'kind': 'omitted'})
        if extra:
            ck.oracle_fail('run_extra', inp, {'extra': [json.loads(x) for x in extra[:3]], 'count': len(extra)},
                           {'kind': 'extra'})


def subset_sweep(ck, n_cfg, pool_size):
    """all subsets of a filter pool for a few configurations"""
    rng = ck.rng
    cases = []
    for _ in range(n_cfg):
        cfg = gen_config(rng)
        pool = rng.sample(FILTER_POOL, pool_size)
        base = gen_selection(rng, cfg)
        for r in range(len(pool) + 1):
            for sub in itertools.combinations(pool, r):
                sel = dict(base, filters=list(sub))
                cases.append((cfg, sel))
    for i in range(0, len(cases), 300):
        check_cases(ck, cases[i:i + 300])


PLAN_CMD = None


def plan_commands(stdout):
    """the harness command tails of an execution plan.  Under the parallel scheduler several worker threads print
    plan lines at the same time and print() writes text and newline separately, so two lines can arrive glued
    together: commands are therefore found by their shape, not line by line (a command tail contains no '/',
    the next command and the `cd <dir>` lines start with one)"""
    import re
    global PLAN_CMD
    if PLAN_CMD is None:
        PLAN_CMD = re.compile(r'harness_\d+(?:(?!cd /|/)[^\n])*')
    return [m.group(0).strip() for m in PLAN_CMD.finditer(stdout)]


def sessions(ck, n):
    """whole sessions: the -p plan lists one command per scheduled run; an execution starts each exactly
    once under every scheduler (batch, round-robin, random, and the parallel one for non-exclusive runs
    on 2..64 cores)"""
    rng = ck.rng
    for i in range(n):
        cfg = gen_config(rng)
        for su in cfg['benchmark_suites'].values():
            su.pop('location', None)
        for ex in cfg['executors'].values():
            ex['path'] = '.'
        sel = gen_selection(rng, cfg)
        sel['cli'] = ['-in', '1']
        sched = rng.choice(['batch', 'round-robin', 'random', 'parallel', 'parallel', 'mixed'])
        cpus = 1
        if sched in ('parallel', 'mixed'):
            cpus = rng.choice([2, 4, 5, 8, 9, 16, 64])
            levels = [cfg.setdefault('runs', {})] + list(cfg['experiments'].values()) + \
                list(cfg['executors'].values()) + list(cfg['benchmark_suites'].values()) + \
                list(cfg.get('machines', {}).values())
            for su in cfg['benchmark_suites'].values():
                levels += [list(b.values())[0] for b in su['benchmarks'] if isinstance(b, dict)]
            for exp in cfg['experiments'].values():
                levels += [list(x.values())[0] for x in exp['executions'] if isinstance(x, dict)]
            for lv in levels:
                lv.pop('execute_exclusively', None)
            cfg['runs']['execute_exclusively'] = False
            if sched == 'mixed':
                rng.choice(list(cfg['benchmark_suites'].values()))['execute_exclusively'] = True
        codes = s02.Codes()
        want = oracle_runs(cfg, sel, codes)
        wd = os.path.join(ck.scratch, 'c01s%d' % i)
        os.makedirs(wd)
        conf = drive.write_config(wd, cfg)
        argv = ['-in', '1'] + (['-m', sel['machine']] if sel['machine'] else []) + \
            (['-s', sched] if sched in ('batch', 'round-robin', 'random') else []) + [conf] + \
            ([sel['exp']] if sel['exp'] else []) + sel['filters']
        r1 = drive.run_session(wd, ['-p'] + argv, lambda rec: drive.Outcome(0, ''), cpu_count=cpus)
        plan = plan_commands(r1.stdout)
        r2 = drive.run_session(wd, argv, lambda rec: drive.Outcome(0, 'B: iterations=1 runtime: 1000us\n'),
                               cpu_count=cpus)
        ck.impl_traces += 2
        inp = {'config': cfg, 'selection': sel, 'session': True, 'scheduler': sched, 'cpu_count': cpus}
        ck.case(nontrivial_key='sess' + canon([cfg, sel, sched, cpus]), sample=None)
        ck.count('kind:session')
        ck.count('session:%s' % sched)
        if r1.crash or r2.crash:
            ck.disagree('c01.session: session crashed', inp, {'plan': r1.crash, 'exec': r2.crash}, None)
            ck.oracle_fail('session_completes', inp, {'plan': r1.crash, 'exec': r2.crash}, {'kind': 'crash'})
            continue
        if r1.starts:
            ck.oracle_fail('plan_starts_nothing', inp, {'starts': len(r1.starts)})
        if len(plan) != len(want):
            ck.oracle_fail('plan_lists_scheduled_runs', inp, {'plan_lines': len(plan), 'scheduled': len(want)},
                           {'kind': 'plan'})
        started = [str(r['args']) for r in r2.starts if 'harness_' in str(r['args'])]
        if len(started) != len(want):
            ck.oracle_fail('each_scheduled_run_started_once', inp, {'starts': len(started), 'scheduled': len(want)},
                           {'kind': 'exec'})
        # the plan and the execution are the same multiset of command lines
        def tail(cmd):
            return cmd[cmd.index('harness_'):].strip()
        a, b = sorted(tail(l) for l in plan), sorted(tail(c) for c in started)
        if a != b:
            ck.oracle_fail('executed_commands_are_the_planned_ones', inp,
                           {'only_plan': [x for x in a if x not in b][:3], 'only_exec': [x for x in b if x not in a][:3]},
                           {'kind': 'plan-vs-exec'})


# ------------------------------------------------------------------ translation tie of the run filters
GEN_FILTER_MODULE = 'RB.Proofs.GenC01'
DS_POOL = ['e:E0', 'e:E1', 's:S0', 's:*', 's:S0:B0', 's:*:B1', 's:S1:B0', 't:tagA', 't:5']
DS_BENCHES = [('E0', 'S0', 'B0'), ('E0', 'S0', 'B1'), ('E1', 'S0', 'B0'), ('E1', 'S1', 'B1'), ('E2', 'S1', 'B0'),
              ('E0', '*', 'B0')]
DS_TAGS = [None, 'tagA', 'tagB', '5', 5]


def filter_spec(text):
    parts = text.split(':')
    if parts[0] == 'e':
        return {'text': text, 'kind': 'exec', 'a': parts[1]}
    if parts[0] == 't':
        return {'text': text, 'kind': 'tag', 'a': parts[1]}
    if len(parts) == 2:
        return {'text': text, 'kind': 'suite', 'a': parts[1]}
    return {'text': text, 'kind': 'bench', 'a': parts[1], 'b': parts[2]}


def documented_bench(filters, e, s_, n):
    """the property: or within the executor group and within the suite group, and across groups"""
    ef = [f.split(':')[1] for f in filters if f.startswith('e:')]
    sf = [f.split(':')[1:] for f in filters if f.startswith('s:')]
    return (not ef or e in ef) and \
        (not sf or any((f[0] == '*' or f[0] == s_) and (len(f) == 1 or f[1] == n) for f in sf))


def documented_tag(filters, tag):
    tf = [f.split(':')[1] for f in filters if f.startswith('t:')]
    return not tf or any(tag == f for f in tf)


def real_filter(filters, bench=None, tag='<none given>'):
    from types import SimpleNamespace as NS
    from rebench.configurator import _RunFilter
    try:
        rf = _RunFilter(list(filters))
        if bench is not None:
            e, s_, n = bench
            return bool(rf.applies_to_bench(NS(name=n, suite=NS(name=s_, executor=NS(name=e)))))
        return bool(rf.applies_to_tag(tag))
    except Exception as exc:  # noqa
        return 'raised %s' % type(exc).__name__


def directed_search_filters(ck):
    """the translation tie of the run filters (RB.Proofs.GenC01) is not available for the current source.
    proof-broken: the definitions generated from the current source and the filter model are run side by side
    in Lean on every subset of a small filter pool x a few benchmarks / tags; every input on which they differ is
    put to the real `_RunFilter` and to the property.  untranslatable: the same grid goes to the real code directly."""
    entry = [e for e in getattr(ck, 'gen_entries', []) if e['module'] == GEN_FILTER_MODULE and e['status'] != 'ok']
    if not entry:
        return False
    status = entry[0]['status']
    subsets = [[f for k, f in enumerate(DS_POOL) if m >> k & 1] for m in range(2 ** len(DS_POOL))]
    subsets = [fs for fs in subsets if len(fs) <= 4]
    grid = [(fs, ('bench', b)) for fs in subsets for b in DS_BENCHES] + \
           [(fs, ('tag', t)) for fs in subsets for t in DS_TAGS]
    cands = grid
    if status.startswith('proof-broken'):
        ops = []
        for fs, (kind, x) in grid:
            base = {'filters': [filter_spec(f) for f in fs]}
            if kind == 'bench':
                ops.append(dict(base, op='c01.gen_bench', e=x[0], s=x[1], n=x[2]))
            else:
                ops.append(dict(base, op='c01.gen_tag', tag=x))
        try:
            answers = ck.model(ops, driver='drivers/C01gen.lean')
            cands = [g for g, a in zip(grid, answers) if not a.get('same', True)]
            ck.notes.append('directed search (run filters): generated vs model differ on %d of %d (filter set, '
                            'benchmark / tag) pairs' % (len(cands), len(grid)))
        except lib.InfraError as e:
            ck.notes.append('directed search (run filters): generated definitions do not run (%s); the whole grid '
                            'goes to the real code' % str(e)[:200])
    else:
        ck.notes.append('directed search (run filters): source not translatable; %d (filter set, benchmark / tag) '
                        'pairs go to the real _RunFilter' % len(grid))
    ck.count('directed-search-candidates', len(cands))
    hits = 0
    for fs, (kind, x) in cands:
        ck.case(nontrivial_key=('directed-filter', tuple(fs), kind, str(x)))
        if kind == 'bench':
            got, want = real_filter(fs, bench=x), documented_bench(fs, *x)
            inp = {'directed': 'run-filter', 'filters': fs, 'bench': {'executor': x[0], 'suite': x[1], 'benchmark': x[2]}}
        else:
            got, want = real_filter(fs, tag=x), documented_tag(fs, x)
            inp = {'directed': 'run-filter', 'filters': fs, 'tag': x}
        if got != want:
            hits += 1
            if hits <= 50:
                ck.oracle_fail('filter_keeps_exactly_the_documented_runs', inp, {'reported': got, 'expected': want},
                               {'kind': 'run-filter', 'what': kind})
    return bool(cands)


def cli_plans(ck, n):
    """the real CLI in child processes with different PYTHONHASHSEED values: the planned runs must not depend on
    the process (set / dict iteration order), and are the scheduled runs"""
    import subprocess
    import sys
    rng = ck.rng
    for i in range(n):
        cfg = gen_config(rng)
        for su in cfg['benchmark_suites'].values():
            su.pop('location', None)
        for ex in cfg['executors'].values():
            ex['path'] = '.'
        sel = gen_selection(rng, cfg)
        sel['cli'] = ['-in', '1']
        codes = s02.Codes()
        want = oracle_runs(cfg, sel, codes)
        wd = os.path.join(ck.scratch, 'c01cli%d' % i)
        os.makedirs(wd)
        conf = drive.write_config(wd, cfg)
        argv = ['-D', '-p', '-in', '1'] + (['-m', sel['machine']] if sel['machine'] else []) + [conf] + \
            ([sel['exp']] if sel['exp'] else []) + sel['filters']
        plans = {}
        for hs in ('0', '1', str(rng.randint(2, 4000000))):
            env = {'PYTHONHASHSEED': hs, 'PYTHONPATH': lib.REPO, 'PATH': os.environ.get('PATH', ''),
                   'PYTHONDONTWRITEBYTECODE': '1', 'HOME': wd}
            r = subprocess.run([sys.executable, '-B', '-m', 'rebench.rebench'] + argv, cwd=wd, env=env,
                               stdout=subprocess.PIPE, stderr=subprocess.STDOUT, text=True, timeout=120)
            ck.impl_traces += 1
            plans[hs] = (r.returncode, sorted(plan_commands(r.stdout)),
                         r.stdout[-400:])
        inp = {'config': cfg, 'selection': sel, 'cli': True, 'hash_seeds': sorted(plans)}
        al = find_aliases(cfg)
        if al:
            inp['aliases'] = al
        ck.case(nontrivial_key='cli' + canon([cfg, sel]), sample=None)
        ck.count('kind:cli-plan')
        for hs, (rc, plan, tail) in plans.items():
            if rc != 0 or 'Traceback' in tail:
                ck.oracle_fail('plan_session_completes', dict(inp, hash_seed=hs), {'exit': rc, 'output': tail},
                               {'kind': 'cli-crash'})
            elif len(plan) != len(want):
                ck.oracle_fail('plan_lists_scheduled_runs', dict(inp, hash_seed=hs),
                               {'plan_lines': len(plan), 'scheduled': len(want)}, {'kind': 'cli-plan'})
        distinct = {json.dumps(p[1]) for p in plans.values()}
        if len(distinct) > 1:
            ck.oracle_fail('planned_runs_independent_of_the_process', inp,
                           {hs: p[1][:6] for hs, p in plans.items()}, {'kind': 'cli-hashseed'})


def run(ck):
    quick = ck.tier == 'quick'
    if ck.gen_broken:
        directed_search_filters(ck)
    ck.rule = ('schema-valid configurations from the documented grammar (1-3 experiments incl. deliberate copies, '
               'executions as names or maps with own suites/settings incl. the same executor listed several times, 1-3 suites, benchmarks as names or maps, variable '
               'lists at every level incl. digit strings and empty strings, 0-2 machines) x experiment selection x '
               'filter sets (random subsets and all subsets of a 5-filter pool) x CLI overrides; whole sessions (-p plan and '
               'execution) under the batch, round-robin, random and parallel schedulers (2-64 cores); non-trivial = at least '
               'two scheduled runs or at least one filter; distinct by (configuration, selection)')
    ck.assumptions = ['variable values are YAML ints and strings (floats, booleans, dates rely on Python cross-type '
                      'equality and are outside the generator); malformed filters belong to C10; plain values of '
                      'invocations/iterations/warmup are ints here (digit strings are covered by C02)']
    corpus = os.path.join(os.path.dirname(os.path.dirname(os.path.abspath(__file__))), 'corpus', 'C01')
    for f in sorted(os.listdir(corpus)) if os.path.isdir(corpus) else []:
        ck.count('corpus')
        replay(ck, json.load(open(os.path.join(corpus, f))))      # minimised past failures run first
    cases = []
    for _ in range(700 if quick else 30000):
        cfg = gen_config(ck.rng)
        for _ in range(3):
            cases.append((cfg, gen_selection(ck.rng, cfg)))
        if len(cases) >= 300:
            check_cases(ck, cases)
            cases = []
    check_cases(ck, cases)
    subset_sweep(ck, 6 if quick else 40, 5 if quick else 8)
    sessions(ck, 40 if quick else 400)
    cli_plans(ck, 6 if quick else 60)


def replay(ck, data):
    inp = data['input']
    if inp.get('directed') == 'run-filter':
        if 'bench' in inp:
            b = (inp['bench']['executor'], inp['bench']['suite'], inp['bench']['benchmark'])
            got, want = real_filter(inp['filters'], bench=b), documented_bench(inp['filters'], *b)
        else:
            got, want = real_filter(inp['filters'], tag=inp['tag']), documented_tag(inp['filters'], inp['tag'])
        ck.case(nontrivial_key=('directed-filter', json.dumps(inp, sort_keys=True)))
        if got != want:
            ck.oracle_fail('filter_keeps_exactly_the_documented_runs', inp, {'reported': got, 'expected': want},
                           {'kind': 'run-filter', 'what': 'bench' if 'bench' in inp else 'tag'})
        return
    check_cases(ck, [(relink(inp['config'], inp.get('aliases', [])), inp['selection'])])
