"""C07 — run identity and measurements survive the data-file round trip.

Correspondence
  A identity : configured Benchmark / RunId objects of generated configurations
               (real Configurator) against `RB.Identity`: `as_dict` key by key,
               `from_dict(json(as_dict))` equality, the `__eq__` field lists;
  B lines    : `Measurement.as_str_list` / text-mode reading / `from_str_list`
               against `renderMeas`, `splitLines`, `parseMeas`, `fmt6`;
  C sessions : histories of 2-4 real sessions against `RB.Session.sessions`
               (starts, appended lines, progress restored after loading).
Oracle: the clauses of the property on what the implementation did:
recognised (no finished invocation is started again), progress_restored,
measurement_reloads, ids_consecutive, no_crash.
"""
import copy
import datetime
import json
import os
import random
from fractions import Fraction

import lib
import drive
import drive_persist as dp
from corr import c06

TH_ID = ['RB.Identity.c07_fromDict_asDict_bench', 'RB.Identity.c07_fromDict_asDict_run',
         'RB.Identity.c07_reload_partial', 'RB.Identity.c07_recorded_is_configured']
TH_LINE = ['RB.DataFile.c07_line_roundtrip_partial', 'RB.DataFile.c07_fmt6_bound']
TH_FILE = ['RB.DataFile.c07_load_persist', 'RB.DataFile.c07_ids_consecutive']


# ------------------------------------------------------------------ A identity
def val_json(v):
    if v is None:
        return None
    if isinstance(v, bool):
        return {'b': v}
    if isinstance(v, int):
        return {'i': v}
    if isinstance(v, float):
        return {'f': repr(v)}
    if isinstance(v, (datetime.date, datetime.datetime)):
        return {'d': v.isoformat()}
    if isinstance(v, str):
        return {'s': v}
    raise ValueError('value outside the model: %r' % (v,))


def rd_json(rd):
    return {k: val_json(getattr(rd, k)) for k in
            ['invocations', 'iterations', 'warmup', 'min_iteration_time', 'max_invocation_time', 'ignore_timeouts',
             'parallel_interference_factor', 'execute_exclusively', 'retries_after_failure', 'invocations_override',
             'iterations_override']} | {'env': None if rd.env is None else [[k, val_json(v)] for k, v in rd.env.items()]}


def vars_json(v):
    return {k: [val_json(x) for x in getattr(v, k)] for k in ['input_sizes', 'cores', 'variable_values', 'tags']}


def build_json(b):
    return None if b is None else val_json(b.command)


def exec_json(e):
    return {'name': val_json(e.name), 'description': val_json(e.description), 'action': val_json(e.action),
            'path': val_json(e.path), 'executable': val_json(e.executable), 'args': val_json(e.args),
            'build': build_json(e.build), 'run_details': rd_json(e.run_details), 'variables': vars_json(e.variables)}


def suite_json(s):
    return {'name': val_json(s.name), 'command': val_json(s.command), 'location': val_json(s.location),
            '_desc': val_json(s._desc), 'build': build_json(s.build), 'executor': exec_json(s.executor)}


def bench_json(b):
    return {'name': val_json(b.name), 'command': val_json(b.command), 'extra_args': val_json(b.extra_args),
            'run_details': rd_json(b.run_details), 'variables': vars_json(b.variables), 'suite': suite_json(b.suite)}


def run_json(r):
    return {'benchmark': bench_json(r.benchmark), 'cores': val_json(r.cores), 'input_size': val_json(r.input_size),
            'var_value': val_json(r.var_value), 'tag': val_json(r.tag), 'machine': val_json(r.machine),
            'cmdline': r.cmdline()}


def from_model_json(j):
    """model JSON -> Python value comparable with an `as_dict()` result"""
    if isinstance(j, dict):
        if set(j) == {'__float__'}:
            return float(j['__float__'])
        if set(j) == {'__date__'}:
            return datetime.date.fromisoformat(j['__date__'])
        return {k: from_model_json(v) for k, v in j.items()}
    if isinstance(j, list):
        return [from_model_json(x) for x in j]
    return j


IDENTITY_EXTRAS = [
    lambda rng, cfg: cfg['benchmark_suites'][rng.choice(sorted(cfg['benchmark_suites']))].update(
        {'env': {'HOME_BIN': rng.choice(['~/bin', '~', 'a:~/b', '/x/~y']), 'PCT': '100%', 'U': 'Größe'}}),
    lambda rng, cfg: cfg['executors'][rng.choice(sorted(cfg['executors']))].update(
        {'env': {'LD': rng.choice(['~/lib', '/lib'])}}),
    # maps with several keys written in non-alphabetical order (a dict is equal whatever the order)
    lambda rng, cfg: cfg['benchmark_suites'][rng.choice(sorted(cfg['benchmark_suites']))].update(
        {'env': dict(rng.sample([('ZED', 'z'), ('ALPHA', 'a'), ('MID', rng.choice(['m', '~/m'])), ('beta', 'b'),
                                 ('Z9', '9')], rng.randint(2, 4)))}),
    lambda rng, cfg: cfg['executors'][rng.choice(sorted(cfg['executors']))].update(
        {'env': {'ZED_SETTING': '1', 'ALPHA_SETTING': '2'}}),
    lambda rng, cfg: cfg['runs'].update({'env': {'Y': 'y', 'X': 'x', 'A': 'a'}}),
    lambda rng, cfg: cfg['benchmark_suites'][rng.choice(sorted(cfg['benchmark_suites']))].update(
        {'input_sizes': rng.choice([[1, '1', 2.5], ['a b', 'c'], [True, 3], ['~', '%%x']])}),
    lambda rng, cfg: cfg['benchmark_suites'][rng.choice(sorted(cfg['benchmark_suites']))].update(
        {'invocations': rng.choice(['2!', '3!', 2])}),
    lambda rng, cfg: cfg['benchmark_suites'][rng.choice(sorted(cfg['benchmark_suites']))].update(
        {'description': rng.choice(['tab\there', 'multi\nline', 'ünï', 'x' * 40])}),
    lambda rng, cfg: cfg['executors'][rng.choice(sorted(cfg['executors']))].update(
        {'build': ['make a', 'make "b c"'], 'args': '-Xfoo %(cores)s'}),
    lambda rng, cfg: cfg['benchmark_suites'][rng.choice(sorted(cfg['benchmark_suites']))].update(
        {'build': ['make suite-build'], 'location': rng.choice(['.', 'suite-dir', '/opt/bench/suite', '~/benchmarks'])}),
    lambda rng, cfg: cfg['executors'][rng.choice(sorted(cfg['executors']))].update(
        {'build': ['make exec-build'], 'path': rng.choice(['.', 'exec-dir', '/opt/vm', '~/vm'])}),
    lambda rng, cfg: [su.update({'build': ['make shared-build'], 'location': 'shared-dir'})
                      for su in cfg['benchmark_suites'].values()],
    lambda rng, cfg: cfg['runs'].update({'invocations': rng.choice(['2!', '3', 2]), 'warmup': rng.choice(['1!', '1', 1])}),
    lambda rng, cfg: cfg['executors'][rng.choice(sorted(cfg['executors']))].update(
        {'invocations': rng.choice(['2!', '2', 3]), 'iterations': rng.choice(['3!', '2', 2])}),
    lambda rng, cfg: cfg['runs'].update({'max_invocation_time': 60, 'min_iteration_time': 0,
                                         'retries_after_failure': 2}),
    lambda rng, cfg: cfg['executors'][rng.choice(sorted(cfg['executors']))].update(
        {'args': rng.choice(['5', '2.5', 'true']), 'description': rng.choice(['42', 'forty-two'])}),
    lambda rng, cfg: cfg['benchmark_suites'][rng.choice(sorted(cfg['benchmark_suites']))].update(
        {'variable_values': rng.choice([[1, 2.5], ['1', 1], [False, 'x']]), 'cores': rng.choice([[4, '8'], ['2', 2]])}),
    lambda rng, cfg: cfg['benchmark_suites'][rng.choice(sorted(cfg['benchmark_suites']))].update(
        {'tags': rng.choice([[1, 't'], ['1'], [2.5]])}),
    lambda rng, cfg: cfg['runs'].update({'ignore_timeouts': True, 'parallel_interference_factor': 2.5,
                                         'execute_exclusively': False}),
]


# command-line overrides of invocations / iterations enter every run's identity (ExpRunDetails.*_override)
CLI_OVERRIDES = [[], [], ['-in', '2'], ['-it', '3'], ['-in', '2', '-it', '3'], ['-in', '3', '-it', '3'], ['-in', '1']]


def gen_identity_config(rng, for_sessions=False):
    cfg = dp.gen_config(rng, {'env': True, 'max_exp': 2})
    for f in rng.sample(IDENTITY_EXTRAS, rng.randint(0, 3)):
        f(rng, cfg)
    if for_sessions:
        # a '~' in the executor's path / suite's location makes ReBench re-quote the whole command line
        # (expand_user, C03): keep it to the identity check, where no process is started
        for d in list(cfg['executors'].values()) + list(cfg['benchmark_suites'].values()):
            for key in ('path', 'location'):
                if str(d.get(key, '')).startswith('~'):
                    d[key] = d[key].replace('~', '/opt/home', 1)
    if rng.random() < 0.4:   # extra_args of a non-string YAML type: int, float, bool (and the look-alike strings)
        su = cfg['benchmark_suites'][rng.choice(sorted(cfg['benchmark_suites']))]
        b = su['benchmarks'][-1]
        name = b if isinstance(b, str) else list(b)[0]
        det = {} if isinstance(b, str) else dict(b[name])
        det['extra_args'] = rng.choice([6, '6', 2.5, True, 0, '0', '--mode\tfast', 'trailing  ', 'ünï\tcode'])
        su['benchmarks'][-1] = {name: det}
    if rng.random() < 0.3:   # folded scalar with trailing newline
        su = cfg['benchmark_suites'][rng.choice(sorted(cfg['benchmark_suites']))]
        b = su['benchmarks'][0]
        name = b if isinstance(b, str) else list(b)[0]
        su['benchmarks'][0] = {name: {'extra_args': 'folded args\n'}}
    return cfg


def identity_check(ck, n):
    rng = ck.rng
    fields = ck.model([{'op': 'c07.fields'}])[0]
    cases, ops = [], []
    for i in range(n):
        cfg = gen_identity_config(rng)
        wd = os.path.join(ck.scratch, 'id%d' % i)
        os.makedirs(wd)
        drive.write_config(wd, cfg)
        argv = rng.choice(CLI_OVERRIDES)
        try:
            probe = dp.Probe(wd, cfg, argv)
            fresh = dp.Probe(wd, cfg, argv)     # an independent compile: the configured keys of a later session
        except ValueError:
            ck.count('identity:rejected')
            continue
        for k, (run, run2) in enumerate(zip(probe.run_objs, fresh.run_objs)):
            if k >= 3:
                break
            run2._verif_argv = argv
            ck.count('identity:cli-override' if argv else 'identity:no-cli-override')
            try:
                bj, rj = bench_json(run2.benchmark), run_json(run2)
            except ValueError:
                ck.count('identity:outside-model')
                continue
            cases.append((cfg, run, run2))
            ops.append({'op': 'c07.bench', 'bench': bj, 'in_place': False})
            ops.append({'op': 'c07.run', 'run': rj, 'bench_id': rng.randint(0, 3)})
    answers = ck.model(ops)
    from rebench.model.benchmark import Benchmark
    from rebench.model.run_id import RunId
    done_fields = False
    for n_case, (cfg, run, run2) in enumerate(cases):
        ab, ar = answers[2 * n_case], answers[2 * n_case + 1]
        if 'err' in ab or 'err' in ar:
            raise lib.InfraError('model rejected an identity: %s %s' % (ab, ar))
        inp = {'cfg': cfg, 'run': run2.cmdline(), 'argv': getattr(run2, '_verif_argv', None)}
        env = run2.benchmark.run_details.env or {}
        has_tilde = any('~' in str(v) for v in env.values())
        ck.count('identity:env~' if has_tilde else 'identity:plain')
        ck.case(nontrivial_key=('id', json.dumps(cfg, sort_keys=True, default=str), run2.cmdline()),
                sample={'cmdline': run2.cmdline(), 'env': env} if has_tilde else None)
        # what the implementation records at the first persist: the executor reads run.env first
        _ = run.env
        try:
            rec = run.benchmark.as_dict()
            rec_run = run.as_dict(True)
            from rebench.persistence import _to_json     # the serialisation the data file really gets
            text = _to_json(rec)
            ser = True
        except TypeError:
            ser, rec_run, text = False, None, None
        impl = {'as_dict': rec if ser else None, 'serialisable': ser}
        model = {'as_dict': from_model_json(ab['as_dict']) if ab['serialisable'] else None,
                 'serialisable': ab['serialisable']}
        if impl != model:
            ck.disagree('c07.bench: Benchmark.as_dict at first persist vs RB.Identity.Bench.asDict', inp, impl, model,
                        TH_ID)
        if ser:
            back = Benchmark.from_dict(json.loads(text))
            same = (back == run2.benchmark and hash(back) == hash(run2.benchmark))
            if same != ab['reload_is_configured']:
                ck.disagree('c07.bench: from_dict(json(as_dict)) == configured', inp, {'equal': same},
                            {'equal': ab['reload_is_configured']}, TH_ID)
            # oracle: a new session recognises the recorded benchmark / run as the configured one
            if not same:
                differ = describe_diff(back, run2.benchmark, fields)
                env_differs = any(d.startswith('run_details.env') for d in differ)
                if not differ:     # equal, but hashed differently: not found in the dictionaries of the loader
                    for name, a, b in (('run_details', back.run_details, run2.benchmark.run_details),
                                       ('suite.executor.run_details', back.suite.executor.run_details,
                                        run2.benchmark.suite.executor.run_details),
                                       ('variables', back.variables, run2.benchmark.variables),
                                       ('suite', back.suite, run2.benchmark.suite)):
                        if a == b and hash(a) != hash(b):
                            differ.append('hash(%s) differs although equal; env order reloaded %r, configured %r' % (
                                name, list((getattr(a, 'env', None) or {})), list((getattr(b, 'env', None) or {}))))
                    differ = ['hash:' + d for d in differ] or ['hash: differs']
                ck.oracle_fail('recognised', inp, {'fields_that_differ': differ,
                                                   'recorded_env': rec['runDetails'].get('env'), 'configured_env': env},
                               {'class': 'env_tilde' if (has_tilde and env_differs) else
                                ('equal_but_hash_differs' if differ and differ[0].startswith('hash:') else
                                 'field:' + (differ[0].split(':')[0] if differ else 'nested')), 'level': 'identity'})
            rr = dict(rec_run, benchmark_id=0)
            back_run = RunId.from_dict(json.loads(json.dumps(rr)), run2.benchmark)
            if not (back_run == run2 and hash(back_run) == hash(run2)):
                ck.oracle_fail('recognised', inp, {'run': rr}, {'class': 'run_fields', 'level': 'identity'})
            want = from_model_json(ar['as_dict'])
            got = {k: v for k, v in rec_run.items() if k not in ('location', 'extraArgs')}
            got['benchmark_id'] = want.get('benchmark_id')
            if got != want:
                ck.disagree('c07.run: RunId.as_dict(True) vs RB.Identity.Run.asDict', inp, got, want, TH_ID)
        else:
            ck.oracle_fail('no_crash', inp, {'exception': 'TypeError', 'in': 'json.dumps(benchmark.as_dict())'},
                           {'class': 'date_scalar', 'exception': 'TypeError'})
        # the model keeps a build command as its text: its location is the suite's location / the executor's
        # path by construction -- check that on the configured and on the reloaded objects
        if ser:
            for who, bobj in (('configured', run2.benchmark), ('reloaded', back)):
                su = bobj.suite
                if su.build is not None:
                    ck.count('identity:suite-build+location-%s' % (
                        'absent' if su.location is None else 'same-as-path' if su.location == su.executor.path
                        else 'different'))
                probs = []
                if su.build is not None and su.build.location != su.location:
                    probs.append('suite.build.location %r != suite.location %r' % (su.build.location, su.location))
                if su.executor.build is not None and su.executor.build.location != su.executor.path:
                    probs.append('executor.build.location %r != executor.path %r'
                                 % (su.executor.build.location, su.executor.path))
                if probs:
                    ck.disagree('c07.bench: location of the %s BuildCommand' % who, inp, probs,
                                'a build is located where its suite / executor is', TH_ID)
        if not done_fields:
            done_fields = True
            field_lists(ck, fields, run2)


def describe_diff(a, b, fields, prefix=''):
    """the leaves in which a reloaded key differs from the configured one, e.g. 'suite.build.location'"""
    nested = {'Benchmark': {'run_details': 'ExpRunDetails', 'variables': 'ExpVariables', 'suite': 'BenchmarkSuite'},
              'BenchmarkSuite': {'build': 'BuildCommand', 'executor': 'Executor'},
              'Executor': {'build': 'BuildCommand', 'run_details': 'ExpRunDetails', 'variables': 'ExpVariables'}}
    cls = type(a).__name__
    if a is None or b is None or type(a) is not type(b):
        return [] if a == b and type(a) is type(b) else ['%s: reloaded %r, configured %r' % (prefix.rstrip('.'), a, b)]
    names = dict(fields, BuildCommand=['command', 'location']).get(cls)
    if names is None:
        return [] if (a == b and type(a) is type(b)) else \
            ['%s: reloaded %r, configured %r' % (prefix.rstrip('.'), a, b)]
    out = []
    for attr in names:
        x, y = getattr(a, attr, None), getattr(b, attr, None)
        if attr in nested.get(cls, {}) and x is not None and y is not None:
            out += describe_diff(x, y, fields, prefix + attr + '.')
        elif x != y or type(x) is not type(y):
            out.append('%s%s: reloaded %r, configured %r' % (prefix, attr, x, y))
    return out


def field_lists(ck, fields, run):
    """the `__eq__` field lists: changing a listed attribute must break equality, any other must not"""
    objs = {'RunId': run, 'Benchmark': run.benchmark, 'BenchmarkSuite': run.benchmark.suite,
            'Executor': run.benchmark.suite.executor, 'ExpRunDetails': run.benchmark.run_details,
            'ExpVariables': run.benchmark.variables}
    for cls, obj in objs.items():
        listed = fields[cls]
        for attr in list(vars(obj)):
            if attr in ('_hash',):
                continue
            c = copy.copy(obj)
            setattr(c, attr, ('verif-sentinel', attr))
            if hasattr(c, '_hash'):
                c._hash = None
            try:
                equal = (c == obj)
            except Exception as e:  # noqa
                equal = 'raises:' + type(e).__name__
            ck.count('eq-fields')
            if (attr in listed) != (equal is not True):
                ck.disagree('c07.fields: %s.__eq__ field list' % cls, {'class': cls, 'attribute': attr},
                            {'equal_after_change': equal}, {'in_key': attr in listed}, TH_ID)
        for attr in listed:
            if attr not in vars(obj):
                ck.disagree('c07.fields: %s lacks attribute' % cls, {'class': cls, 'attribute': attr}, 'missing',
                            'listed', TH_ID)


# ------------------------------------------------------------------ B lines
SAFE = ['ms', 'kb', 'total', 'mem', 'alloc rate', 'x%y', '~a', 'Größe', 'ops/s', 'a:b', 'µs', '100%%', 'ms / op',
        'GC time', 'a  b', 'q"x', '', ' lead', 'trail ', '#c', 'L1 d-cache miss/s']
HOSTILE = [('tab_in_criterion', 'crit', 'me\tm'), ('cr_in_criterion', 'crit', 'me\rm'), ('tab_in_unit', 'unit', 'ms\top'),
           ('cr_in_unit', 'unit', 'ms\r'), ('tab_in_criterion', 'crit', 'total\tx'), ('cr_in_unit', 'unit', '\rms'),
           ('newline_in_run_columns', 'cols', 'folded args\n'), ('tab_in_run_columns', 'cols', 'a\tb'),
           ('tab_in_run_columns', 'cols', '--mode\tfast')]


UNREACHABLE = {'cr_in_unit'}


class _FakeRun(object):
    warmup_iterations = 0

    def __hash__(self):
        return id(self)

    def __init__(self, cols):
        self.cols = cols
        self.loaded = []

    def as_str_list(self, rid):
        # the stand-in for RunId.as_str_list: the real one is exercised by the session histories (tabs and
        # line breaks in extra_args, input sizes, variable values, tags); here the cells go through the
        # repository's own cell function, if the tree has one
        try:
            from rebench.model import as_table_cell
        except ImportError:
            def as_table_cell(text):
                return text
        return [as_table_cell(c) for c in self.cols] + [str(rid)]

    def loaded_data_point(self, data_point, _warmup):
        self.loaded.append(list(data_point.get_measurements()))

    def is_first_copy(self, _invocation, _iteration, _source):
        return True


_LINE_PERS = {}


def real_parse_line(table, line):
    """one line through the loader's own `_FilePersistence._parse_data_line` (not a re-implementation of
    its splitting): returns the Measurement it built, or None for the tolerated ValueError / IndexError.
    The persistence object is built by its own constructor (whatever state the loader keeps)."""
    import types
    from rebench.persistence import _FilePersistence, DataStore
    from rebench.ui import TestDummyUI
    if 'p' not in _LINE_PERS:
        ui = TestDummyUI()
        _LINE_PERS['p'] = _FilePersistence(os.path.join(lib.SCRATCH_ROOT, 'c07-line-%d.data' % os.getpid()),
                                           DataStore(ui), types.SimpleNamespace(discard_old_data=False, options=None),
                                           ui)
    pers = _LINE_PERS['p']
    pers._id_to_run_id = table
    fake = table[0]
    del fake.loaded[:]
    try:
        dpt, _prev = pers._parse_data_line(None, line, 0, None, None, None)
    except (ValueError, IndexError):
        return None
    if fake.loaded:
        return fake.loaded[-1][-1]
    ms = dpt.get_measurements()
    return ms[-1] if ms else None


def line_check(ck, n):
    from rebench.model.measurement import Measurement
    from rebench.model.run_id import RunId
    rng = ck.rng
    cases = []
    for (kind, field, text) in HOSTILE:      # every hostile class on every run, then random lines
        c = {'kind': kind, 'inv': 3, 'it': 2, 'value': 12.5, 'unit': 'ms', 'crit': 'mem',
             'cols': ['B', 'E', 'S', '', '1', '', '', '', ''], 'rid': 0}
        if field == 'cols':
            c['cols'][3] = text
        else:
            c[field] = text
        cases.append(c)
    cases.append({'kind': 'bool_value', 'inv': 1, 'it': 1, 'value': True, 'unit': 'bool', 'crit': 'Success',
                  'cols': ['B', 'E', 'S', '', '1', '', '', '', ''], 'rid': 0})
    for i in range(n):
        kind = 'plain'
        unit, crit = rng.choice(SAFE[:13]), rng.choice(SAFE)
        cols = [rng.choice(['B', 'Bench-1', 'ünï', 'a b', '%(x)s']), 'E', 'S', rng.choice(['', 'x', 'a b', '7']),
                rng.choice(['', '1', '4']), rng.choice(['', 's', '10']), rng.choice(['', 'v']), rng.choice(['', 't1']),
                rng.choice(['', 'm1'])]
        r = rng.random()
        if r < 0.12:
            kind, field, text = rng.choice(HOSTILE)
            if field == 'crit':
                crit = text
            elif field == 'cols':
                cols[3] = text
            else:
                unit = text
        if r > 0.9:
            value, kind = rng.choice([True, False]), 'bool_value'
        elif r > 0.8:
            value = rng.randint(0, 10 ** 6)
        else:
            value = dp.gen_value(rng)
        cases.append({'kind': kind, 'inv': rng.randint(1, 500), 'it': rng.randint(1, 3000), 'value': value,
                      'unit': unit, 'crit': crit, 'cols': cols, 'rid': rng.randint(0, 30)})
    ops = []
    for c in cases:
        o = {'op': 'c07.line', 'inv': c['inv'], 'it': c['it'], 'unit': c['unit'], 'crit': c['crit'],
             'cols': c['cols'], 'rid': c['rid']}
        if isinstance(c['value'], float):
            o['v'] = lib.frac(c['value'])
        else:
            o['raw'] = '%s' % (c['value'],)
        ops.append(o)
    answers = ck.model(ops)
    tmp = os.path.join(ck.scratch, 'line.txt')
    for c, ans in zip(cases, answers):
        fake = _FakeRun(c['cols'])
        m = Measurement(c['inv'], c['it'], c['value'], c['unit'], fake, c['crit'])
        text = '\t'.join(m.as_str_list(c['rid']))
        with open(tmp, 'w') as f:   # as persistence.py opens it: text mode, default newline handling
            f.write(text + '\n')
        table = [fake] * 31
        parsed, lines = [], []
        with open(tmp, 'r') as f:
            for line in f:
                lines.append(line.rstrip('\n'))
                pm = real_parse_line(table, line)
                if pm is None:
                    parsed.append(None)
                else:
                    try:
                        rid = int(line.rstrip('\n').split('\t')[-1])
                    except ValueError:
                        rid = None
                    parsed.append({'inv': pm.invocation, 'it': pm.iteration, 'value': pm.value, 'unit': pm.unit,
                                   'crit': pm.criterion, 'rid': rid})
        model_parsed = [None if p is None else dict(p, value=float(lib.unfrac(p['value']))) for p in ans['parsed']]
        ck.count('line:' + c['kind'])
        ck.case(nontrivial_key=('line', text), sample={'text': text} if c['kind'] != 'plain' else None)
        inp = {'line': c}
        if text != ans['text'] or lines != ans['lines'] or parsed != model_parsed:
            ck.disagree('c07.line: as_str_list / text-mode read / from_str_list vs renderMeas / splitLines / parseMeas',
                        inp, {'text': text, 'lines': lines, 'parsed': parsed},
                        {'text': ans['text'], 'lines': ans['lines'], 'parsed': model_parsed}, TH_LINE)
        # oracle: the measurement reloads as one line with the same fields, value to 6 decimals
        ok = len(parsed) == 1 and parsed[0] is not None
        if ok:
            p = parsed[0]
            # "the same unit, criterion": as labels on one line -- a tab / line break in them is written as a space
            ok = (p['inv'], p['it'], p['unit'], p['crit'], p['rid']) == (c['inv'], c['it'], c06.one_line(c['unit']),
                                                                          c06.one_line(c['crit']), c['rid']) \
                and abs(Fraction(p['value']) - Fraction(c['value'])) <= Fraction(1, 2000000) + Fraction(1, 10 ** 15) * abs(Fraction(c['value']))
        if not ok and classify_line(c) in UNREACHABLE:
            # no adapter can deliver such a string any more (JMH's unit pattern is [^\\r]+): the line-level
            # model is still compared above, but this is not a reachable violation of the property
            ck.count('line:class-no-adapter-produces')
        elif not ok:
            ck.oracle_fail('measurement_reloads', inp, {'reloaded': parsed},
                           {'class': classify_line(c), 'level': 'line'})


def classify_line(c):
    if isinstance(c['value'], bool):
        return 'bool_value'
    for name, text in (('unit', c['unit']), ('criterion', c['crit'])):
        if '\t' in text:
            return 'tab_in_' + name
        if '\r' in text:
            return 'cr_in_' + name
        if '\n' in text:
            return 'lf_in_' + name
    if any(ch in col for col in c['cols'] for ch in '\r\n'):
        return 'newline_in_run_columns'
    if any('\t' in col for col in c['cols']):
        return 'tab_in_run_columns'
    return 'other'


# ------------------------------------------------------------------ C sessions
def gen_history(rng):
    cfg = gen_identity_config(rng, for_sessions=True)
    n = rng.randint(2, 4)
    specs = []
    for _ in range(n):
        sched = rng.choice(['batch', 'round-robin', 'random'])
        specs.append({'sched': sched, 'choices': [rng.randint(0, 50) for _ in range(80)] if sched == 'random' else [],
                      'stop': None})
    if rng.random() < 0.4:
        specs[0]['stop'] = rng.randint(1, 8)
    if n > 2 and rng.random() < 0.3:
        specs[1]['stop'] = rng.randint(1, 4)
    scen = {'cfg': cfg, 'specs': specs, 'seed': rng.randint(0, 10 ** 9), 'argv': list(rng.choice(CLI_OVERRIDES))}
    if rng.random() < 0.25:
        scen['hostile'] = rng.choice([['me\tm'], ['me\rm'], ['me\tm', 'a\rb', 'x\ty\tz']])
    return scen


def session_check(ck, scens, tag):
    items = []
    for i, scen in enumerate(scens):
        r = c06.run_scenario(ck, scen, '%s%d' % (tag, i))
        if r:
            items.append((scen,) + r)
    ops = []
    for (scen, probe, outputs, build_ok, observed) in items:
        specs = [{'sched': s['sched'], 'choices': s['choices'], 'stop': c06.model_stop(s.get('stop'), ob),
                  'order': [i for i in (ob.order or []) if i is not None]}
                 for s, ob in zip(scen['specs'], observed)]
        ops.append(dp.scenario_op('c07.sessions', probe, outputs, build_ok, specs))
    answers = ck.model(ops)
    for (scen, probe, outputs, build_ok, observed), ans in zip(items, answers):
        inp = {'cfg': scen['cfg'], 'specs': scen['specs'], 'seed': scen['seed'], 'argv': scen.get('argv', []),
               'outputs': scen['outputs'], 'raw': scen.get('raw'), 'build_ok': build_ok}
        if scen.get('hostile'):
            inp['hostile'], inp['hostile_applied'] = scen['hostile'], True
        klass = scen.get('class') or history_class(scen['cfg'])
        if scen.get('hostile'):
            klass = 'separator_in_criterion'
        judge_history(ck, inp, probe, outputs, observed, ans, klass)


def run_sep_class(run):
    """a failure is attributed to the run it concerns: only a run whose own identifying columns contain a line
    break (or a tab) belongs to that class -- other runs of the same history do not"""
    if any(ch in col for col in run['cols'] for ch in '\n\r'):
        return 'newline_in_run_columns'
    if any('\t' in col for col in run['cols']):
        return 'tab_in_run_columns'
    return None


def history_class(cfg):
    for su in cfg['benchmark_suites'].values():
        if any('~' in str(v) for v in (su.get('env') or {}).values()):
            return 'env_tilde'
    for ex in cfg['executors'].values():
        if any('~' in str(v) for v in (ex.get('env') or {}).values()):
            return 'env_tilde'
    return 'plain'


def judge_history(ck, inp, probe, outputs, observed, ans, klass=None):
    klass = klass or history_class(inp['cfg'])
    multi = any(len(r['files']) > 1 for r in probe.runs)
    ck.count('history:' + klass)
    ck.count('history-sessions:%d' % len(observed))
    ck.case(nontrivial_key=json.dumps([inp['cfg'], inp['specs'], inp['seed']], sort_keys=True, default=str)
            if len(observed) > 1 and sum(len(o.starts) for o in observed) else None,
            sample={'class': klass, 'starts': [len(o.starts) for o in observed]})
    if 'err' in ans:
        raise lib.InfraError('model rejected the scenario: %s' % ans)
    n_files = len(probe.files)
    recorded = {}        # run -> set of invocations that delivered data so far
    samples = {}         # run -> non-warm-up data points recorded so far (per file copy)
    for si, (ob, ms) in enumerate(zip(observed, ans['sessions'])):
        sinp = dict(inp, session=si)
        if ob.crash:
            exc = ob.crash[0]
            ck.oracle_fail('no_crash', sinp, {'crash': ob.crash},
                           {'class': klass, 'exception': exc, 'level': 'session'})
        # ---- correspondence
        impl_end = {'ok': 'complete', 'failed': 'complete', 'aborted': 'interrupted'}.get(ob.status, ob.status)
        impl_trace = [s for s in ob.starts if s[0] != 'report']
        impl_files = []
        for fi in range(n_files):
            kept = ob.files[fi].startswith(ob.before[fi])
            segs = dp.canon_segments(ob.files[fi][len(ob.before[fi]):] if kept else ob.files[fi], probe)
            impl_files.append({'prefix_kept': kept, 'segments': segs})
        impl_loaded = None if ob.loaded is None else [list(ob.loaded.get(i, (None, None))) for i in range(len(probe.runs))]
        model_loaded = [[r['m'], r['samples']] for r in ms['loaded']]
        impl = {'end': impl_end, 'trace': impl_trace, 'files': impl_files, 'loaded': impl_loaded}
        model_end = {'load-error:unknown-run-id': 'ui_error', 'load-error:mixed-data-point': 'ui_error',
                     'load-error:assert-bench-dup': 'crash:AssertionError',
                     'load-error:assert-bench-id': 'crash:AssertionError',
                     'load-error:assert-run-id': 'crash:AssertionError'}.get(ms['end'], ms['end'])
        model = {'end': model_end, 'trace': ms['trace'],
                 'files': [{'prefix_kept': f['prefix_kept'], 'segments': f['segments']} for f in ms['files']],
                 'loaded': model_loaded}
        if ms['end'].startswith('load-error'):
            impl.pop('loaded', None), model.pop('loaded', None)
        if ob.loaded is None:
            impl.pop('loaded'), model.pop('loaded')
        if impl != model:
            what = [k for k in impl if impl[k] != model[k]]
            ck.disagree('c07.sessions: session %d differs in %s' % (si, what), sinp,
                        {k: impl[k] for k in what} | {'status': ob.status, 'crash': ob.crash},
                        {k: model[k] for k in what}, TH_FILE + TH_ID)
        # ---- oracle
        # progress restored: recorded invocations count as done, sample count as in the recording sessions
        if ob.loaded is not None:
            for i, r in enumerate(probe.runs):
                want_m = max(recorded.get(i, {0}) | {0})
                want_s = samples.get(i, 0)
                got = ob.loaded.get(i)
                if got is None:
                    continue
                if got[0] != want_m:
                    ck.oracle_fail('progress_restored', sinp, {'run': r['cmd'], 'completed_invocations': got[0],
                                                               'recorded': want_m},
                                   {'class': run_sep_class(r) or klass, 'what': 'invocations'})
                elif got[1] != want_s:
                    ck.oracle_fail('progress_restored', sinp, {'run': r['cmd'], 'samples': got[1], 'recorded': want_s,
                                                               'files': len(r['files'])},
                                   {'class': ('run_in_%d_files' % len(r['files']) if len(r['files']) > 1 and
                                              got[1] == want_s * len(r['files']) else run_sep_class(r) or klass),
                                    'what': 'samples'})
        # every measurement recorded by earlier sessions reloads with the same invocation, iteration,
        # criterion, unit and value (6 decimals) -- per criterion, not only the totals
        if getattr(ob, 'reloaded', None) is not None and not ob.crash and ob.status != 'ui_error':
            want = set()
            for i, invs in recorded.items():
                for inv in invs:
                    for j, msx in enumerate(outputs[i][inv - 1]):
                        for (crit, unit, v) in msx:
                            # criterion and unit as labels on one line (a tab / line break is written as a space)
                            want.add((i, inv, j + 1, c06.one_line(crit), c06.one_line(unit),
                                      float(c06.fmt6_independent(v))))
            got = set((k, a, b, c, u, round(float(v), 6)) for (k, a, b, c, u, v) in ob.reloaded)
            want = set((k, a, b, c, u, round(v, 6)) for (k, a, b, c, u, v) in want)
            if got != want:
                missing = sorted(want - got, key=str)[:4]
                extra = sorted(got - want, key=str)[:4]
                allmiss = sorted(want - got, key=str)
                seps = [m for m in allmiss if '\t' in m[3] or '\r' in m[3]]
                others = [m for m in allmiss if m not in seps]
                odd = [m for m in others if any(ch in m[3] for ch in ' %#"\'/')]
                if others or not seps:
                    ck.oracle_fail('measurement_reloads', sinp, {'not_reloaded': (others or missing)[:4],
                                                                 'unexpected': extra, 'n_written': len(want),
                                                                 'n_reloaded': len(got)},
                                   {'class': 'criterion_with_unusual_characters' if odd else klass,
                                    'level': 'session'})
                for sepch, name in (('\t', 'tab_in_criterion'), ('\r', 'cr_in_criterion')):
                    ms_ = [m for m in seps if sepch in m[3]]
                    if ms_:
                        ck.oracle_fail('measurement_reloads', sinp, {'not_reloaded': ms_[:4]},
                                       {'class': name, 'level': 'session'})
        # recognised: nothing recorded is started again
        starts = [s for s in ob.starts if s[0] != 'report']
        last = len(starts) - 1     # the process that was running when an aborted session stopped
        for n, s in enumerate(starts):
            if s[0] != 'r':
                continue
            if s[2] in recorded.get(s[1], set()):
                ck.oracle_fail('recognised', sinp, {'run': probe.runs[s[1]]['cmd'], 'invocation': s[2],
                                                    'already_recorded': sorted(recorded[s[1]])},
                               {'class': run_sep_class(probe.runs[s[1]]) or klass, 'level': 'session'})
                break
        for n, s in enumerate(starts):
            if s[0] != 'r' or (ob.status == 'aborted' and n == last):
                continue
            o = outputs[s[1]][s[2] - 1] if s[2] - 1 < len(outputs[s[1]]) else None
            if o is not None and not ob.crash:
                recorded.setdefault(s[1], set()).add(s[2])
                samples[s[1]] = samples.get(s[1], 0) + max(0, len(o) - probe.runs[s[1]]['warmup'])
        # ids consecutive
        for fi in range(n_files):
            rids, bids = [], []
            for line in ob.files[fi].split('\n'):
                if line.startswith('# run_id: '):
                    rids.append(int(line[len('# run_id: '):].split('=', 1)[0]))
                elif line.startswith('# benchmark: '):
                    bids.append(int(line[len('# benchmark: '):].split('=', 1)[0]))
            if rids != list(range(len(rids))) or bids != list(range(len(bids))):
                ck.oracle_fail('ids_consecutive', sinp, {'file': probe.files[fi], 'run_ids': rids, 'bench_ids': bids},
                               {'class': klass})
    del multi


# ------------------------------------------------------------------ D end-to-end classes (corpus)
def special_history(ck, name, data):
    """corpus entries with their own fake-harness output (adapters other than RebenchLog, hostile
    criteria / units, dates): two sessions, oracle only"""
    inp = data['input']
    wd = os.path.join(ck.scratch, 'special-' + name)
    os.makedirs(wd)
    conf = drive.write_config(wd, inp['config_text'] if 'config_text' in inp else inp['cfg'])
    out_text = inp['harness_output']
    sessions = []
    for si in range(inp.get('sessions', 2)):
        r = drive.run_session(wd, [conf], lambda rec: drive.Outcome(0, out_text))
        dp.release_hanging()
        sessions.append(r)
        ck.impl_traces += 1
    klass = inp['class']
    ck.count('special:' + klass)
    ck.case(nontrivial_key=('special', name), sample={'class': klass, 'starts': [len(s.starts) for s in sessions]})
    first, second = sessions[0], sessions[1]
    for si, s in enumerate(sessions):
        if s.crash:
            ck.oracle_fail('no_crash', dict(inp, session=si), {'crash': s.crash},
                           {'class': klass, 'exception': s.crash[0], 'level': 'session'})
    if not first.crash and len(second.starts) > 0:
        ck.oracle_fail('recognised', inp, {'second_session_starts': len(second.starts),
                                           'first_session_starts': len(first.starts)},
                       {'class': klass, 'level': 'session'})
    # every measurement written by the first session reloads
    if not first.crash:
        from rebench.model.run_id import RunId
        seen = []
        orig = RunId.loaded_data_point

        def spy(self, data_point, warmup):
            for m in data_point.get_measurements():
                seen.append((m.invocation, m.iteration, m.criterion, m.unit))
            return orig(self, data_point, warmup)
        written = []
        orig_add = RunId.add_data_point

        def spy_add(self, data_point, warmup):
            for m in data_point.get_measurements():
                written.append((m.invocation, m.iteration, c06.one_line(m.criterion), c06.one_line(m.unit)))
            return orig_add(self, data_point, warmup)
        wd2 = os.path.join(ck.scratch, 'special2-' + name)
        os.makedirs(wd2)
        conf2 = drive.write_config(wd2, inp['config_text'] if 'config_text' in inp else inp['cfg'])
        RunId.add_data_point = spy_add
        try:
            drive.run_session(wd2, [conf2], lambda rec: drive.Outcome(0, out_text))
        finally:
            RunId.add_data_point = orig_add
        RunId.loaded_data_point = spy
        try:
            drive.run_session(wd2, [conf2, '-E'] if False else [conf2], lambda rec: drive.Outcome(0, out_text))
        finally:
            RunId.loaded_data_point = orig
        dp.release_hanging()
        missing = [w for w in written if w not in seen]
        if missing:
            ck.oracle_fail('measurement_reloads', inp, {'not_reloaded': missing[:5], 'written': len(written),
                                                        'reloaded': len(seen)},
                           {'class': klass, 'level': 'session'})


# ------------------------------------------------------------------ E parallel scheduler: ids
def parallel_ids_slice(ck, n):
    """>= 2 non-exclusive runs whose first data points arrive on two worker threads of the ParallelScheduler.
    A rendezvous inside the persist path -- on `RunId.as_dict`, which `_ensure_run_id_is_persisted` calls
    between choosing the next id and writing the `# run_id:` record -- gives a second thread its chance
    exactly there; with `persist_data_point` holding its lock around id choice and record the second thread
    cannot get in and the wait times out.  Oracle: ids consecutive in the file, the next session loads it
    without crash and starts nothing."""
    import threading
    from rebench.model.run_id import RunId
    rng = ck.rng
    for idx in range(n):
        n_bench = rng.randint(2, 4)
        cfg = {'default_experiment': 'all', 'default_data_file': 'par.data', 'runs': {'invocations': 1},
               'benchmark_suites': {'S0': {'gauge_adapter': 'RebenchLog',
                                           'command': '%(benchmark)s c%(cores)s i%(input)s v%(variable)s t%(tag)s w%(warmup)s n%(invocation)s',
                                           'benchmarks': ['P%d' % b for b in range(n_bench)]}},
               'executors': {'E0': {'path': '.', 'executable': 'exe0', 'execute_exclusively': False}},
               'experiments': {'X0': {'suites': ['S0'], 'executions': ['E0']}}}
        if rng.random() < 0.5:   # two suites: the benchmark records race too
            cfg['benchmark_suites']['S1'] = dict(cfg['benchmark_suites']['S0'], benchmarks=['Q0', 'Q1'])
            cfg['experiments']['X0']['suites'] = ['S0', 'S1']
        wd = os.path.join(ck.scratch, 'parid%d' % idx)
        os.makedirs(wd)
        drive.write_config(wd, cfg)
        probe = dp.Probe(wd, cfg, [])
        outputs = dp.gen_outputs(random.Random(rng.randint(0, 10 ** 9)), probe, fail_rate=0.0)
        cpu = rng.choice([5, 8])
        state = {'lock': threading.Lock(), 'inside': 0, 'event': threading.Event(), 'met': 0}
        orig_as_dict = RunId.as_dict
        main_thread = threading.current_thread()

        def rendezvous_as_dict(self, *a, **kw):
            if threading.current_thread() is not main_thread:
                with state['lock']:
                    state['inside'] += 1
                    if state['inside'] >= 2:
                        state['event'].set()
                        state['met'] += 1
                    ev = state['event']
                ev.wait(0.2)
                with state['lock']:
                    state['inside'] -= 1
                    if state['inside'] == 0:
                        state['event'] = threading.Event()
            return orig_as_dict(self, *a, **kw)
        conf = os.path.join(wd, 'test.conf')
        RunId.as_dict = rendezvous_as_dict
        try:
            r1 = drive.run_session(wd, [conf], dp.make_script(probe, outputs, []), cpu_count=cpu)
        finally:
            RunId.as_dict = orig_as_dict
            dp.release_hanging()
        text = dp.read_text(os.path.join(wd, 'par.data'))
        r2 = drive.run_session(wd, [conf], dp.make_script(probe, outputs, []), cpu_count=1)
        dp.release_hanging()
        ck.impl_traces += 2
        ck.count('parallel-ids:threads=%d' % int(cpu / 2.5))
        ck.count('parallel-ids:rendezvous-%s' % ('met' if state['met'] else 'timed-out'))
        inp = {'parallel_ids': True, 'cfg': cfg, 'cpu_count': cpu}
        ck.case(nontrivial_key=('parid', idx, n_bench, cpu), sample={'runs': len(probe.runs), 'cpu_count': cpu,
                                                                      'status': [r1.status(), r2.status()]})
        rids, bids = [], []
        for line in text.split('\n'):
            if line.startswith('# run_id: '):
                rids.append(int(line[len('# run_id: '):].split('=', 1)[0]))
            elif line.startswith('# benchmark: '):
                bids.append(int(line[len('# benchmark: '):].split('=', 1)[0]))
        sig = {'class': 'parallel_scheduler'}
        if r1.crash:
            ck.oracle_fail('no_crash', dict(inp, session=0), {'crash': r1.crash},
                           dict(sig, exception=r1.crash[0], level='session'))
        if rids != list(range(len(rids))) or bids != list(range(len(bids))) or len(rids) != len(probe.runs):
            ck.oracle_fail('ids_consecutive', inp, {'run_ids': rids, 'bench_ids': bids, 'runs': len(probe.runs)}, sig)
        if r2.crash or r2.status() not in ('ok', 'failed'):
            ck.oracle_fail('no_crash', dict(inp, session=1), {'status': r2.status(), 'crash': r2.crash},
                           dict(sig, exception=(r2.crash or ['-'])[0], level='session'))
        elif r2.starts:
            ck.oracle_fail('recognised', dict(inp, session=1), {'second_session_starts': len(r2.starts)},
                           dict(sig, level='session'))
        # model side: any sequential order of whole persists gives ids 0..n-1 (c07_ids_consecutive over Reach)
        if (rids, bids) != (list(range(len(probe.runs))), list(range(len(set(r['bench'] for r in probe.runs))))):
            ck.disagree('c07.parallel: ids written under the ParallelScheduler vs any sequential history of whole '
                        'persists', inp, {'run_ids': rids, 'bench_ids': bids},
                        {'run_ids': list(range(len(probe.runs))),
                         'bench_ids': list(range(len(set(r['bench'] for r in probe.runs))))}, TH_FILE)


# ------------------------------------------------------------------ F other processes, other hash seeds
CLI_HARNESS = """#!/bin/sh
echo "$*" >> "%(dir)s/starts.log"
echo "$1: mem: 12kb"
echo "$1: iterations=1 runtime: 5.5ms"
"""


def cross_process_histories(ck, n):
    """Sessions of one experiment in *different processes* with different PYTHONHASHSEED values over one data
    file (real `rebench` children, a /bin/sh harness): whatever ReBench builds from a set or from dict order
    -- tag lists, env maps, the run set -- must not enter the recorded identity in an order that another
    process would not reproduce.  Oracle: the second and third process start nothing, leave the file as it
    is, do not crash; ids consecutive."""
    import subprocess
    import sys
    rng = ck.rng
    for idx in range(n):
        wd = os.path.join(ck.scratch, 'xproc%d' % idx)
        os.makedirs(wd)
        harness = os.path.join(wd, 'harness.sh')
        with open(harness, 'w') as f:
            f.write(CLI_HARNESS % {'dir': wd})
        os.chmod(harness, 0o755)
        tags = rng.sample(['zeta', 'alpha', 'Mid', 'beta', 'omega', 't1', 'T2', 'x'], rng.randint(2, 5))
        suite = {'gauge_adapter': 'RebenchLog', 'command': '%(benchmark)s %(tag)s %(input)s %(invocation)s',
                 'benchmarks': rng.sample(['Bq', 'Ba', 'Bz', 'Bm'], rng.randint(1, 3)), 'tags': tags,
                 'input_sizes': rng.choice([['s', 'l', 'm'], [1, 2], ['only']]),
                 'env': dict(rng.sample([('ZED', 'z'), ('ALPHA', 'a'), ('MID', 'm'), ('beta', 'b')], rng.randint(2, 4)))}
        if rng.random() < 0.5:
            suite['variable_values'] = rng.sample(['v3', 'v1', 'v2', 'va'], rng.randint(2, 3))
        # non-ASCII text in identity fields that only the metadata records carry
        suite['description'] = rng.choice(['Größe der Ünï-Suite', 'π ≈ 3.14 — naïve', 'plain'])
        # (not in env values or the command line: a process with an ASCII locale cannot pass them to execve at all)
        cfg = {'default_experiment': 'all', 'default_data_file': 'x.data', 'runs': {'invocations': 1},
               'benchmark_suites': {'S': suite}, 'executors': {'E': {'path': wd, 'executable': 'harness.sh'}},
               'experiments': {'X': {'suites': ['S'], 'executions': ['E']}}}
        conf = drive.write_config(wd, cfg)
        seeds = rng.sample(['0', '1', '2', '7', '42', '123', '999', '31337'], 3)
        # the process environment of a session: hash seed x locale / encoding of text files
        locales = [{'LC_ALL': 'C.UTF-8', 'PYTHONUTF8': '1'},
                   {'LC_ALL': 'C', 'PYTHONUTF8': '0', 'PYTHONCOERCECLOCALE': '0'},
                   {'LANG': 'C.UTF-8', 'LC_ALL': 'C.UTF-8'}]
        rng.shuffle(locales)
        results = []
        for hs, loc in zip(seeds, locales):
            base = {k: v for k, v in os.environ.items() if k not in ('LC_ALL', 'LANG', 'PYTHONUTF8',
                                                                      'PYTHONCOERCECLOCALE', 'PYTHONIOENCODING')}
            env = dict(base, PYTHONPATH=lib.REPO, PYTHONDONTWRITEBYTECODE='1', PYTHONHASHSEED=hs, **loc)
            launcher = ('import sys; sys.argv=["rebench","-D",%r]; from rebench.rebench import main_func; '
                        'sys.exit(main_func())' % conf)
            p = subprocess.Popen([sys.executable, '-B', '-c', launcher], cwd=wd, env=env,
                                 stdout=subprocess.PIPE, stderr=subprocess.PIPE)
            try:
                out, err = p.communicate(timeout=120)
            except subprocess.TimeoutExpired:
                p.kill()
                p.communicate()
                raise lib.InfraError('CLI session hung')
            starts = dp.read_text(os.path.join(wd, 'starts.log')).count('\n')
            results.append({'hashseed': hs, 'locale': loc, 'exit': p.returncode, 'starts_total': starts,
                            'traceback': 'Traceback' in err.decode('utf-8', 'replace'),
                            'stderr_tail': err.decode('utf-8', 'replace')[-300:],
                            'text': dp.read_text(os.path.join(wd, 'x.data'))})
            ck.impl_traces += 1
        n_runs = len(suite['benchmarks']) * len(tags) * len(suite['input_sizes']) * len(suite.get('variable_values', [1]))
        inp = {'cross_process': True, 'cfg': cfg, 'hash_seeds': seeds, 'locales': locales, 'runs': n_runs}
        ck.count('cross-process:tags=%d' % len(tags))
        ck.case(nontrivial_key=('xproc', idx, tuple(seeds)), sample={'tags': tags, 'hash_seeds': seeds,
                                                                     'exits': [r['exit'] for r in results]})
        sig = {'class': 'other_process_other_hash_seed_or_locale'}
        first = results[0]
        if first['traceback'] or first['starts_total'] != n_runs:
            ck.oracle_fail('no_crash' if first['traceback'] else 'first_session_runs_everything', inp,
                           {k: first[k] for k in ('exit', 'starts_total', 'stderr_tail')}, dict(sig, level='session'))
            continue
        for r, prev in zip(results[1:], results[:-1]):
            d = {'hashseed': r['hashseed'], 'locale': r['locale'], 'previous_locale': prev['locale'], 'exit': r['exit'],
                 'new_starts': r['starts_total'] - prev['starts_total'],
                 'stderr_tail': r['stderr_tail'] if r['traceback'] else ''}
            if r['traceback']:
                ck.oracle_fail('no_crash', inp, d, dict(sig, level='session'))
            elif r['starts_total'] != prev['starts_total']:
                ck.oracle_fail('recognised', inp, d, dict(sig, level='session'))
            elif r['text'] != prev['text']:
                ck.oracle_fail('file_unchanged_by_rerun', inp, d, dict(sig, level='session'))
        rids = [int(l[len('# run_id: '):].split('=', 1)[0]) for l in results[-1]['text'].split('\n')
                if l.startswith('# run_id: ')]
        if rids != list(range(len(rids))):
            ck.oracle_fail('ids_consecutive', inp, {'run_ids': rids}, sig)
        import shutil
        shutil.rmtree(wd, ignore_errors=True)


def run(ck):
    quick = ck.tier == 'quick'
    ck.rule = ('A: configured keys of generated configurations (env maps with ~ % unicode, mixed-type variable lists, '
               '"n!" strings, builds, descriptions, folded scalars) through as_dict/json/from_dict, plus the __eq__ '
               'field lists attribute by attribute; B: measurement lines with generated values (ties, 0, 1e9), units, '
               'criteria, columns incl. hostile separators; C: histories of 2-4 sessions incl. interrupted ones; '
               'non-trivial = distinct key / line / history with at least one start and a follow-up session')
    ck.assumptions = ['CPython json is the identity on None/bool/int/str/float/list/str-keyed dict',
                      'float("%f" % x) is compared with the exact decimal rational of the model after rounding to double']
    for name, data in c06.load_corpus(ck):
        kind = data.get('kind_of_witness')
        if kind == 'special':
            special_history(ck, name.replace('.json', ''), data)
        elif kind == 'history':
            scen = dict(data['input'])
            session_check(ck, [scen], 'corpus-' + name.replace('.json', ''))
        ck.count('corpus')
    identity_check(ck, 40 if quick else 600)
    line_check(ck, 600 if quick else 20000)
    parallel_ids_slice(ck, 5 if quick else 60)
    cross_process_histories(ck, 3 if quick else 40)
    n_hist = 60 if quick else 1500
    batch = []
    for i in range(n_hist):
        batch.append(gen_history(ck.rng))
        if len(batch) == 30:
            session_check(ck, batch, 'h%d-' % i)
            batch = []
    if batch:
        session_check(ck, batch, 'hl-')


def replay(ck, data):
    inp = data['input']
    if inp.get('cross_process'):
        ck.notes.append('cross-process replays re-run the slice from the seed')
        cross_process_histories(ck, 3)
    elif inp.get('parallel_ids'):
        ck.notes.append('parallel replays re-run the slice from the seed')
        parallel_ids_slice(ck, 5)
    elif 'line' in inp:
        ck.notes.append('line replays: the fixed hostile table and the seed regenerate it')
        line_check(ck, 600)
    elif 'harness_output' in inp:
        special_history(ck, 'replay', data)
    elif 'specs' in inp:
        scen = {k: inp[k] for k in ('cfg', 'specs', 'seed', 'argv', 'outputs', 'raw', 'build_ok', 'hostile', 'hostile_applied') if k in inp}
        if scen.get('outputs'):
            scen['outputs'] = [[None if o is None else [[tuple(m) for m in d] for d in o] for o in per]
                               for per in scen['outputs']]
        session_check(ck, [scen], 'replay')
    else:
        wd = os.path.join(ck.scratch, 'replay-id')
        os.makedirs(wd)
        ck.rng = random.Random(0)
        identity_check(ck, 40)
