"""C08 — interrupt at any invocation boundary, resume: same data as an uninterrupted run.

Correspondence: for generated scenarios (2-4 runs or more, 1-3 invocations,
builds, failing invocations) × batch / round-robin / random scheduler, *every*
stop point k = 1..(number of process starts): a session interrupted by
`KeyboardInterrupt` while the k-th scripted process runs, optionally a second
and third interrupted session, then sessions until one completes, then one
more (re-run of a completed experiment) — against `RB.Session.sessions`
(starts of every session, lines appended to every file, how each session ends).
Oracle: final files as multisets of measurement rows against an uninterrupted
control run of the real code; data-delivering starts as a multiset against the
control; nothing recorded is started again; the re-run starts nothing and
leaves every file byte-identical; interrupted sessions end with exit status 2.
Thorough tier adds real CLI processes with a `/bin/sh` harness and real signals.
"""
import collections
import json
import os
import random
import shutil
import signal
import subprocess
import sys
import time

import lib
import drive
import drive_persist as dp
from corr import c06

THEOREMS = ['RB.Session.c08_resume_equiv', 'RB.Session.c08_resume_equiv_counts', 'RB.Session.c08_rerun_noop', 'RB.Session.c08_final_recorded_spec',
            'RB.Session.c08_interrupted_safe']
SCHEDS = ['batch', 'round-robin', 'random']


def gen_cfg(rng):
    for _ in range(50):
        cfg = dp.gen_config(rng, {'max_exp': 2, 'max_inv': 3, 'builds': True})
        yield cfg


def rows_of(text):
    return sorted('\t'.join(r[:-1]) for r in c06.dp_rows(text, False))


def make_chain(rng, sched, k, total, chain_len):
    specs = [{'sched': sched, 'stop': k}]
    for _ in range(chain_len - 1):
        specs.append({'sched': rng.choice(SCHEDS), 'stop': rng.randint(1, max(1, total))})
    specs += [{'sched': rng.choice(SCHEDS), 'stop': None} for _ in range(2)]
    for s in specs:
        s['choices'] = [rng.randint(0, 50) for _ in range(60)] if s['sched'] == 'random' else []
    return specs


def scenario_chains(ck, cfg, seed, quick, idx, extra=None):
    """control run, then a chain for every stop point and scheduler"""
    rng = random.Random(seed)
    control = {'cfg': cfg, 'specs': [{'sched': 'batch', 'choices': [], 'stop': None}], 'seed': seed,
               'argv': ['-f'] if rng.random() < 0.15 else []}
    control.update(extra or {})
    r = c06.run_scenario(ck, control, 'c%d-control' % idx)
    if r is None:
        return []
    probe, outputs, build_ok, observed = r
    ctl = observed[0]
    total = len(ctl.starts)
    if total == 0 or total > (10 if quick else 40) or any(p['profile'] for p in probe.runs):
        ck.count('scenario:skipped-size')
        return []
    if ctl.status not in ('ok', 'failed'):
        raise lib.InfraError('control session ended %s %s' % (ctl.status, ctl.crash))
    items = [(control, probe, outputs, build_ok, observed, None)]
    for sched in SCHEDS:
        for k in range(1, total + 1):
            chain_len = 1 if rng.random() < 0.6 else rng.choice([2, 3])
            specs = make_chain(rng, sched, k, total, chain_len)
            scen = {'cfg': cfg, 'specs': specs, 'seed': seed, 'argv': list(control.get('argv', [])),
                    'outputs': control['outputs'], 'raw': control['raw'], 'build_ok': build_ok,
                    'hostile_applied': True}
            rr = c06.run_scenario(ck, scen, 'c%d-%s-%d' % (idx, sched[:2], k))
            if rr is None:
                continue
            items.append((scen,) + rr + (ctl,))
            shutil.rmtree(os.path.join(ck.scratch, 'c%d-%s-%d' % (idx, sched[:2], k)), ignore_errors=True)
    ck.count('stop-points:%d' % total)
    return items


def judge_items(ck, items):
    ops = []
    for (scen, probe, outputs, build_ok, observed, ctl) in items:
        specs = [{'sched': s['sched'], 'choices': s['choices'], 'stop': s.get('stop'),
                  'order': [i for i in (ob.order or []) if i is not None]}
                 for s, ob in zip(scen['specs'], observed)]
        ops.append(dp.scenario_op('c08.sessions', probe, outputs, build_ok, specs))
    answers = ck.model(ops)
    for (scen, probe, outputs, build_ok, observed, ctl), ans in zip(items, answers):
        inp = {'cfg': scen['cfg'], 'specs': scen['specs'], 'seed': scen['seed'], 'argv': scen.get('argv', []),
               'outputs': scen['outputs'], 'raw': scen.get('raw'), 'build_ok': build_ok}
        judge(ck, inp, probe, outputs, observed, ans, ctl)


def judge(ck, inp, probe, outputs, observed, ans, ctl):
    if 'err' in ans:
        raise lib.InfraError('model rejected the scenario: %s' % ans)
    stops = [s.get('stop') for s in inp['specs']]
    ck.count('chain:%d-interruptions' % sum(1 for ob in observed if ob.status == 'aborted'))
    ck.count('sched:' + inp['specs'][0]['sched'])
    ck.case(nontrivial_key=json.dumps([inp['cfg'], [(s['sched'], s.get('stop')) for s in inp['specs']], inp['seed']],
                                      sort_keys=True, default=str) if ctl is not None else None,
            sample={'stops': stops, 'scheds': [s['sched'] for s in inp['specs']],
                    'starts': [len(ob.starts) for ob in observed], 'ends': [ob.status for ob in observed]})
    n_files = len(probe.files)
    # ---- correspondence
    for si, (ob, ms) in enumerate(zip(observed, ans['sessions'])):
        impl_end = {'ok': 'complete', 'failed': 'complete', 'aborted': 'interrupted'}.get(ob.status, ob.status)
        impl_files = []
        for fi in range(n_files):
            kept = ob.files[fi].startswith(ob.before[fi])
            lines, _m = dp.canon_lines(ob.files[fi][len(ob.before[fi]):] if kept else ob.files[fi], probe)
            impl_files.append({'prefix_kept': kept, 'appended': lines})
        impl = {'end': impl_end, 'trace': ob.starts, 'files': impl_files}
        model = {'end': ms['end'], 'trace': ms['trace'], 'files': [{'prefix_kept': f['prefix_kept'], 'appended': f['appended']} for f in ms['files']]}
        if impl != model:
            what = [k for k in impl if impl[k] != model[k]]
            ck.disagree('c08.sessions: session %d differs in %s' % (si, what), dict(inp, session=si),
                        {k: impl[k] for k in what} | {'status': ob.status, 'crash': ob.crash},
                        {k: model[k] for k in what}, THEOREMS)
    if ctl is None:
        return
    # ---- oracle
    for si, ob in enumerate(observed):
        c06.flush_oracle(ck, dict(inp, session=si), probe, outputs, ob, set())
        if ob.crash:
            ck.oracle_fail('no_crash', dict(inp, session=si), {'crash': ob.crash}, {'exception': ob.crash[0]})
            return
        if ob.status not in ('ok', 'failed', 'aborted'):     # e.g. exit 3: the data file cannot be loaded any more
            ck.oracle_fail('session_runs', dict(inp, session=si), {'status': ob.status, 'stderr': ob.stderr[-300:]},
                           {'status': ob.status})
            return
        if ob.status == 'aborted' and ob.exit != 2:
            ck.oracle_fail('exit_status_aborted', dict(inp, session=si), {'exit': ob.exit})
    complete = [i for i, ob in enumerate(observed) if ob.status in ('ok', 'failed')]
    if not complete:
        ck.oracle_fail('chain_completes', inp, {'ends': [ob.status for ob in observed]})
        return
    first_complete = complete[0]
    final = observed[first_complete]
    # measurements: same multiset as the uninterrupted execution, none lost, none duplicated
    for fi in range(n_files):
        got, want = rows_of(final.files[fi]), rows_of(ctl.files[fi])
        if got != want:
            cg, cw = collections.Counter(got), collections.Counter(want)
            lost, dup = list((cw - cg).elements()), list((cg - cw).elements())
            ck.oracle_fail('resume_multiset', inp, {'file': probe.files[fi], 'lost': lost[:4], 'duplicated': dup[:4],
                                                    'n_got': len(got), 'n_want': len(want)},
                           {'kind': 'lost' if lost and not dup else 'duplicated' if dup and not lost else 'both'})
    # exactly the invocations not yet recorded are executed
    delivered = []
    recorded = set()
    for si, ob in enumerate(observed[:first_complete + 1]):
        starts = ob.starts
        for n, s in enumerate(starts):
            if s[0] != 'r':
                continue
            if (s[1], s[2]) in recorded:
                ck.oracle_fail('recorded_not_restarted', dict(inp, session=si),
                               {'run': probe.runs[s[1]]['cmd'], 'invocation': s[2]})
            interrupted = ob.status == 'aborted' and n == len(starts) - 1
            o = outputs[s[1]][s[2] - 1] if s[2] - 1 < len(outputs[s[1]]) else None
            if o is not None and not interrupted:
                delivered.append((s[1], s[2]))
                recorded.add((s[1], s[2]))
    ctl_delivered = [(s[1], s[2]) for s in ctl.starts if s[0] == 'r'
                     and (outputs[s[1]][s[2] - 1] if s[2] - 1 < len(outputs[s[1]]) else None) is not None]
    if sorted(delivered) != sorted(ctl_delivered):
        ck.oracle_fail('resume_starts', inp, {'delivered': sorted(delivered), 'control': sorted(ctl_delivered)})
    # restarting a completed experiment starts nothing and leaves every file byte-identical
    experiment_completed = all(
        all(o is not None for o in outputs[i][:r['invocations']]) and all(inp['build_ok'][b] for b in r['builds'])
        for i, r in enumerate(probe.runs))
    ck.count('experiment-completes' if experiment_completed else 'experiment-has-failing-runs')
    for si in range(first_complete + 1, len(observed)):
        ob = observed[si]
        if experiment_completed:
            bad_starts = ob.starts
        else:   # a deterministically failing invocation (or build) is tried again in every session; nothing else
            bad_starts = [s for s in ob.starts if s[0] == 'r' and
                          (outputs[s[1]][s[2] - 1] if s[2] - 1 < len(outputs[s[1]]) else None) is not None]
        if bad_starts or ob.files != final.files:
            ck.oracle_fail('rerun_noop', dict(inp, session=si),
                           {'starts': bad_starts[:5], 'files_changed': [probe.files[i] for i in range(n_files)
                                                                        if ob.files[i] != final.files[i]]},
                           {'what': 'starts' if bad_starts else 'bytes'})


# ---------------------------------------------------------------- thorough: real processes, real signals
HARNESS_SH = r"""#!/bin/sh
# fake benchmark harness: logs its start, then signals its ReBench ancestor or prints results
dir="%(dir)s"
n=$(cat "$dir/count" 2>/dev/null || echo 0)
n=$((n+1))
echo $n > "$dir/count"
echo "$n $*" >> "$dir/starts.log"
stop=$(cat "$dir/stop" 2>/dev/null || echo 0)
if [ "$n" = "$stop" ]; then
  kill -%(sig)s $(cat "$dir/rebench.pid")
  sleep 5
  exit 1
fi
j=1
while [ $j -le %(iters)d ]; do
  echo "$1: mem: $((j * 1000 + 123))kb"
  echo "$1: gc: $((j + 7)).25ms"
  echo "$1: iterations=1 runtime: $((j %% 7 + 1)).5ms"
  j=$((j+1))
done
"""


def cli_sessions(ck, n_scen, forced=()):
    """real CLI: `python -m rebench` children with a /bin/sh harness that sends INT / TERM / KILL to
    its ReBench ancestor at the k-th start.  Only pids started here are ever signalled.
    `forced`: specs run first; the 'big' one prints 80 iterations x 3 criteria per invocation (> 8 KB per
    invocation), so that data persisted but not flushed would be cut at a buffer boundary by SIGKILL."""
    rng = ck.rng
    specs = list(forced)
    for _ in range(n_scen):
        n_runs = rng.randint(2, 3)
        n_inv = rng.randint(1, 2)
        specs.append({'sig': rng.choice(['INT', 'TERM', 'KILL']), 'runs': n_runs, 'inv': n_inv,
                      'k': rng.randint(1, n_runs * n_inv), 'sched': rng.choice(SCHEDS),
                      'iters': rng.choice([2, 2, 3, 80]), 'debug': rng.random() < 0.5})
    for idx, sp in enumerate(specs):
        sig, n_runs, n_inv, k, sched, iters = sp['sig'], sp['runs'], sp['inv'], sp['k'], sp['sched'], sp['iters']
        debug = bool(sp.get('debug'))     # -d: the output is read line by line while the process runs
        wd = os.path.join(ck.scratch, 'cli%d' % idx)
        os.makedirs(wd)
        harness = os.path.join(wd, 'harness.sh')
        with open(harness, 'w') as f:
            f.write(HARNESS_SH % {'dir': wd, 'sig': sig, 'iters': iters})
        os.chmod(harness, 0o755)
        cfg = {'default_experiment': 'all', 'default_data_file': 'cli.data', 'runs': {'invocations': n_inv},
               'benchmark_suites': {'S': {'gauge_adapter': 'RebenchLog', 'command': '%(benchmark)s %(invocation)s',
                                          'benchmarks': ['B%d' % i for i in range(n_runs)]}},
               'executors': {'E': {'path': wd, 'executable': 'harness.sh'}},
               'experiments': {'X': {'suites': ['S'], 'executions': ['E']}}}
        conf = drive.write_config(wd, cfg)

        def session(stop):
            with open(os.path.join(wd, 'stop'), 'w') as f:
                f.write(str(stop))
            if os.path.exists(os.path.join(wd, 'count')):
                os.unlink(os.path.join(wd, 'count'))
            env = dict(os.environ, PYTHONPATH=lib.REPO, PYTHONDONTWRITEBYTECODE='1', PYTHONHASHSEED='0')
            launcher = ('import os,sys; open(%r,"w").write(str(os.getpid())); sys.argv=["rebench","-D"%s,"-s",%r,%r]; '
                        'from rebench.rebench import main_func; sys.exit(main_func())'
                        % (os.path.join(wd, 'rebench.pid'), ',"-d"' if debug else '', sched, conf))
            p = subprocess.Popen([sys.executable, '-B', '-c', launcher], cwd=wd, env=env,
                                 stdout=subprocess.PIPE, stderr=subprocess.PIPE)
            try:
                p.communicate(timeout=60)
            except subprocess.TimeoutExpired:
                p.kill()
                p.communicate()
                raise lib.InfraError('CLI session hung')
            return p.returncode
        rc1 = session(k)
        text1 = dp.read_text(os.path.join(wd, 'cli.data'))
        time.sleep(0.05)
        rc2 = session(0)
        text2 = dp.read_text(os.path.join(wd, 'cli.data'))
        rc3 = session(0)
        text3 = dp.read_text(os.path.join(wd, 'cli.data'))
        ck.impl_traces += 3
        ck.count('cli:' + sig + (':big-output' if iters >= 60 else '') + (':-d' if debug else ''))
        ck.case(nontrivial_key=('cli', idx, sig, k, sched, iters),
                sample={'signal': sig, 'stop': k, 'sched': sched, 'iterations': iters, 'exit': [rc1, rc2, rc3]})
        inp = {'cli': True, 'signal': sig, 'stop': k, 'sched': sched, 'runs': n_runs, 'invocations': n_inv, 'debug': debug,
               'iterations_per_invocation': iters}
        want_rc = {'INT': 2, 'TERM': 2, 'KILL': -9}[sig]
        if rc1 != want_rc:
            ck.oracle_fail('exit_status_aborted', inp, {'exit': rc1, 'expected': want_rc}, {'signal': sig})
        if not text2.startswith(text1):
            ck.oracle_fail('append_only_after_signal', inp, {'signal': sig})
        if text1 and not text1.endswith('\n'):
            ck.oracle_fail('whole_lines_after_signal', inp, {'signal': sig, 'tail': text1[-60:]}, {'signal': sig})
        rows = []
        for line in text2.split('\n'):
            if line and not line.startswith('#') and line != dp.HEADER:
                r = line.split('\t')
                rows.append(r[:2] + r[4:14] if len(r) == 15 else ['torn'] + r)
        want = sorted([str(i + 1), str(it), crit] + ['B%d' % b, 'E', 'S', '', '1', '', '', '', '']
                      for b in range(n_runs) for i in range(n_inv) for it in range(1, iters + 1)
                      for crit in ('mem', 'gc', 'total'))
        if sorted(rows) != want:
            cg, cw = collections.Counter(map(tuple, rows)), collections.Counter(map(tuple, want))
            lost, extra = list((cw - cg).elements()), list((cg - cw).elements())
            ck.oracle_fail('resume_multiset', inp, {'lost': [list(x)[:4] for x in lost[:4]], 'n_lost': len(lost),
                                                    'unexpected': [list(x)[:4] for x in extra[:3]],
                                                    'n': len(rows), 'want_n': len(want)},
                           {'kind': 'cli', 'signal': sig})
        if text3 != text2:
            ck.oracle_fail('rerun_noop', inp, {'signal': sig}, {'what': 'bytes'})
        shutil.rmtree(wd, ignore_errors=True)


BIG_KILL = [{'sig': 'KILL', 'runs': 2, 'inv': 2, 'k': 2, 'sched': 'batch', 'iters': 80},
            {'sig': 'KILL', 'runs': 2, 'inv': 2, 'k': 4, 'sched': 'round-robin', 'iters': 80, 'debug': True}]


# ---------------------------------------------------------------- torn tail
def well_formed_rows(text):
    """measurement rows a reader can attribute: 15 columns, numeric invocation / iteration / run id"""
    out = []
    for line in text.split('\n'):
        if line == '' or line.startswith('#') or line == dp.HEADER:
            continue
        cols = line.split('\t')
        if len(cols) >= 15 and cols[0].isdigit() and cols[1].isdigit() and cols[-1].isdigit():
            out.append('\t'.join(cols[:-1]))
    return sorted(out)


def torn_tail_chains(ck, n_scen):
    """A kill that tears the write of a data point: session 1 is stopped at the k-th start and the data file
    is cut inside the *first* line of the last recorded invocation (that invocation is then not on disk, the
    file ends without a newline) -- at every column boundary and inside fields.  Session 2 is interrupted
    again after a few starts, session 3 runs to completion, session 4 is the re-run.  Oracle: the
    well-formed measurement rows at the end equal the uninterrupted control's (the torn remainder may stay
    as one unreadable line), no crash, the re-run starts nothing it should not.  Model: the sessions after
    the cut start from the model's own file contents without that invocation's lines."""
    rng = ck.rng
    done, tries = 0, 0
    firsts = []      # phase 1: interrupted first sessions
    while done < n_scen and tries < n_scen * 8:
        tries += 1
        cfg = dp.gen_config(rng, {'max_exp': 1, 'max_inv': 2, 'builds': False})
        seed = rng.randint(0, 10 ** 9)
        control = {'cfg': cfg, 'specs': [{'sched': 'batch', 'choices': [], 'stop': None}], 'seed': seed, 'argv': []}
        r = c06.run_scenario(ck, control, 'torn%d-control' % tries)
        if r is None:
            continue
        probe, outputs, build_ok, observed = r
        ctl = observed[0]
        if len(probe.files) != 1 or len(probe.runs) < 2 or len(probe.runs) > 5 or len(ctl.starts) < 3 \
                or ctl.status not in ('ok', 'failed'):
            continue
        done += 1
        total = len(ctl.starts)
        for k in sorted(rng.sample(range(2, total + 1), min(3, total - 1))):
            sched1 = rng.choice(['round-robin', 'round-robin', 'batch', 'random'])
            spec1 = {'sched': sched1, 'stop': k, 'choices': [rng.randint(0, 50) for _ in range(60)]}
            first = {'cfg': cfg, 'specs': [spec1], 'seed': seed, 'argv': [], 'outputs': control['outputs'],
                     'raw': control['raw'], 'build_ok': build_ok, 'hostile_applied': True}
            tag = 'torn%d-k%d' % (tries, k)
            r1 = c06.run_scenario(ck, first, tag)
            if r1 is None:
                continue
            probe1, outs1, _bo, obs1 = r1
            ob1 = obs1[0]
            if ob1.status != 'aborted':
                continue
            last = None
            for st in ob1.starts[:-1]:
                if st[0] == 'r' and outs1[st[1]][st[2] - 1] is not None:
                    last = st
            if last is None:
                continue
            n_rows = sum(len(ms) for ms in outs1[last[1]][last[2] - 1])
            text = ob1.files[0]
            block = text.split('\n')[:-1][-n_rows:]
            if not all(l.split('\t')[0] == str(last[2]) and
                       '\t'.join(l.split('\t')[5:-1]) == '\t'.join(probe1.runs[last[1]]['cols'])
                       for l in block):
                continue
            spec1m = dict(spec1, order=[i for i in (ob1.order or []) if i is not None])
            firsts.append({'cfg': cfg, 'seed': seed, 'control': control, 'ctl': ctl, 'probe': probe1, 'outs': outs1,
                           'build_ok': build_ok, 'spec1': spec1, 'text': text, 'block': block, 'n_rows': n_rows,
                           'wd': os.path.join(ck.scratch, tag), 'tries': tries, 'k': k,
                           'op': dp.scenario_op('c08.sessions', probe1, outs1, build_ok, [spec1m])})
    answers1 = ck.model([f['op'] for f in firsts])
    chains = []      # phase 2: the sessions after the cut
    for f, ans1 in zip(firsts, answers1):
        model_lines = ans1['final'][0]
        n_rows = f['n_rows']
        if any(l[0] != 'M' for l in model_lines[-n_rows:]):
            continue
        contents = [model_lines[:-n_rows]]
        text, block, probe1, outs1, build_ok = f['text'], f['block'], f['probe'], f['outs'], f['build_ok']
        block_start = len(text) - sum(len(l) + 1 for l in block)
        first_line = block[0]
        bounds = [i for i, ch in enumerate(first_line) if ch == '\t']
        cuts = sorted(set(bounds + [b + 1 for b in bounds[:3]] + [rng.randint(1, len(first_line) - 1) for _ in range(2)]))
        cuts = rng.sample(cuts, min(6, len(cuts)))
        for cut in cuts:
            torn = text[:block_start + cut]
            with open(os.path.join(f['wd'], probe1.files[0]), 'w', newline='') as fh:
                fh.write(torn)
            specs = [{'sched': rng.choice(SCHEDS), 'stop': rng.randint(2, 4)},
                     {'sched': rng.choice(SCHEDS), 'stop': None}, {'sched': rng.choice(SCHEDS), 'stop': None}]
            for sp in specs:
                sp['choices'] = [rng.randint(0, 50) for _ in range(60)]
            prev = [torn]
            obs = []
            for sp in specs:
                script = dp.make_script(probe1, outs1, build_ok, stop=sp.get('stop'), raw=probe1.raw)
                ob = dp.run_real_session(f['wd'], probe1, ['-s', sp['sched']], script,
                                         random_choice=dp.choice_fn(sp['choices']) if sp['sched'] == 'random' else None)
                ob.before = prev
                prev = ob.files
                obs.append(ob)
                ck.impl_traces += 1
            last_col = first_line[:cut].split('\t')[-1]
            inp = {'torn_tail': True, 'cfg': f['cfg'], 'seed': f['seed'], 'first_session': f['spec1'],
                   'cut_after': first_line[:cut], 'later_sessions': specs, 'raw': f['control']['raw'],
                   'build_ok': build_ok}
            ck.count('torn:last-complete-field-%s' % ('integer' if last_col.isdigit() else 'other'))
            ck.case(nontrivial_key=('torn', f['tries'], f['k'], cut), sample={'cut_after': first_line[:cut],
                                                                               'ends': [o.status for o in obs]})
            mspecs = [dict(sp, order=[i for i in (ob.order or []) if i is not None]) for sp, ob in zip(specs, obs)]
            op = dp.scenario_op('c08.sessions', probe1, outs1, build_ok, mspecs)
            op['contents'] = contents
            chains.append((inp, f, obs, op))
    answers = ck.model([c[3] for c in chains])
    for (inp, f, obs, _op), ans in zip(chains, answers):
        probe1, outs1, ctl = f['probe'], f['outs'], f['ctl']
        if 'err' in ans:
            raise lib.InfraError('model rejected the torn-tail scenario: %s' % str(ans)[:300])
        for si, (ob, ms) in enumerate(zip(obs, ans['sessions'])):
            impl_end = {'ok': 'complete', 'failed': 'complete', 'aborted': 'interrupted'}.get(ob.status, ob.status)
            kept = ob.files[0].startswith(ob.before[0])
            lines_i, _m = dp.canon_lines(ob.files[0][len(ob.before[0]):] if kept else ob.files[0], probe1)
            impl = {'end': impl_end, 'trace': ob.starts, 'appended': lines_i, 'prefix_kept': kept}
            model = {'end': ms['end'], 'trace': ms['trace'], 'appended': ms['files'][0]['appended'],
                     'prefix_kept': ms['files'][0]['prefix_kept']}
            if impl != model:
                what = [x for x in impl if impl[x] != model[x]]
                ck.disagree('c08.sessions after a torn tail: session %d differs in %s' % (si + 2, what),
                            dict(inp, session=si + 2), {x: impl[x] for x in what} | {'crash': ob.crash},
                            {x: model[x] for x in what}, THEOREMS)
        for si, ob in enumerate(obs):
            if ob.crash or ob.status == 'ui_error':
                ck.oracle_fail('no_crash', dict(inp, session=si + 2), {'status': ob.status, 'crash': ob.crash},
                               {'history': 'torn_tail'})
        final = obs[1]
        got, want = well_formed_rows(final.files[0]), well_formed_rows(ctl.files[0])
        if got != want:
            cg, cw = collections.Counter(got), collections.Counter(want)
            lost, dup = list((cw - cg).elements()), list((cg - cw).elements())
            ck.oracle_fail('resume_multiset', inp, {'lost': lost[:4], 'duplicated': dup[:4],
                                                    'n_got': len(got), 'n_want': len(want)},
                           {'kind': 'lost' if lost and not dup else 'duplicated' if dup and not lost else 'both',
                            'history': 'torn_tail'})
        rer = obs[2]
        bad = [st for st in rer.starts if st[0] == 'r' and outs1[st[1]][st[2] - 1] is not None]
        if bad or rer.files != final.files:
            ck.oracle_fail('rerun_noop', dict(inp, session=4), {'starts': bad[:4]},
                           {'what': 'starts' if bad else 'bytes', 'history': 'torn_tail'})


# ---------------------------------------------------------------- parallel scheduler, Ctrl-C
def parallel_interrupt_slice(ck, n):
    """>= 2 non-exclusive runs under the ParallelScheduler (2-3 worker threads), runs that tolerate time-outs
    (`ignore_timeouts: true` with a `max_invocation_time`) or a session with `--faulty`: KeyboardInterrupt
    reaches the main thread while the k-th benchmark process has printed its first data point but not the
    others; ReBench kills it (exit -9, the time-out code).  What a killed process printed is not the result
    of an invocation: nothing of it may be recorded, and the resumed session has to run that invocation.
    Oracle: final rows equal the uninterrupted control's, no recorded invocation is started again, the
    interrupted one is; re-run no-op."""
    import random as _random
    rng = ck.rng
    for idx in range(n):
        n_bench = rng.randint(2, 4)
        n_inv = rng.randint(1, 2)
        mode = rng.choice(['ignore_timeouts', 'ignore_timeouts', 'faulty', 'plain'])
        suite = {'gauge_adapter': 'RebenchLog',
                 'command': '%(benchmark)s c%(cores)s i%(input)s v%(variable)s t%(tag)s w%(warmup)s n%(invocation)s',
                 'benchmarks': ['P%d' % b for b in range(n_bench)]}
        if mode == 'ignore_timeouts':
            suite['ignore_timeouts'] = True
            suite['max_invocation_time'] = 600
        cfg = {'default_experiment': 'all', 'default_data_file': 'par.data', 'runs': {'invocations': n_inv},
               'benchmark_suites': {'S0': suite},
               'executors': {'E0': {'path': '.', 'executable': 'exe0', 'execute_exclusively': False}},
               'experiments': {'X0': {'suites': ['S0'], 'executions': ['E0']}}}
        argv = ['-f'] if mode == 'faulty' else []
        wd = os.path.join(ck.scratch, 'parint%d' % idx)
        os.makedirs(wd)
        drive.write_config(wd, cfg)
        probe = dp.Probe(wd, cfg, argv)
        outputs = dp.gen_outputs(_random.Random(rng.randint(0, 10 ** 9)), probe, fail_rate=0.0)
        outputs = [[(o if len(o) >= 2 else o + o) for o in per] for per in outputs]   # >= 2 data points each
        total = len(probe.runs) * n_inv
        k = rng.randint(1, total)
        cpu = rng.choice([5, 8])
        # schedule: usually the interrupt finds the main thread waiting for its workers; 'start-window': it
        # arrives while the first worker already runs its benchmark and the main thread starts the second
        window = rng.random() < 0.35
        if window:
            k = 1
        state = {'n': 0, 'lock': __import__('threading').Lock(), 'interrupted': None}

        def script(rec, interrupt_at=None, probe=probe):
            with state['lock']:
                state['n'] += 1
                n_now = state['n']
            c = dp.classify_start(probe, rec)
            if c[0] != 'r':
                return drive.Outcome(1, 'unexpected start')
            o = outputs[c[1]][c[2] - 1]
            text = dp.render_rebench_log(probe.runs[c[1]]['bench_name'], o)
            if interrupt_at is not None and n_now == interrupt_at:
                state['interrupted'] = (c[1], c[2])
                partial = dp.render_rebench_log(probe.runs[c[1]]['bench_name'], o[:1])
                return drive.Outcome(interrupt=True, out=partial)
            return drive.Outcome(0, text)
        # control: sequential, uninterrupted, its own directory
        wdc = os.path.join(ck.scratch, 'parint%d-control' % idx)
        os.makedirs(wdc)
        drive.write_config(wdc, cfg)
        probec = dp.Probe(wdc, cfg, argv)
        ctl = dp.run_real_session(wdc, probec, argv, lambda rec: script(rec, probe=probec))
        state['n'] = 0
        from rebench import executor as rb_exec
        orig_start = rb_exec.BenchmarkThread.start

        def start_hook(self):
            orig_start(self)
            if window and getattr(self, '_id', None) == 0:
                deadline = time.time() + 0.3       # the interrupt, if it comes now, is raised right here
                while time.time() < deadline:
                    time.sleep(0.005)
        rb_exec.BenchmarkThread.start = start_hook
        try:
            ob1 = dp.run_real_session(wd, probe, argv, lambda rec: script(rec, interrupt_at=k), cpu_count=cpu)
        finally:
            rb_exec.BenchmarkThread.start = orig_start
        ob1.before = ['']
        state['n'] = 0
        ob2 = dp.run_real_session(wd, probe, ['-s', rng.choice(SCHEDS)] + argv, lambda rec: script(rec))
        state['n'] = 0
        ob3 = dp.run_real_session(wd, probe, argv, lambda rec: script(rec))
        ck.impl_traces += 4
        inp = {'parallel_interrupt': True, 'cfg': cfg, 'argv': argv, 'cpu_count': cpu, 'interrupt_at_start': k,
               'mode': mode, 'outputs': outputs,
               'schedule': 'interrupt while the second worker is being started' if window
               else 'interrupt while the main thread waits for the workers'}
        ck.count('parallel-interrupt:schedule-%s' % ('start-window' if window else 'join'))
        ck.count('parallel-interrupt:%s' % mode)
        ck.count('parallel-interrupt:first-session-%s' % ob1.status)
        ck.case(nontrivial_key=('parint', idx, mode, k, cpu), sample={'mode': mode, 'k': k, 'threads': int(cpu / 2.5),
                                                                      'ends': [ob1.status, ob2.status, ob3.status]})
        sig = {'scheduler': 'parallel', 'mode': mode}
        for si, ob in enumerate((ob1, ob2, ob3)):
            if ob.crash:
                ck.oracle_fail('no_crash', dict(inp, session=si), {'crash': ob.crash}, dict(sig, exception=ob.crash[0]))
        if ob1.late_starts or ob1.threads_left or ob1.workers_alive_at_return:
            ck.oracle_fail('stopped_means_stopped', inp, {'started_after_the_session_returned': ob1.late_starts[:5],
                                                          'workers_running_when_the_session_returned':
                                                              ob1.workers_alive_at_return,
                                                          'threads_still_running': ob1.threads_left},
                           dict(sig, schedule='start-window' if window else 'join'))
        if ob1.status == 'aborted' and ob1.exit != 2:
            ck.oracle_fail('exit_status_aborted', inp, {'exit': ob1.exit}, sig)
        # nothing of the killed process's output is on disk after the interrupted session
        interrupted = state['interrupted']
        if interrupted is not None:
            run = probe.runs[interrupted[0]]
            leaked = [r for r in c06.dp_rows(ob1.files[0], False)
                      if r[0] == str(interrupted[1]) and '\t'.join(r[5:-1]) == '\t'.join(run['cols'])]
            if leaked:
                ck.oracle_fail('interrupted_not_recorded', inp, {'invocation': list(interrupted), 'rows': leaked[:3]}, sig)
            restarted = [s for s in ob2.starts if s[0] == 'r' and (s[1], s[2]) == interrupted]
            if ob1.status == 'aborted' and ob2.status in ('ok', 'failed') and not restarted:
                ck.oracle_fail('interrupted_started_again', inp, {'invocation': list(interrupted),
                                                                  'resumed_starts': ob2.starts[:6]}, sig)
        got, want = well_formed_rows(ob2.files[0]), well_formed_rows(ctl.files[0])
        if ob2.status in ('ok', 'failed') and got != want:
            cg, cw = collections.Counter(got), collections.Counter(want)
            lost, dup = list((cw - cg).elements()), list((cg - cw).elements())
            ck.oracle_fail('resume_multiset', inp, {'lost': lost[:4], 'duplicated': dup[:4], 'n_got': len(got),
                                                    'n_want': len(want)},
                           dict(sig, kind='lost' if lost and not dup else 'duplicated' if dup and not lost else 'both'))
        if ob3.starts or ob3.files != ob2.files:
            ck.oracle_fail('rerun_noop', dict(inp, session=2), {'starts': ob3.starts[:4]},
                           dict(sig, what='starts' if ob3.starts else 'bytes'))
        shutil.rmtree(wd, ignore_errors=True)
        shutil.rmtree(wdc, ignore_errors=True)


def run(ck):
    quick = ck.tier == 'quick'
    ck.rule = ('every stop point k of every generated scenario x {batch, round-robin, random}; chains of 1-3 '
               'interrupted sessions followed by sessions to completion and a re-run; control = uninterrupted real '
               'session; non-trivial = a chain with a control, distinct by configuration, schedulers and stop points')
    ck.assumptions = ['KeyboardInterrupt is delivered while ReBench waits for the k-th process (scripted layer); '
                      'interruption during a write is C09',
                      'the harness is deterministic: output is a function of run and invocation number; exit 127 and '
                      'OSError are excluded (C04, C13)']
    ck.exhaustive = True
    n_scen = 8 if quick else 70
    items, done, idx = [], 0, 0
    for name, data in c06.load_corpus(ck):
        scen = data['input']
        if scen.get('outputs'):
            scen['outputs'] = [[None if o is None else [[tuple(m) for m in d] for d in o] for o in per]
                               for per in scen['outputs']]
        r = c06.run_scenario(ck, scen, 'corpus-' + name.replace('.json', ''))
        if r:
            ctl_scen = dict(scen, specs=[{'sched': 'batch', 'choices': [], 'stop': None}])
            rc = c06.run_scenario(ck, ctl_scen, 'corpusctl-' + name.replace('.json', ''))
            items.append((scen,) + r + (rc[3][0] if rc else None,))
        ck.count('corpus')
    while done < n_scen and idx < n_scen * 6:
        cfg = dp.gen_config(ck.rng, {'max_exp': 2, 'max_inv': 3, 'builds': True})
        extra = None
        if done % 4 == 3:
            # several data files of which the one defined first never comes into being (its runs only fail)
            # while the later ones hold data: every restart has to load the files that exist
            for _ in range(60):
                if len(set(dp.exp_file(cfg, x) for x in cfg['experiments'])) >= 2:
                    break
                cfg = dp.gen_config(ck.rng, {'max_exp': 3, 'max_inv': 2, 'builds': False})
            extra = {'dead_files': [0]}
            ck.count('scenario:first-file-never-created')
        its = scenario_chains(ck, cfg, ck.rng.randint(0, 10 ** 9), quick, idx, extra)
        idx += 1
        if its:
            done += 1
            items += its
        if len(items) > 150:
            judge_items(ck, items)
            items = []
    if items:
        judge_items(ck, items)
    parallel_interrupt_slice(ck, 6 if quick else 80)
    _tj = time.time()
    try:  # Ctrl-C inside the parallel scheduler's join (harness/corr/interrupt_join.py)
        from corr import interrupt_join
        interrupt_join.scenarios(ck)
    except ImportError:
        pass
    ck.notes.append('interrupt-join scenarios %.1fs' % (time.time() - _tj))
    _t = time.time()
    torn_tail_chains(ck, 3 if quick else 40)
    ck.notes.append('torn-tail slice %.1fs' % (time.time() - _t))
    if not quick:
        cli_sessions(ck, 100, BIG_KILL)
    else:
        cli_sessions(ck, 2, BIG_KILL)


def replay(ck, data):
    inp = data['input']
    if inp.get('kind') == 'interrupt-join':
        from corr import interrupt_join
        return interrupt_join.replay(ck, data)
    if inp.get('parallel_interrupt'):
        ck.notes.append('parallel-interrupt replays re-run the slice from the seed')
        parallel_interrupt_slice(ck, 6)
        return
    if inp.get('torn_tail'):
        ck.notes.append('torn-tail replays re-run the slice from the seed')
        torn_tail_chains(ck, 3)
        return
    if inp.get('cli'):
        ck.notes.append('CLI replays re-run the signal sessions from the seed')
        cli_sessions(ck, 6, BIG_KILL)
        return
    scen = {k: inp[k] for k in ('cfg', 'specs', 'seed', 'argv', 'outputs', 'raw', 'build_ok') if k in inp}
    if scen.get('outputs'):
        scen['outputs'] = [[None if o is None else [[tuple(m) for m in d] for d in o] for o in per]
                           for per in scen['outputs']]
    r = c06.run_scenario(ck, scen, 'replay')
    ctl_scen = dict(scen, specs=[{'sched': 'batch', 'choices': [], 'stop': None}])
    rc = c06.run_scenario(ck, ctl_scen, 'replay-control')
    if r and rc:
        judge_items(ck, [(scen,) + r + (rc[3][0],)])
