"""C13 — build scripts run once, first, in place, and their failure propagates.

Correspondence: generated sharing patterns of 0-3 build scripts among 1-3 executors
and 1-3 suites (same text in the same / in different directories), every script
succeeding, failing (rc != 0) or failing to start (OSError: directory missing), under
batch / round-robin / random scheduling, `-B`, `--setup-only`, and — with the
deterministic thread controller of `drive_builds` — under the parallel scheduler.
The real session (scripted processes) and the Lean model `RB.Builds` get the same
scenario (for the parallel scheduler: the same schedule); compared are the exact
sequence of build starts / ends and benchmark starts / ends (script, cwd, env), the
per-run status and the exit status.
Oracle: the property's clauses evaluated on the implementation's event log only.
"""
import json
import os

import lib
import drive
import drive_builds

THEOREMS_SEQ = ['RB.Builds.c13_build_once_seq', 'RB.Builds.c13_build_before_use',
                'RB.Builds.c13_build_env_cwd', 'RB.Builds.c13_failure_propagates']
ABS = '/nonexistent-verif'


# ------------------------------------------------------------------ scenarios
def resolve(cwd, p):
    if p is None or p == '':
        return cwd
    if p.startswith('~'):
        return os.path.expanduser(p)
    if p.startswith('/'):
        return os.path.normpath(p)     # os.path.abspath normalises: no trailing slash, no `..`
    return cwd + '/' + p


def gen_scenario(rng, parallel=False, small=False):
    n_exec = rng.choice([1, 2, 2, 3]) if not small else rng.choice([1, 2])
    n_suite = rng.choice([1, 2, 2, 3]) if not small else rng.choice([1, 2])
    texts = [['make a'], ['make b'], ['cd sub', 'make c']]
    n_scripts = rng.choice([0, 1, 1, 2, 2, 3])
    pool = texts[:n_scripts]
    dirs = rng.choice([[ABS + '/x/', ABS + '/x'], [ABS + '/y/../x', ABS + '/x/', None], [None], ['d1'], [None, 'd1'], ['d1', 'd2'], ['d1', ABS + '/x'], [None, 'd1', 'd2'], ['d1', '~/vb']])
    executors, suites = [], []
    for i in range(n_exec):
        executors.append({
            'name': 'E%d' % (i + 1),
            'path': rng.choice(dirs),
            'build': list(rng.choice(pool)) if pool and rng.random() < 0.7 else [],
            'env': {'E': 'e%d' % (i + 1)} if rng.random() < 0.5 else None})
    for i in range(n_suite):
        suites.append({
            'name': 'S%d' % (i + 1),
            'location': rng.choice(dirs + [None, None]),
            'build': list(rng.choice(pool)) if pool and rng.random() < 0.7 else [],
            'env': {'S': 's%d' % (i + 1)} if rng.random() < 0.4 else None,
            'benchmarks': ['b1'] if rng.random() < 0.6 else ['b1', 'b2'],
            'inv': rng.choice([1, 1, 2, 3]),
            'excl': (rng.random() < 0.25) if parallel else True})
    pairs = []
    for e in executors:
        if rng.random() < 0.7:
            ss = [s['name'] for s in suites]
        else:
            ss = [s['name'] for s in suites if rng.random() < 0.6] or [suites[0]['name']]
        pairs.append([e['name'], ss])
    more = []
    if rng.random() < 0.45:
        for _x in range(rng.choice([1, 1, 2])):
            ps = []
            for e in executors:
                if rng.random() < 0.7:
                    ss = [s['name'] for s in suites if rng.random() < 0.7] or [rng.choice(suites)['name']]
                    ps.append([e['name'], ss])
            more.append(ps or [[executors[-1]['name'], [suites[-1]['name']]]])
    sc = {'executors': executors, 'suites': suites, 'pairs': pairs, 'more_experiments': more, 'results': [],
          'flags': [], 'sched': rng.choice(['batch', 'round-robin', 'random']), 'cpu': 1,
          'choices': [rng.randrange(0, 1000) for _ in range(64)], 'picks': None,
          'pick_seed': rng.randrange(1 << 30)}
    # outcomes: each distinct (script, dir) succeeds or fails; sometimes a directory is missing
    builds = sorted(set(b for (e, s, _b) in all_pairs(sc) for b in expected_builds(sc, '', e, s)))
    mode = rng.choice(['all-ok', 'all-ok', 'one-fail', 'random', 'oserr'])
    missing = set()
    for (script, d) in builds:
        res = 'ok'
        if mode == 'random' and rng.random() < 0.4:
            res = 'fail'
        sc['results'].append({'script': script, 'dir': d, 'res': res})
    if mode == 'one-fail' and builds:
        sc['results'][rng.randrange(len(builds))]['res'] = 'fail'
    if mode == 'oserr' and builds:
        # not only ENOENT: the directory is a regular file (ENOTDIR), may not be entered (EACCES),
        # the environment is too large (E2BIG), ...
        sc['oserr_errno'] = rng.choice([2, 2, 20, 13, 7, 12])
        d = rng.choice(builds)[1]
        for r in sc['results']:
            if r['dir'] == d:
                r['res'] = 'oserr'
    f = rng.random()
    if f < 0.12:
        sc['flags'] = ['-B']
    elif f < 0.30:
        sc['flags'] = ['--setup-only']
    if parallel:
        sc['cpu'] = rng.choice([5, 5, 8, 3])
    if rng.random() < 0.4:
        sc['conf_subdir'] = rng.choice(['cfg', 'conf/nested'])
    add_env_levels(rng, sc)
    if not sc['flags'] and rng.random() < 0.3:
        add_prior(rng, sc)
    return sc


def add_env_levels(rng, sc):
    """`env` on the other five levels (executor and suite have theirs already): machine (-m),
    runs, experiment, execution details, benchmark; some values start with ~"""
    for s_ in sc['suites']:
        if rng.random() < 0.35:
            s_['bench_env'] = {b: {'B': '%s-%s' % (s_['name'], b), 'P': rng.choice(['~/lib', '/lib'])}
                               for b in s_['benchmarks'] if rng.random() < 0.75}
    if rng.random() < 0.15:
        sc['machine_env'] = {'L': 'machine', 'P': '~/m'}
    if rng.random() < 0.2:
        sc['runs_env'] = rng.choice([{'L': 'runs'}, {}, {'L': 'runs', 'H': '~'}, {'L': 'runs', 'Q': "it's", 'T': "~/it's", 'W': 'C:\\d\\'}])
    if rng.random() < 0.2:
        sc['exp_env'] = {'L': 'exp', 'H': '~/e'}
    if rng.random() < 0.2:
        sc['exec_detail_env'] = {e['name']: {'L': 'det-' + e['name']} for e in sc['executors'] if rng.random() < 0.7}
    for x in sc['executors'] + sc['suites']:
        if x['env'] and rng.random() < 0.3:
            x['env'] = dict(x['env'], T='~/t')


def add_prior(rng, sc):
    """an earlier session on the same data file: some runs recorded partly (their benchmark
    failed after n invocations), some completely, some not at all (filtered out)"""
    keys = [(e['name'], s['name'], b) for (e, s, b) in all_pairs(sc)]
    cut = {}
    for k in keys:
        inv = find(sc['suites'], k[1])['inv']
        r = rng.random()
        if r < 0.4 and inv > 1:
            cut['|'.join(k)] = rng.randint(1, inv - 1)
        elif r < 0.5:
            cut['|'.join(k)] = 0
    flt = []
    if rng.random() < 0.4:
        k = rng.choice(keys)
        flt = ['s:%s:%s' % (k[1], k[2])] if rng.random() < 0.6 else ['e:%s' % k[0]]
    sc['prior'] = {'fail_after': cut, 'filter': flt}


def find(lst, name):
    for x in lst:
        if x['name'] == name:
            return x
    raise KeyError(name)


def experiments_of(sc):
    """the experiments of the scenario: lists of [executor, [suites]]; all are executed in one session"""
    return [sc['pairs']] + list(sc.get('more_experiments') or [])


def all_pairs(sc):
    """(executor, suite, bench) triples of the scenario (a run named by several experiments is one run)"""
    out, seen = [], set()
    for pairs in experiments_of(sc):
        for en, ss in pairs:
            e = find(sc['executors'], en)
            for sn in ss:
                s = find(sc['suites'], sn)
                for b in s['benchmarks']:
                    if (en, sn, b) not in seen:
                        seen.add((en, sn, b))
                        out.append((e, s, b))
    return out


def norm_spec(p):
    """the model takes paths in normal form (its stated domain); abspath's normalisation is Python's"""
    return os.path.normpath(p) if isinstance(p, str) and p.startswith('/') else p


def expected_builds(sc, cwd, e, s):
    """independent restatement: the (script, directory) pairs a run of (e, s) requires.
    Directories are relative specs when cwd == '' (scenario level)."""
    def d(p):
        if cwd == '':
            return norm_spec(p) or ''
        return resolve(cwd, p)
    out = []
    if e['build']:
        out.append(('\n'.join(e['build']), d(e['path'])))
    if s['build']:
        loc = s['location'] if s['location'] is not None else e['path']
        out.append(('\n'.join(s['build']), d(loc)))
    return out


def env_levels(sc, e, s, b):
    """`env` as configured on the seven levels, outermost first: machine, runs, experiment,
    execution details, executor, suite, benchmark (None = not defined on that level)"""
    return [sc.get('machine_env'), sc.get('runs_env'), sc.get('exp_env'),
            (sc.get('exec_detail_env') or {}).get(e['name']), e['env'], s['env'],
            (s.get('bench_env') or {}).get(b)]


def run_env(sc, e, s, b):
    """independent restatement: the innermost level that defines env replaces the others;
    processes get the values with a leading ~ expanded"""
    env = {}
    for lvl in env_levels(sc, e, s, b):
        if lvl is not None:
            env = lvl
    return {k: (os.path.expanduser(v) if v.startswith('~') else v) for k, v in env.items()}


def make_config(sc):
    suites = {}
    for s in sc['suites']:
        benv = s.get('bench_env') or {}
        d = {'gauge_adapter': 'PlainSecondsLog', 'command': s['name'] + ' %(benchmark)s',
             'benchmarks': [({bn: {'env': dict(benv[bn])}} if bn in benv else bn) for bn in s['benchmarks']],
             'invocations': s['inv'],
             'execute_exclusively': bool(s['excl'])}
        if s['location'] is not None:
            d['location'] = s['location']
        if s['build']:
            d['build'] = list(s['build'])
        if s['env'] is not None:
            d['env'] = dict(s['env'])
        suites[s['name']] = d
    executors = {}
    for e in sc['executors']:
        d = {'executable': 'x' + e['name']}
        if e['path'] is not None:
            d['path'] = e['path']
        if e['build']:
            d['build'] = list(e['build'])
        if e['env'] is not None:
            d['env'] = dict(e['env'])
        executors[e['name']] = d
    experiments = {}
    for i, pairs in enumerate(experiments_of(sc)):
        dets = sc.get('exec_detail_env') or {}
        x = {'executions': [{en: dict({'suites': list(ss)}, **({'env': dict(dets[en])} if en in dets else {}))}
                            for en, ss in pairs]}
        if sc.get('exp_env') is not None:
            x['env'] = dict(sc['exp_env'])
        experiments['X' if i == 0 else 'X%d' % (i + 1)] = x
    cfg = {'benchmark_suites': suites, 'executors': executors, 'experiments': experiments}
    if sc.get('runs_env') is not None:
        cfg['runs'] = {'env': dict(sc['runs_env'])}
    if sc.get('machine_env') is not None:
        cfg['machines'] = {'m1': {'env': dict(sc['machine_env'])}}
    return cfg


# ------------------------------------------------------------------ implementation side
def env_list(env):
    return sorted([k, v] for k, v in (env or {}).items())


def run_impl(ck, sc, idx):
    wd = os.path.join(ck.scratch, 'w%d' % idx)
    os.makedirs(wd, exist_ok=True)
    # the configuration file need not live in ReBench's working directory: builds without
    # path / location run in the *working directory* (docs/config.md), not next to the file
    cfgdir = wd
    if sc.get('conf_subdir'):
        cfgdir = os.path.join(wd, sc['conf_subdir'])
        os.makedirs(cfgdir, exist_ok=True)
    conf = drive.write_config(cfgdir, make_config(sc))
    table = {(r['script'], resolve(wd, r['dir'])): r['res'] for r in sc['results']}
    missing = set(resolve(wd, r['dir']) for r in sc['results'] if r['res'] == 'oserr')

    def build_result(script, cwd):
        if script is None:
            return 'oserr' if cwd in missing else 'ok'
        return table.get((script, cwd), 'ok')

    prior = sc.get('prior')
    if prior:
        # an earlier session on the same data file: all builds succeed; the benchmark of
        # run k fails from its (n+1)-th invocation on, so the run is recorded incompletely
        counts = {}
        cut = {tuple(k.split('|')): n for k, n in prior.get('fail_after', {}).items()}

        def bench_rc(rec):
            k = bench_key(rec['args'])
            counts[k] = counts.get(k, 0) + 1
            return 1 if k in cut and counts[k] > cut[k] else 0
        b1 = drive_builds.run_build_session(wd, conf, (['-m', 'm1'] if sc.get('machine_env') is not None else [])
                                            + list(prior.get('filter', [])), lambda s, c: 'ok',
                                            cpu_count=1, bench_rc=bench_rc)
        ck.impl_traces += 1
        if b1.res.crash:
            # a traceback raised by ReBench is a finding, not tooling trouble
            b1.in_prior_session = True
            return wd, b1
    picks = sc.get('picks')
    if picks is not None:
        it = iter(list(picks))

        def choose(enabled):
            w = next(it, None)
            return w if w in enabled else enabled[0]
    else:
        import random
        prng = random.Random(sc.get('pick_seed', 0))

        def choose(enabled):
            return prng.choice(enabled)
    argv = list(sc['flags'])
    if sc.get('machine_env') is not None:
        argv += ['-m', 'm1']
    if sc['sched'] != 'batch':
        argv += ['-s', sc['sched']]
    bs = drive_builds.run_build_session(wd, conf, argv, build_result, cpu_count=sc['cpu'],
                                        choices=sc['choices'], choose=choose, oserr_errno=sc.get('oserr_errno', 2))
    if bs.stuck:
        raise lib.InfraError('thread controller: ' + bs.stuck)
    return wd, bs


def bench_key(args):
    toks = args.split()
    exe = os.path.basename(toks[0])
    return (exe[1:], toks[-2], toks[-1])


def canon_events(wd, bs, order):
    """implementation events in the model's vocabulary"""
    idx = {k: i for i, k in enumerate(order)}
    out = []
    for kind, _w, info in bs.events:
        if info['args'] == '/bin/sh':
            if kind == 'pstart':
                out.append(['B', info['stdin'], info['cwd'], env_list(info['env'])])
            else:
                res = 'oserr' if info['exc'] else ('ok' if info['rc'] == 0 else 'fail')
                out.append(['E', info['stdin'], info['cwd'], res])
        else:
            k = bench_key(info['args'])
            out.append(['S' if kind == 'pstart' else 'F', idx.get(k, str(k))])
    return out


def model_request(sc, wd, order, repaired=True, picks=None, done0=None):
    setup_only = '--setup-only' in sc['flags']
    return {
        'op': 'c13.session', 'cwd': wd, 'home': os.path.expanduser('~'),
        'executors': [{'name': e['name'], 'path': norm_spec(e['path']), 'build': e['build'],
                       'env': None if e['env'] is None else env_list(e['env'])} for e in sc['executors']],
        'suites': [{'name': s['name'], 'location': norm_spec(s['location']), 'build': s['build'],
                    'env': None if s['env'] is None else env_list(s['env'])} for s in sc['suites']],
        'runs': [{'exec': k[0], 'suite': k[1], 'inv': 1 if setup_only else find(sc['suites'], k[1])['inv'],
                  'excl': bool(find(sc['suites'], k[1])['excl']), 'done0': (done0 or {}).get(k, 0),
                  'outer_env': [None if l is None else env_list(l)
                                for l in env_levels(sc, find(sc['executors'], k[0]), find(sc['suites'], k[1]), k[2])[:4]],
                  'bench_env': (lambda l: None if l is None else env_list(l))(
                      (find(sc['suites'], k[1]).get('bench_env') or {}).get(k[2]))} for k in order],
        'results': [{'script': r['script'], 'dir': resolve(wd, r['dir']), 'res': r['res']} for r in sc['results']],
        'do_builds': '-B' not in sc['flags'], 'repaired': repaired, 'locked': repaired,
        'sched': sc['sched'], 'choices': sc['choices'], 'cpu': sc['cpu'], 'picks': picks or []}


def canon_model_events(evs):
    out = []
    for e in evs:
        if e[0] == 'B':
            out.append(['B', e[1], e[3], sorted(e[4])])
        elif e[0] == 'E':
            out.append(['E', e[1], e[3], e[4]])
        else:
            out.append([e[0], e[1]])
    return out


# ------------------------------------------------------------------ oracle
def oracle(ck, sc, wd, bs, order, evs, inp):
    """the property's clauses on what the implementation did (model-independent)"""
    parallel = bs.threads > 0
    mode = 'parallel' if parallel else 'sequential'
    do_builds = '-B' not in sc['flags']
    setup_only = '--setup-only' in sc['flags']
    need = {}
    envs = {}
    for (e, s, b) in all_pairs(sc):
        k = (e['name'], s['name'], b)
        need[k] = expected_builds(sc, wd, e, s)
        envs[k] = env_list(run_env(sc, e, s, b))
    results = {(r['script'], resolve(wd, r['dir'])): r['res'] for r in sc['results']}
    failed_any = False
    # once
    seen = {}
    for ev in evs:
        if ev[0] == 'B':
            key = (ev[1], os.path.normpath(ev[2]))   # one directory, however it is spelled
            seen[key] = seen.get(key, 0) + 1
    for key, n in seen.items():
        if n > 1:
            ck.oracle_fail('once', inp, {'build': key, 'starts': n, 'events': evs},
                           signature={'clause': 'once', 'scheduler': mode})
            failed_any = True
    # -B
    if not do_builds and seen:
        ck.oracle_fail('noB', inp, {'builds_started': sorted(seen)}, signature={'clause': 'noB'})
        failed_any = True
    # in place: cwd is the directory of a required build, env that of a run requiring it
    for ev in evs:
        if ev[0] == 'B':
            users = [k for k in order if (ev[1], ev[2]) in need.get(k, [])]
            if not users:
                ck.oracle_fail('in_place_cwd', inp, {'build_start': ev, 'required': sorted(set(sum(need.values(), [])))},
                               signature={'clause': 'in_place_cwd'})
                failed_any = True
            elif ev[3] not in [envs[k] for k in users]:
                ck.oracle_fail('in_place_env', inp, {'build_start': ev, 'envs_of_dependents': [envs[k] for k in users]},
                               signature={'clause': 'in_place_env'})
                failed_any = True
    # ... more exactly: the environment of the run whose execute_run triggered the build
    for i, ev in enumerate(evs):
        if ev[0] != 'B':
            continue
        trig = bs.events[i][2].get('run')
        if trig is not None and ev[3] != envs.get(tuple(trig)):
            ck.oracle_fail('build_env_is_run_env', inp, {'build_start': ev, 'triggering_run': trig, 'env_of_run': envs.get(tuple(trig))},
                           signature={'clause': 'build_env_is_run_env'})
            failed_any = True
    # first: before a benchmark process of run r starts each of its builds has ended successfully
    ok_ended = set()
    ended_bad = {}
    for ev in evs:
        if ev[0] == 'E':
            if ev[3] == 'ok':
                ok_ended.add((ev[1], ev[2]))
            else:
                ended_bad[(ev[1], ev[2])] = ev[3]
        elif ev[0] == 'S' and do_builds and isinstance(ev[1], int):
            k = order[ev[1]]
            for b in need[k]:
                if b not in ok_ended:
                    how = ended_bad.get(b)
                    ck.oracle_fail('first', inp, {'run': k, 'build_not_finished_ok': b, 'build_ended': how, 'events': evs},
                                   signature={'clause': 'first', 'scheduler': mode,
                                              'build_result': how or 'not-run'})
                    failed_any = True
    # failure propagates: no benchmark start for dependents, each reported failed, exit status failed
    started = set(order[ev[1]] for ev in evs if ev[0] == 'S' and isinstance(ev[1], int))
    nstarts = {}
    for ev in evs:
        if ev[0] == 'S' and isinstance(ev[1], int):
            nstarts[order[ev[1]]] = nstarts.get(order[ev[1]], 0) + 1
    for b, how in ended_bad.items():
        for k in order:
            if b in need[k]:
                if k in started:
                    ck.oracle_fail('failure_no_start', inp, {'failed_build': b, 'result': how, 'run_started': k, 'events': evs},
                                   signature={'clause': 'failure_no_start', 'build_result': how, 'scheduler': mode})
                    failed_any = True
                if not bs.status.get(k, {}).get('is_failed', True):
                    ck.oracle_fail('failure_reported', inp, {'failed_build': b, 'result': how, 'run_not_failed': k},
                                   signature={'clause': 'failure_reported', 'build_result': how, 'scheduler': mode})
                    failed_any = True
        if bs.res.status() != 'failed':
            ck.oracle_fail('failure_exit', inp, {'failed_build': b, 'exit': bs.res.status()},
                           signature={'clause': 'failure_exit', 'build_result': how, 'scheduler': mode})
            failed_any = True
    # independent runs proceed
    if do_builds and (not parallel or bs.threads > 0):
        for k in order:
            if all(results.get(b, 'ok') == 'ok' for b in need[k]):
                want = 1 if setup_only else find(sc['suites'], k[1])['inv']
                want = max(0, want - bs.done0.get(k, 0))
                if nstarts.get(k, 0) != want or (want > 0 and bs.status.get(k, {}).get('is_failed', True)):
                    ck.oracle_fail('independent_proceeds', inp,
                                   {'run': k, 'starts': nstarts.get(k, 0), 'expected': want, 'status': bs.status.get(k)},
                                   signature={'clause': 'independent_proceeds', 'scheduler': mode})
                    failed_any = True
    # --setup-only: every distinct build is required by a selected run
    if setup_only:
        every = set(sum(need.values(), []))
        covered = set(sum([need[k] for k in order], []))
        if every - covered:
            ck.oracle_fail('setup_only_covers', inp, {'uncovered': sorted(every - covered), 'selected': order},
                           signature={'clause': 'setup_only_covers'})
            failed_any = True
        if do_builds and not ended_bad:
            for b in every:
                if seen.get(b, 0) != 1:
                    ck.oracle_fail('setup_only_builds_all', inp, {'build': b, 'starts': seen.get(b, 0)},
                                   signature={'clause': 'setup_only_builds_all'})
                    failed_any = True
    return failed_any


# ------------------------------------------------------------------ one case
def check_batch(ck, scenarios, base_idx=0, search=True):
    """run scenarios on the implementation, then the model in one driver call"""
    obs = []
    ops = []
    for i, sc in enumerate(scenarios):
        wd, bs = run_impl(ck, sc, base_idx + i)
        ck.impl_traces += 1
        if bs.res.crash or bs.run_order is None:
            obs.append((sc, wd, bs, None, None))
            continue
        order = bs.run_order
        evs = canon_events(wd, bs, order)
        obs.append((sc, wd, bs, order, evs))
        ops.append(model_request(sc, wd, order, repaired=os.environ.get('VERIF_C13_VARIANT') != 'pinned',
                                 picks=bs.picks, done0=bs.done0))
        if '--setup-only' in sc['flags']:
            req = model_request(sc, wd, bs.all_runs or [])
            req['op'] = 'c13.setup'
            ops.append(req)
    answers = iter(ck.model(ops))
    for sc, wd, bs, order, evs in obs:
        inp = dict(sc)
        inp['picks'] = bs.picks if bs.threads else sc.get('picks')
        parallel = bs.threads > 0
        ck.count('sched:' + ('parallel/' if parallel else '') + sc['sched'])
        ck.count('experiments:%d' % len(experiments_of(sc)))
        for lvl, on in (('machine', sc.get('machine_env') is not None), ('runs', sc.get('runs_env') is not None),
                        ('experiment', sc.get('exp_env') is not None), ('exec-details', bool(sc.get('exec_detail_env'))),
                        ('benchmark', any(s_.get('bench_env') for s_ in sc['suites']))):
            if on:
                ck.count('env-level:' + lvl)
        if sc.get('conf_subdir'):
            ck.count('config-file-outside-cwd')
        if sc.get('prior'):
            ck.count('resumed-session')
            ck.count('resumed:runs-partly-recorded', sum(1 for k in (order or []) if 0 < bs.done0.get(k, 0) < find(sc['suites'], k[1])['inv']))
            ck.count('resumed:runs-complete', sum(1 for k in (order or []) if bs.done0.get(k, 0) >= find(sc['suites'], k[1])['inv']))
        for f in sc['flags']:
            ck.count('flag:' + f)
        for kd in bs.pick_kinds:
            ck.count('point:' + str(kd))
        if parallel:
            ck.count('threads:%d' % bs.threads)
        if order is None and bs.res.crash:
            # the session ended in a traceback: the implementation no longer behaves as the model
            # says (every session of these scenarios runs to its end), and no property clause can
            # be evaluated on it
            cls, msg, frames = bs.res.crash
            where = frames[-1] if frames else None
            which = 'prior' if getattr(bs, 'in_prior_session', False) else 'main'
            ck.oracle_fail('no_traceback', inp, {'status': bs.res.status(), 'message': msg, 'frames': frames,
                                                 'session': which},
                           signature={'clause': 'no_traceback', 'exception': cls, 'raised_in': where})
            ck.disagree('c13.session: the session ended in a traceback', inp,
                        {'status': bs.res.status(), 'message': msg, 'frames': frames, 'session': which},
                        {'status': 'the session runs to its end'}, THEOREMS_SEQ)
            ck.case(nontrivial_key=json.dumps([make_config(sc), sc['results'], sc['flags'], sc['sched']], sort_keys=True))
            continue
        if order is None:
            ck.oracle_fail('session_runs', inp, {'status': bs.res.status(), 'crash': bs.res.crash},
                           signature={'clause': 'session_runs', 'status': bs.res.status()})
            ck.case()
            continue
        ans = next(answers)
        setup_ans = next(answers) if '--setup-only' in sc['flags'] else None
        nb = len(set((e[1], e[2]) for e in evs if e[0] == 'B'))
        shared = len(set(b for k in order for b in expected_builds(sc, wd, find(sc['executors'], k[0]), find(sc['suites'], k[1]))))
        ck.count('distinct-builds:%d' % shared)
        for r in sc['results']:
            ck.count('result:' + r['res'] + (':errno%d' % sc.get('oserr_errno', 2) if r['res'] == 'oserr' else ''))
        ck.case(nontrivial_key=json.dumps([make_config(sc), sc['results'], sc['flags'], sc['sched'], inp['picks'], sc.get('prior'), sc.get('conf_subdir')],
                                          sort_keys=True) if shared else None,
                sample={'config': make_config(sc), 'results': sc['results'], 'events': evs[:8]})
        bad = oracle(ck, sc, wd, bs, order, evs, inp)
        if 'err' in ans:
            raise lib.InfraError('model rejected the request: %s' % json.dumps(ans))
        impl_obs = {'events': evs, 'status': [[bool(bs.status[k]['is_failed']), bs.status[k]['completed']] for k in order],
                    'exit': bs.res.status()}
        m_evs = canon_model_events(ans['events'])
        m_status = [[r['failed'], r['completed']] for r in ans['runs']]
        # executor.py:672-676: the session is successful iff every run has all its invocations
        m_exit = 'failed' if any(r['completed'] < r['inv'] for r in ans['runs']) else 'ok'
        model_obs = {'events': m_evs, 'status': m_status, 'exit': m_exit}
        dis = impl_obs != model_obs
        if parallel and not dis:
            if ans.get('left', 0) != 0 or any(p != 'dead' for p in ans.get('pcs', [])) or not all(ans.get('moved', [])):
                dis = True
                model_obs['pcs'] = ans.get('pcs')
                model_obs['moved'] = ans.get('moved')
        elif not parallel and ans.get('left', 0) != 0:
            dis = True
        if setup_ans is not None:
            sel_impl = sorted((bs.all_runs or []).index(k) for k in order)
            if sel_impl != sorted(setup_ans['selected']):
                dis = True
                impl_obs['selected'] = sel_impl
                model_obs['selected'] = setup_ans['selected']
        if dis:
            ck.disagree('c13.session: event sequence / statuses vs RB.Builds', inp, impl_obs, model_obs,
                        THEOREMS_SEQ + (['RB.Builds.c13_build_once_par'] if parallel else []))
            if search and not bad and ck.dist.get('neighbourhood-searches', 0) < 3:
                ck.count('neighbourhood-searches')
                neighbourhood(ck, sc)


def neighbourhood(ck, sc):
    """a disagreement without oracle failure: evaluate the oracle around the input"""
    import random
    rng = random.Random(12345)
    variants = []
    for sched in ('batch', 'round-robin', 'random'):
        for flags in ([], ['--setup-only']):
            v = json.loads(json.dumps(sc))
            v['sched'] = sched
            v['flags'] = flags
            v['picks'] = None
            variants.append(v)
    for res in ('fail', 'oserr', 'ok'):
        v = json.loads(json.dumps(sc))
        for r in v['results']:
            r['res'] = res
        v['picks'] = None
        variants.append(v)
    for _ in range(10):
        v = json.loads(json.dumps(sc))
        v['pick_seed'] = rng.randrange(1 << 30)
        v['picks'] = None
        variants.append(v)
    ck.count('neighbourhood-search', len(variants))
    check_batch(ck, variants, base_idx=100000 + ck.evaluations, search=False)


# ------------------------------------------------------------------ fixed patterns
def pattern_scenarios():
    """hand-kept sharing patterns on both sides of every branch of the model"""
    def ex(name, path, build, env=None):
        return {'name': name, 'path': path, 'build': build, 'env': env}

    def su(name, loc, build, env=None, benches=('b1',), inv=1, excl=True):
        return {'name': name, 'location': loc, 'build': build, 'env': env,
                'benchmarks': list(benches), 'inv': inv, 'excl': excl}
    pats = []
    A, B = ['make a'], ['make b']
    # same text, same directory: executor and suite; two executors; two suites
    pats.append(([ex('E1', 'd1', A)], [su('S1', None, A, inv=2)]))
    pats.append(([ex('E1', 'd1', A), ex('E2', 'd1', A)], [su('S1', None, [])]))
    pats.append(([ex('E1', None, [])], [su('S1', 'd1', A), su('S2', 'd1', A, benches=('b1', 'b2'))]))
    # same text, different directories
    pats.append(([ex('E1', 'd1', A), ex('E2', 'd2', A)], [su('S1', None, A)]))
    pats.append(([ex('E1', 'd1', A)], [su('S1', 'd2', A), su('S2', None, A)]))
    # different texts, same directory; cwd as location
    pats.append(([ex('E1', None, A), ex('E2', None, B)], [su('S1', None, B, inv=2), su('S2', None, [])]))
    # three scripts, envs on both levels
    pats.append(([ex('E1', 'd1', A, {'E': 'e1'}), ex('E2', 'd2', B, {'E': 'e2'}), ex('E3', 'd1', A)],
                 [su('S1', None, ['cd sub', 'make c'], {'S': 's1'}, inv=2), su('S2', 'd2', B), su('S3', ABS + '/x', A)]))
    # a location under the home directory
    pats.append(([ex('E1', '~/vb', A)], [su('S1', None, B), su('S2', 'd1', A)]))
    # one directory spelled differently (trailing slash, `..`): still one build
    pats.append(([ex('E1', ABS + '/x/', A)], [su('S1', None, A)]))
    pats.append(([ex('E1', ABS + '/x/', A), ex('E2', ABS + '/y/../x', A)], [su('S1', ABS + '/x', A), su('S2', None, B)]))
    # no builds at all
    pats.append(([ex('E1', 'd1', [])], [su('S1', None, [], benches=('b1', 'b2'), inv=2)]))
    out = []
    for (es, ss) in pats:
        base = {'executors': es, 'suites': ss, 'pairs': [[e['name'], [s['name'] for s in ss]] for e in es],
                'flags': [], 'cpu': 1, 'choices': list(range(3, 67)), 'picks': None, 'pick_seed': 1}
        builds = sorted(set(b for (e, s, _b) in all_pairs(base) for b in expected_builds(base, '', e, s)))
        outcome_sets = [[]]
        for i in range(len(builds)):
            outcome_sets.append([(i, 'fail')])
        if builds:
            outcome_sets.append([(0, 'oserr')])
            outcome_sets.append([(i, 'fail') for i in range(len(builds))])
        for oc in outcome_sets:
            for sched in ('batch', 'round-robin', 'random'):
                sc = json.loads(json.dumps(base))
                sc['sched'] = sched
                sc['results'] = [{'script': b[0], 'dir': b[1], 'res': 'ok'} for b in builds]
                for (i, r) in oc:
                    if r == 'oserr':
                        for x in sc['results']:
                            if x['dir'] == builds[i][1]:
                                x['res'] = 'oserr'
                    else:
                        sc['results'][i]['res'] = r
                out.append(sc)
        # resumed sessions: (a) every run partly recorded, (b) the first benchmark complete and
        # the others new, (c) a mix
        keys = [(e['name'], s['name'], b) for (e, s, b) in all_pairs(base)]
        priors = [{'fail_after': {'|'.join(k): 1 for k in keys}, 'filter': []},
                  {'fail_after': {}, 'filter': ['s:%s:%s' % (keys[0][1], keys[0][2])]},
                  {'fail_after': {'|'.join(k): i % 2 for i, k in enumerate(keys)}, 'filter': []}]
        for pi, prior in enumerate(priors):
            for oc in ([], [(0, 'fail')] if builds else []):
                sc = json.loads(json.dumps(base))
                for s_ in sc['suites']:
                    s_['inv'] = max(2, s_['inv'])
                sc['sched'] = ('batch', 'round-robin', 'random')[pi]
                sc['prior'] = prior
                sc['results'] = [{'script': b[0], 'dir': b[1], 'res': 'ok'} for b in builds]
                for (i, r) in oc:
                    sc['results'][i]['res'] = r
                out.append(sc)
        for flags in (['-B'], ['--setup-only'], ['--setup-only', '-B']):
            sc = json.loads(json.dumps(base))
            sc['sched'] = 'batch'
            sc['flags'] = flags
            sc['results'] = [{'script': b[0], 'dir': b[1], 'res': 'ok'} for b in builds]
            out.append(sc)
    # `env` on every level: the build gets the effective env of the run that triggers it
    A_, B_ = ['make a'], ['make b']
    for k in range(8):
        es = [ex('E1', 'd1', A_, {'E': 'e1', 'T': '~/t'} if k in (0, 2, 5) else None)]
        s1 = su('S1', None, B_, {'S': 's1'} if k in (0, 1, 2, 6) else None, benches=('b1', 'b2'), inv=2 if k == 3 else 1)
        if k in (0, 1, 3, 7):
            s1['bench_env'] = {'b1': {'B': 'b1', 'P': '~/lib'}, 'b2': {'B': 'b2'}} if k != 3 else {'b2': {'B': 'b2', 'P': '~/lib'}}
        for sched in ('batch', 'random'):
            sc = {'executors': json.loads(json.dumps(es)), 'suites': [json.loads(json.dumps(s1))], 'pairs': [['E1', ['S1']]],
                  'flags': [], 'cpu': 1, 'choices': list(range(k, 64 + k)), 'picks': None, 'pick_seed': k, 'sched': sched,
                  'results': [{'script': 'make a', 'dir': 'd1', 'res': 'ok'}, {'script': 'make b', 'dir': 'd1', 'res': 'ok'}]}
            if k in (2, 4, 7):
                sc['machine_env'] = {'L': 'machine'}
            if k in (4, 5):
                sc['runs_env'] = {'L': 'runs', 'H': '~', 'Q': "it's", 'T': "~/it's"}
            if k in (5, 6):
                sc['exp_env'] = {'L': 'exp'}
            if k in (6, 7):
                sc['exec_detail_env'] = {'E1': {'L': 'det', 'H': '~/d'}}
            out.append(sc)
    # the same scenarios with the runs spread over two experiments of one session: builds shared
    # across experiments must still run once per session
    multi = []
    for sc in out:
        if sc['flags'] or sc.get('prior') or sc['sched'] != 'batch':
            continue
        es = [e['name'] for e in sc['executors']]
        ss = [s['name'] for s in sc['suites']]
        v = json.loads(json.dumps(sc))
        if len(ss) >= 2:
            v['pairs'] = [[e, ss[:1]] for e in es]
            v['more_experiments'] = [[[e, ss[1:]] for e in es]]
        elif len(es) >= 2:
            v['pairs'] = [[es[0], ss]]
            v['more_experiments'] = [[[e, ss] for e in es[1:]]]
        else:
            continue
        multi.append(v)
    out += multi
    for i, sc in enumerate(out):
        if i % 3 == 1:
            sc['conf_subdir'] = 'cfg'
    return out


def parallel_variants(rng, scs, n):
    out = []
    for sc in scs:
        if len(out) >= n:
            break
        v = json.loads(json.dumps(sc))
        for s in v['suites']:
            s['excl'] = False
        v['cpu'] = rng.choice([5, 8])
        v['pick_seed'] = rng.randrange(1 << 30)
        out.append(v)
    return out


def load_corpus():
    d = os.path.join(lib.VERIF, 'harness', 'corpus', 'C13')
    out = []
    if os.path.isdir(d):
        for f in sorted(os.listdir(d)):
            if f.endswith('.json'):
                inp = json.load(open(os.path.join(d, f)))['input']
                if inp.get('kind') != 'cli-builds':   # those are always run by cli_build_sessions
                    out.append(inp)
    return out


def run(ck):
    quick = ck.tier == 'quick'
    ck.rule = ('sharing patterns of 0-3 build scripts among 1-3 executors and 1-3 suites (same text in same / '
               'different directories, cwd, absolute path), each script ok / rc!=0 / OSError, under batch, '
               'round-robin, random (-s), -B, --setup-only, and parallel scheduling with a controlled schedule '
               '(2-3 worker threads); the whole event sequence of build and benchmark process starts/ends '
               '(script, cwd, env), per-run status and exit status are compared with RB.Builds; '
               'non-trivial = scenario with at least one build (distinct by configuration, outcomes, flags, schedule)')
    ck.assumptions = ['thread interleavings are explored at the scheduling points process start, process end and '
                      'contended lock acquisition; a data race inside one Python call is invisible',
                      'benchmark processes always succeed in these sessions (their failures are C04/C10)']
    corpus = load_corpus()
    ck.count('corpus', len(corpus))
    check_batch(ck, corpus, base_idx=0)
    pats = pattern_scenarios()
    if quick:
        pats = [p for i, p in enumerate(pats) if i % 2 == ck.seed % 2 or p['flags'] or p.get('prior') or p.get('more_experiments')
                or any(s_.get('bench_env') for s_ in p['suites']) or p.get('exp_env') or p.get('runs_env')]
    idx = 1000
    for i in range(0, len(pats), 60):
        check_batch(ck, pats[i:i + 60], base_idx=idx + i)
    idx += len(pats)
    n_seq = 220 if quick else 3000
    n_par = 200 if quick else 5000
    rnd = [gen_scenario(ck.rng) for _ in range(n_seq)]
    for i in range(0, len(rnd), 100):
        check_batch(ck, rnd[i:i + 100], base_idx=idx + i)
    idx += len(rnd)
    par = parallel_variants(ck.rng, [p for p in pattern_scenarios() if not p['flags']], 40 if quick else 400)
    par += [gen_scenario(ck.rng, parallel=True) for _ in range(n_par)]
    for i in range(0, len(par), 100):
        check_batch(ck, par[i:i + 100], base_idx=idx + i)
    cli_build_sessions(ck, not quick)
    ck.exhaustive = False


# ------------------------------------------------------------------ real CLI, real build scripts
ASCII_LOCALE = {'LC_ALL': 'C', 'PYTHONUTF8': '0', 'PYTHONCOERCECLOCALE': '0'}
NON_ASCII_PRINTF = "printf '\\342\\234\\223 built \\342\\206\\222 caf\\303\\251\\n'"


def cli_build_sessions(ck, thorough):
    """the real CLI in a child process with real /bin/sh build scripts: whatever the locale of the
    process and whatever the scripts print (non-ASCII characters like many build tools do), every
    build runs once, a failing build keeps its runs from starting, is reported (exit status 1, no
    traceback), and independent runs proceed. Sequential and (on this multi-core machine) parallel."""
    import drive_config
    scen = []
    for (locale, out, bad, par) in [('ascii', 'non-ascii', False, True), ('ascii', 'non-ascii', True, False),
                                    ('ascii', 'non-ascii', False, False), ('utf8', 'non-ascii', True, True),
                                    ('ascii', 'ascii', True, False)] + \
            ([(l, o, b, p) for l in ('ascii', 'utf8') for o in ('ascii', 'non-ascii') for b in (False, True)
              for p in (False, True)] if thorough else []):
        scen.append({'locale': locale, 'output': out, 'bad_executor_build': bad, 'parallel': par})
    # a build that cannot even be started: the executor's path is a regular file (ENOTDIR)
    scen.insert(1, {'locale': 'utf8', 'output': 'ascii', 'bad_executor_build': True, 'parallel': False, 'bad_start': 'ENOTDIR'})
    if thorough:
        scen.append({'locale': 'ascii', 'output': 'non-ascii', 'bad_executor_build': True, 'parallel': True, 'bad_start': 'ENOTDIR'})
    for i, sc in enumerate(scen):
        wd = os.path.join(ck.scratch, 'cli%d' % i)
        sdir = os.path.join(wd, 'suite')
        os.makedirs(sdir)
        for v in ('G', 'B'):
            path = os.path.join(sdir, 'vm%s.sh' % v)
            with open(path, 'w') as f:
                f.write('#!/bin/sh\necho "%s $1" >> %s/runs.log\necho 1.0\n' % (v, wd))
            os.chmod(path, 0o755)
        say = NON_ASCII_PRINTF if sc['output'] == 'non-ascii' else "echo built ok"
        cfg = {'default_data_file': 'cli.data', 'build_log': 'build.log',
               'runs': {'invocations': 1, 'execute_exclusively': not sc['parallel']},
               'benchmark_suites': {'S': {'gauge_adapter': 'PlainSecondsLog', 'location': sdir, 'command': '%(benchmark)s',
                                          'build': ['echo built >> %s/S.count' % wd, say],
                                          'benchmarks': ['b1', 'b2', 'b3', 'b4']}},
               'executors': {'Good': {'path': sdir, 'executable': 'vmG.sh',
                                      'build': ['echo built >> %s/Good.count' % wd, say]}},
               'experiments': {'All': {'suites': ['S'], 'executions': ['Good']}}}
        if sc['bad_executor_build']:
            cfg['executors']['Bad'] = {'path': sdir, 'executable': 'vmB.sh',
                                       'build': ['echo built >> %s/Bad.count' % wd, say, say + ' >&2', 'exit 1']}
            cfg['experiments']['All']['executions'].append('Bad')
            if sc.get('bad_start') == 'ENOTDIR':
                cfg['executors']['Bad']['path'] = os.path.join(sdir, 'vmG.sh')   # a regular file
        conf = drive.write_config(wd, cfg)
        r = drive_config.run_cli(wd, [conf], ASCII_LOCALE if sc['locale'] == 'ascii' else {'LC_ALL': 'C.UTF-8'})
        ck.impl_traces += 1

        def count(name):
            p = os.path.join(wd, name)
            return len(open(p).read().split('\n')) - 1 if os.path.exists(p) else 0
        runs = open(os.path.join(wd, 'runs.log')).read().split('\n')[:-1] if os.path.exists(os.path.join(wd, 'runs.log')) else []
        obs = {'exit': r.exit, 'traceback': r.crash[0] if r.crash else None,
               'build_counts': {b: count(b + '.count') for b in ('S', 'Good', 'Bad')}, 'benchmark_starts': sorted(runs)}
        inp = dict(sc, kind='cli-builds', config=cfg)
        ck.count('cli-builds:%s/%s/%s/%s' % (sc['locale'], sc['output'], ('bad-' + sc['bad_start'] if sc.get('bad_start') else 'bad') if sc['bad_executor_build'] else 'ok',
                                            'parallel' if sc['parallel'] else 'batch'))
        ck.case(nontrivial_key=('cli-builds', json.dumps(sc, sort_keys=True)), sample={'scenario': sc, 'observed': obs})
        sig = {'locale': sc['locale'], 'build_output': sc['output']}
        if r.crash:
            ck.oracle_fail('no_traceback', inp, dict(obs, stderr=r.stderr[-600:]),
                           signature=dict(sig, clause='no_traceback', exception=r.crash[0], session='cli'))
        want = {'S': 1, 'Good': 1, 'Bad': 1 if sc['bad_executor_build'] and not sc.get('bad_start') else 0}
        for b, n in obs['build_counts'].items():
            if n > 1 or (n != want[b] and not r.crash):
                ck.oracle_fail('once', inp, dict(obs, build=b, expected=want[b]),
                               signature=dict(sig, clause='once', scheduler='parallel' if sc['parallel'] else 'sequential', session='cli'))
        if any(x.startswith('B ') for x in runs):
            ck.oracle_fail('failure_no_start', inp, obs, signature=dict(sig, clause='failure_no_start', session='cli'))
        if sorted(x for x in runs if x.startswith('G ')) != ['G b1', 'G b2', 'G b3', 'G b4']:
            ck.oracle_fail('independent_proceeds', inp, dict(obs, stderr=r.stderr[-300:]),
                           signature=dict(sig, clause='independent_proceeds', session='cli'))
        if not r.crash and r.exit != (1 if sc['bad_executor_build'] else 0):
            ck.oracle_fail('failure_exit', inp, obs, signature=dict(sig, clause='failure_exit', session='cli'))


def replay(ck, data):
    if data['input'].get('kind') == 'cli-builds':
        cli_build_sessions(ck, False)
        return
    inp = data['input']
    check_batch(ck, [inp], base_idx=0, search=False)
