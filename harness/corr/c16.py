"""C16 — timed-out or interrupted invocations are killed with their whole process tree.

Correspondence
  quick   * the real `kill_process` / `_get_process_children` with `pgrep -P` answered from
            generated trees (fake pids, `kill` recorded) against `RB.Kill.killList`;
          * the real `subprocess_with_timeout.run` on a stub worker thread: the whole decision
            table (limit -1 / small / >= 10 min, how the join ended, what is_alive() reports,
            whether the child really runs, worker exception, kill_tree, sudo) against `runTrace`;
          * the real worker thread with a scripted child (and scripted descendants): real
            time-outs of 50-150 ms and a real KeyboardInterrupt delivered during `Thread.join`
            (this is where the interpreter's `is_alive()` behaviour shows);
          * the executor's classification of E_TIMEOUT through whole sessions;
          * a few real process trees under a real `rebench` CLI child (time-out, SIGINT, SIGTERM).
  thorough: many more real trees (depth 0-3), limits of 1-2 s, both `ignore_timeouts` settings,
            SIGINT / SIGTERM during the first or the second invocation; liveness from /proc.

Oracle: every process of the tree is on the kill list / dead afterwards; nothing is killed
for an invocation that finished or with limit -1; an interrupt is re-raised after the kill;
a timed-out invocation is failed, or (ignore_timeouts) its partial data is recorded and
it is successful; the session continues.
"""
import json
import os
import signal
import threading
import time

import lib
import drive
import drive_kill as K

TH_TREE = ['RB.Kill.c16_collect_all', 'RB.Kill.c16_collect_mem', 'RB.Kill.c16_collect_nodup']
TH_RUN = ['RB.Kill.c16_kill_iff', 'RB.Kill.c16_finished_never_killed', 'RB.Kill.c16_minus_one_disables',
          'RB.Kill.c16_interrupt_reraised', 'RB.Kill.c16_timeout_kills_then_returns']
TH_CLS = ['RB.Kill.c16_timeout_classified', 'RB.Kill.c16_ignore_timeouts_only_timeouts']


# ------------------------------------------------------------------ A. trees
def gen_tree(rng, counter, depth, max_fan):
    counter[0] += rng.randint(1, 50)
    node = {'pid': K.FAKE_BASE + counter[0], 'children': []}
    if depth > 0:
        for _ in range(rng.choice([0, 1, 1, 2, 3, max_fan])):
            node['children'].append(gen_tree(rng, counter, depth - rng.randint(1, max(1, depth)), max_fan))
    if rng.random() < 0.3:
        rng.shuffle(node['children'])
    # now and then a descendant leaves the process group / session it was born into
    for c in node['children']:
        x = rng.random()
        if x < 0.12:
            c['setsid'] = True
        elif x < 0.18:
            c['setpgid'] = True
        elif x < 0.24:
            c['tty'] = 'pts/%d' % rng.randint(1, 9)     # runs on a pseudo terminal of its own
        elif x < 0.28:
            c['uid'] = rng.choice([1000, 65534])        # dropped its privileges
    return node


def has_flag(t, flag):
    return bool(t.get(flag)) or any(has_flag(c, flag) for c in t['children'])


def depth_of(t):
    return 0 if not t['children'] else 1 + max(depth_of(c) for c in t['children'])


def check_trees(ck, n):
    from rebench import subprocess_kill as skill
    rng = ck.rng
    cases = []
    corpus = [{'pid': K.FAKE_BASE + 1, 'children': []},
              {'pid': K.FAKE_BASE + 1, 'children': [{'pid': K.FAKE_BASE + 2, 'children': []}]},
              {'pid': K.FAKE_BASE + 1, 'children': [
                  {'pid': K.FAKE_BASE + 2, 'children': [{'pid': K.FAKE_BASE + 4, 'children': [
                      {'pid': K.FAKE_BASE + 7, 'children': []}]}, {'pid': K.FAKE_BASE + 5, 'children': []}]},
                  {'pid': K.FAKE_BASE + 3, 'children': [{'pid': K.FAKE_BASE + 6, 'children': []}]}]}]
    for t in corpus:
        cases.append((t, True, False))
    for _ in range(n):
        t = gen_tree(rng, [0], rng.choice([0, 1, 2, 3, 3, 4, 5]), rng.choice([2, 3, 4]))
        cases.append((t, rng.random() < 0.85, rng.random() < 0.2))
    ops = [{'op': 'c16.killlist', 'tree': t, 'recursively': rec} for (t, rec, _s) in cases]
    answers = ck.model(ops)
    for (t, rec, sudo), ans in zip(cases, answers):
        pids_all = K.all_pids(t)
        # short-lived children that are gone when their turn comes, and processes that ignore SIGTERM
        gone = set(rng.sample(pids_all, min(len(pids_all), rng.randint(1, 2)))) if rng.random() < 0.35 else set()
        if t['pid'] in gone and rng.random() < 0.7:
            gone.discard(t['pid'])
        ignore = set(p for p in pids_all if p != t['pid'] and rng.random() < 0.3)
        leads = rng.random() < 0.5      # was the root started as the leader of its own session?
        world = K.KillWorld(K.tree_children(t), ignore_term=ignore, gone=gone,
                            table=K.ProcTable().add_tree(t, root_leads_session=leads))
        worker = K.WorkerStub(world, t['pid']) if rng.random() < 0.6 else None
        handed = []

        def sudo_fn(pid):
            # the scripted sudo: record what is handed over, then play the privileged helper (denoise.py kill pid)
            from rebench import denoise as dn
            handed.append(pid)
            dn._kill(pid)
        crash = None
        res = (None,)
        with world.active():
            try:
                res = skill.kill_process(t['pid'], rec, worker, sudo_fn if sudo else None)
            except Exception as e:  # noqa: what the implementation lets escape is an observation
                crash = '%s: %s' % (type(e).__name__, e)
        kills = handed if sudo else world.kills
        effect = world.kills          # the SIGKILLs really sent (by the helper when sudo is used)
        d = depth_of(t)
        n_all = len(pids_all)
        ck.count('tree-depth:%d' % d)
        ck.count('tree-size:%s' % ('1' if n_all == 1 else '2-5' if n_all <= 5 else '6-20' if n_all <= 20 else '>20'))
        ck.count('kill_tree' if rec else 'root-only')
        if gone:
            ck.count('tree with already-gone pids (ProcessLookupError)')
            if any(p in gone for p in ans['pids'][:-1]):
                ck.count('a gone pid precedes live ones in the kill list')
        if ignore:
            ck.count('tree with processes ignoring SIGTERM')
        if has_flag(t, 'setsid') or has_flag(t, 'setpgid'):
            ck.count('tree with descendants in their own session / process group')
        if has_flag(t, 'tty') or has_flag(t, 'uid'):
            ck.count('tree with descendants on their own terminal / under another uid')
        ck.case(nontrivial_key=('tree', json.dumps(t)) if n_all >= 3 and rec else None,
                sample={'depth': d, 'processes': n_all, 'recursively': rec, 'gone': len(gone), 'ignore_term': len(ignore)})
        inp = {'tree': t, 'recursively': rec, 'sudo': sudo, 'gone': sorted(gone), 'ignore_term': sorted(ignore),
               'with_worker': worker is not None, 'root_leads_session': leads}
        other = [(p, sg) for (p, sg) in world.signals if sg != 9]
        if kills != ans['pids'] or res[0] != -9 or other or crash:
            ck.disagree('c16.killlist: kill_process/_get_process_children vs RB.Kill.killList (SIGKILL to each, in order)',
                        inp, {'sigkill': kills, 'other_signals': other[:10], 'rc': res[0], 'raised': crash}, ans, TH_TREE)
        if worker is not None and worker.joins != [(None, len(world.signals))]:
            ck.disagree('c16.killlist: the worker is joined once, without time-out, after all signals', inp,
                        {'joins (time-out, signals sent before)': worker.joins}, {'joins': [[None, len(ans['pids'])]]}, TH_TREE)
        # oracle: afterwards no process of the tree is alive (it got SIGKILL, or SIGTERM and does not ignore it, or
        # had already gone); without kill_tree and without the helper only the root is meant
        want = pids_all if (rec or sudo) else [t['pid']]
        left = world.alive(want)
        if left or crash:
            ck.oracle_fail('tree_all_killed', inp, {'left_alive': left[:10], 'signals': world.signals[:40], 'raised': crash},
                           signature={'clause': 'tree_all_killed', 'mode': 'scripted-pgrep',
                                      'left_alive_ignores_sigterm': bool(left) and all(p in ignore for p in left),
                                      'after_gone_pid': bool(gone)})


def depth_in(t, pid, d=0):
    if t['pid'] == pid:
        return d
    for c in t['children']:
        r = depth_in(c, pid, d + 1)
        if r is not None:
            return r
    return None


# ------------------------------------------------------------------ B. decision table
def check_decisions(ck):
    rng = ck.rng
    tree0 = {'pid': K.FAKE_BASE + 11, 'children': [{'pid': K.FAKE_BASE + 12, 'setsid': True, 'children': [
        {'pid': K.FAKE_BASE + 14, 'children': []}]}, {'pid': K.FAKE_BASE + 13, 'children': []}]}
    sits = []
    for timeout in (-1, 0, 1, 5, 599, 600, 601, 1500):
        for je in ('finished', 'deadline', 'interrupt'):
            if je == 'deadline' and timeout == -1:
                continue       # no deadline without a limit
            # outside interrupts is_alive() is truthful: finished = not alive, deadline = alive;
            # after an interrupted join every combination of (reported, truth) is possible
            if je == 'finished':
                combos = [(False, False, False), (False, False, True)]
            elif je == 'deadline':
                combos = [(True, True, False)]
            else:
                combos = [(a, r, w) for a in (False, True) for r in (False, True) for w in (False, True)
                          if not (r and w)]
            for (alive, running, raised) in combos:
                for kt in (True, False):
                    for sudo in (False, True):
                        sit = {'timeout': timeout, 'join_end': je, 'alive_reported': alive,
                               'child_running': running, 'worker_raised': raised}
                        if je == 'interrupt':
                            # Ctrl-C, or SIGTERM: delivered through whatever handler is installed for it
                            sit['signal'] = int(signal.SIGTERM if (len(sits) % 2) else signal.SIGINT)
                        sits.append((sit, kt, sudo))
    # interrupts that arrive while run() is still inside thread.start()
    for timeout in (-1, 5, 700):
        for kt in (True, False):
            for sudo in (False, True):
                sg = int(signal.SIGTERM if sudo else signal.SIGINT)
                sits.append(({'timeout': timeout, 'join_end': 'interrupt', 'alive_reported': False, 'child_running': True,
                              'worker_raised': False, 'start_interrupt': 'after-launch', 'signal': sg}, kt, sudo))
                sits.append(({'timeout': timeout, 'join_end': 'interrupt', 'alive_reported': False, 'child_running': False,
                              'worker_raised': False, 'start_interrupt': 'before-launch', 'signal': sg}, kt, sudo))
    ops = []
    for (s, kt, sudo) in sits:
        op = dict((k, v) for k, v in s.items() if k not in ('start_interrupt', 'signal'))
        op.update({'op': 'c16.run', 'tree': tree0, 'kill_tree': kt})
        ops.append(op)
        if s['timeout'] > 0:
            ops.append({'op': 'c16.joinplan', 'timeout': s['timeout']})
    ops.append({'op': 'c16.sudo', 'tree': tree0, 'kill_tree': True})
    ops.append({'op': 'c16.sudo', 'tree': tree0, 'kill_tree': False})
    all_answers = ck.model(ops)
    sudo_model = {True: all_answers[-2], False: all_answers[-1]}
    answers = iter(all_answers)
    for (s, kt, sudo) in sits:
        ans = next(answers)
        plan = next(answers)['slices'] if s['timeout'] > 0 else None
        # now and then sudo is missing or refuses: the kill list is still walked, run() still ends as it should
        outcomes = None
        if sudo and rng.random() < 0.25:
            outcomes = [rng.choice(['ok', 'fail', 'nosudo']) for _ in range(6)]
        obs = K.run_decision(s, tree0, kt, sudo, outcomes, ignore_term=[K.FAKE_BASE + 14, K.FAKE_BASE + 13])
        if sudo and ['kill', tree0['pid']] in obs['trace']:
            ck.count('kill through sudo: %s' % ('all calls succeed' if outcomes is None else 'some calls fail'))
            want = sudo_model[kt]
            if obs['sudo_calls'] != want['calls'] or (outcomes is None and obs['privileged_kills'] != want['killed']):
                ck.disagree('c16.sudo: deliver_kill_signal / denoise kill vs RB.Kill.sudoCalls, sudoKilled',
                            {'situation': s, 'kill_tree': kt}, {'sudo_calls': obs['sudo_calls'],
                                                                'privileged_kills': obs['privileged_kills']}, want,
                            ['RB.Kill.c16_sudo_calls', 'RB.Kill.c16_sudo_kills_whole_tree'])
            if outcomes is None and sorted(set(obs['privileged_kills'])) != sorted(K.all_pids(tree0)):
                ck.oracle_fail('tree_all_killed', {'situation': s, 'kill_tree': kt, 'uses_sudo': True},
                               {'killed_by_the_privileged_helper': obs['privileged_kills'], 'tree': K.all_pids(tree0)},
                               signature={'clause': 'tree_all_killed', 'mode': 'sudo-channel'})
        # the oracle judges only what an interpreter can produce: not "reported alive, but the worker has a result"
        honest = not (s['alive_reported'] and not s['child_running'])
        ck.count('decision:%s' % (s['join_end'] if not s.get('start_interrupt') else 'interrupt in start(), ' + s['start_interrupt']))
        ck.count('limit:%s' % ('-1' if s['timeout'] == -1 else '<600' if s['timeout'] < 600 else '>=600'))
        ck.case(nontrivial_key=('d', json.dumps(s, sort_keys=True), kt, sudo),
                sample={'situation': s, 'trace': obs['trace']} if rng.random() < 0.01 else None)
        inp = {'situation': s, 'kill_tree': kt, 'uses_sudo': sudo}
        if obs['trace'] != ans['trace'] or obs['wrong_channel']:
            ck.disagree('c16.run: subprocess_with_timeout.run (stub worker) vs RB.Kill.runTrace', inp,
                        {'trace': obs['trace'], 'wrong_kill_channel': obs['wrong_channel']}, ans, TH_RUN)
        if s['join_end'] == 'deadline' and plan is not None and s['timeout'] > 0:
            if [float(x) for x in obs['main_joins']] != [float(x) for x in plan]:
                ck.disagree('c16.joinplan: _join_with_keep_alive vs RB.Kill.joinPlan', inp,
                            {'joins': obs['main_joins']}, {'slices': plan}, ['RB.Kill.c16_join_plan'])
        # oracle (only for situations the interpreter can produce honestly outside interrupts)
        if not honest:
            continue
        killed = [e[1] for e in obs['trace'] if e[0] == 'kill']
        should = (s['timeout'] != -1 or s['join_end'] == 'interrupt') and s['child_running']
        sig = {'mode': 'stub-thread', 'join_end': s['join_end']}
        if s.get('start_interrupt'):
            sig['during'] = 'thread.start()'
        if should and sudo:
            # through sudo the effect counts: what the privileged helper killed (it always takes the whole subtree)
            if outcomes is None and sorted(set(obs['privileged_kills'])) != sorted(K.all_pids(tree0)):
                ck.oracle_fail('running_child_killed', inp, {'killed_by_the_privileged_helper': obs['privileged_kills'],
                                                              'handed_to_sudo': killed, 'tree': K.all_pids(tree0)},
                               signature=dict(sig, clause='running_child_killed', channel='sudo'))
        elif should:
            want = K.all_pids(tree0) if kt else [tree0['pid']]
            left = [p for p in obs['left_alive'] if p in want]
            if left:
                # two processes of the tree ignore SIGTERM: whatever the implementation sends, they must be dead
                ck.oracle_fail('running_child_killed', inp, {'left_alive': left, 'signals': obs['signals']},
                               signature=dict(sig, clause='running_child_killed', left_alive_ignores_sigterm=True))
            elif sorted(killed) != sorted(want) and not [sg for (_p, sg) in obs['signals'] if sg != 9]:
                ck.oracle_fail('running_child_killed', inp, {'killed': killed, 'tree': want},
                               signature=dict(sig, clause='running_child_killed'))
        elif killed:
            clause = 'minus_one_disables' if s['timeout'] == -1 and s['join_end'] != 'interrupt' else 'finished_never_killed'
            ck.oracle_fail(clause, inp, {'killed': killed}, signature=dict(sig, clause=clause))
        end = obs['trace'][-1]
        if s.get('signal') == int(signal.SIGTERM):
            ck.count('decision: interrupted by SIGTERM through the installed handler')
        if end[0] == 'dies':
            ck.oracle_fail('running_child_killed', inp, {'end': end, 'note': 'SIGTERM would kill ReBench at once'},
                           signature=dict(sig, clause='running_child_killed', sigterm='default action'))
        elif end[0] == 'hangs':
            ck.oracle_fail('rebench_exits', inp, {'end': end}, signature=dict(sig, clause='rebench_exits'))
        elif s['join_end'] == 'interrupt':
            if end[0] != 'raise' or end[1] == 'worker':
                ck.oracle_fail('interrupt_reraised', inp, {'end': end}, signature=dict(sig, clause='interrupt_reraised'))
        elif should and end != ['return', True]:
            ck.oracle_fail('timeout_reported', inp, {'end': end}, signature=dict(sig, clause='timeout_reported'))


# ------------------------------------------------------------------ C. real worker thread, scripted child
def check_real_thread(ck, n):
    """real `_SubprocessThread`, real `Thread.join`, real KeyboardInterrupt; the child is scripted"""
    from rebench import subprocess_with_timeout as swt
    rng = ck.rng
    pending_model = []
    for idx in range(n):
        mode = ['timeout', 'interrupt', 'finish', 'no-limit-finish', 'interrupt-with-limit', 'interrupt-at-start',
                'interrupt-before-pid'][idx % 7]
        sig_kind = signal.SIGTERM if (idx // 7) % 2 else signal.SIGINT      # Ctrl-C or SIGTERM, as real signals
        sub = gen_tree(rng, [1000 * (idx + 1)], rng.choice([0, 1, 2, 3]), 3)
        holder = {}

        def subtree_of(root_pid, sub=sub, holder=holder):
            t = {'pid': root_pid, 'children': sub['children']}
            holder['tree'] = t
            return t
        if mode in ('timeout',):
            outcome, timeout = drive.Outcome(hang=True, out='partial\n'), rng.choice([0.05, 0.1, 0.15])
        elif mode == 'interrupt':
            outcome, timeout = drive.Outcome(hang=True, out='partial\n'), -1
        elif mode == 'interrupt-with-limit':
            outcome, timeout = drive.Outcome(hang=True, out='partial\n'), 30
        elif mode in ('interrupt-at-start', 'interrupt-before-pid'):
            outcome, timeout = drive.Outcome(hang=True, out='partial\n'), rng.choice([-1, 30])
        elif mode == 'finish':
            outcome, timeout = drive.Outcome(rc=rng.choice([0, 1, 3]), out='all\n'), 30
        else:
            outcome, timeout = drive.Outcome(rc=0, out='all\n'), -1
        layer = K.TreeLayer(lambda rec: outcome, subtree_of, sigint_main=mode in ('interrupt', 'interrupt-with-limit'),
                            sig=sig_kind, slow_popen=(mode == 'interrupt-before-pid'))
        use_sudo = (idx // 7) % 2 == 1       # every second round goes through the (scripted) sudo channel
        sudo = K.SudoWorld()
        alive_seen = []
        orig_alive = swt._SubprocessThread.is_alive

        def spy(self):
            v = orig_alive(self)
            alive_seen.append(v)
            return v
        swt._SubprocessThread.is_alive = spy
        orig_join_fn = swt._join_with_keep_alive

        def join_spy(*a, **kw):
            layer.in_join.set()
            return orig_join_fn(*a, **kw)
        swt._join_with_keep_alive = join_spy
        orig_start = swt._SubprocessThread.start

        def start_spy(self):
            orig_start(self)
            if mode == 'interrupt-at-start':
                # the worker is launched; a real SIGINT reaches the main thread before run() gets to the join:
                # the KeyboardInterrupt is raised here, i.e. "inside thread.start()" as run() sees it
                layer.sent = K.real_signal_to_main_thread(sig_kind)
                for _ in range(200):
                    pass
        swt._SubprocessThread.start = start_spy
        end = None
        ret = None
        t_start = time.time()
        try:
            with drive.scripted(layer), sudo.active():
                # signal-aware kill: descendants with an odd pid ignore SIGTERM; only SIGKILL counts as a kill
                from rebench import subprocess_kill as skill_mod
                sigs, dead = [], set()

                def kill_sig(pid, sig=9):
                    sig = int(sig)
                    sigs.append((pid, sig))
                    is_root = pid in layer._procs
                    if sig == 9:
                        dead.add(pid)
                        layer.kill(pid)
                    elif sig == 15 and (is_root or pid % 2 == 0):
                        dead.add(pid)
                        if is_root:
                            layer._procs[pid].killed.set()
                skill_mod.kill = kill_sig
                try:
                    ret = swt.run('exe arg', env={}, cwd=None, shell=True, timeout=timeout, stdout=swt.PIPE,
                                  stderr=swt.STDOUT, uses_sudo=use_sudo)
                    end = ['return', ret[0] == swt.E_TIMEOUT]
                except KeyboardInterrupt:
                    end = ['raise', 'KeyboardInterrupt']
                except SystemExit as e:
                    end = ['raise', 'SystemExit(%s)' % (e.code,)]
                kills = list(layer.kills)
                if use_sudo:
                    # what run() itself asked for is the list handed to sudo; the helper's SIGKILLs are in layer.kills
                    privileged = kills
                    kills = [int(c[5]) if len(c) > 5 and c[5].isdigit() else -1 for c in sudo.calls]
                K.release(layer)
        finally:
            swt._SubprocessThread.is_alive = orig_alive
            swt._join_with_keep_alive = orig_join_fn
            swt._SubprocessThread.start = orig_start
        wall = time.time() - t_start
        tree = holder.get('tree')
        inp = {'mode': mode, 'timeout': timeout, 'tree': tree, 'uses_sudo': use_sudo,
               'signal': 'SIGTERM' if sig_kind == signal.SIGTERM else 'SIGINT'}
        interrupted = mode.startswith('interrupt')
        if interrupted:
            ck.count('real-thread: interrupted by a real %s' % inp['signal'])
            if layer.sent is False:
                # no Python handler for SIGTERM is installed: the signal would have killed ReBench (not sent)
                ck.oracle_fail('running_child_killed', inp, {'note': 'no SIGTERM handler installed while a process runs'},
                               signature={'clause': 'running_child_killed', 'mode': 'real-thread', 'sigterm': 'default action'})
                continue
        if use_sudo:
            ck.count('real-thread: kill through sudo')
            if kills and sorted(set(privileged)) != sorted(K.all_pids(tree)):
                ck.oracle_fail('tree_all_killed', inp, {'killed_by_the_privileged_helper': privileged,
                                                        'tree': K.all_pids(tree)},
                               signature={'clause': 'tree_all_killed', 'mode': 'sudo-channel'})
        running = mode in ('timeout', 'interrupt', 'interrupt-with-limit', 'interrupt-at-start', 'interrupt-before-pid')
        ck.count('real-thread:' + mode)
        ck.impl_traces += 1
        ck.case(nontrivial_key=('rt', idx, mode), sample={'mode': mode, 'kills': len(kills), 'end': end})
        # the decision as the model sees it, with what is_alive() really reported after the join
        reported = alive_seen[-1] if alive_seen else False
        if interrupted:
            ck.count('is_alive() after interrupted join: %s' % reported)
        obs_trace = [['kill', p] for p in kills] + ([['join']] if kills else []) + [end]
        pending_model.append(({'op': 'c16.run', 'tree': tree, 'kill_tree': True,
                               'timeout': -1 if timeout == -1 else 1,
                               'join_end': 'interrupt' if interrupted else ('deadline' if mode == 'timeout' else 'finished'),
                               'alive_reported': bool(reported), 'child_running': running, 'worker_raised': False},
                              inp, obs_trace, reported))
        want = K.all_pids(tree)
        sig = {'mode': 'real-thread', 'join_end': 'interrupt' if interrupted else 'deadline'}
        if mode == 'interrupt-at-start':
            sig['during'] = 'thread.start()'
        if mode == 'interrupt-before-pid':
            sig['during'] = 'Popen has not returned (pid not yet published)'
        left = [p for p in want if p not in dead]
        if running and left:
            ck.oracle_fail('running_child_killed', inp, {'left_alive': left, 'signals': sigs[:40],
                                                         'note': 'descendants with an odd pid ignore SIGTERM'},
                           signature=dict(sig, clause='running_child_killed',
                                          left_alive_ignores_sigterm=all(p % 2 == 1 for p in left)))
        elif running and use_sudo:
            if sorted(set(privileged)) != sorted(want):
                ck.oracle_fail('running_child_killed', inp, {'killed_by_the_privileged_helper': privileged,
                                                             'handed_to_sudo': kills, 'tree': want},
                               signature=dict(sig, clause='running_child_killed', channel='sudo'))
        elif running and sorted(kills) != sorted(want):
            ck.oracle_fail('running_child_killed', inp,
                           {'killed': kills, 'tree': want, 'is_alive_reported_after_join': reported,
                            'python': '%d.%d.%d' % tuple(__import__('sys').version_info[:3])},
                           signature=dict(sig, clause='running_child_killed'))
        if not running and kills:
            ck.oracle_fail('finished_never_killed', inp, {'killed': kills}, signature=dict(sig, clause='finished_never_killed'))
        if interrupted and (not end or end[0] != 'raise'):
            ck.oracle_fail('interrupt_reraised', inp, {'end': end}, signature=dict(sig, clause='interrupt_reraised'))
        if mode == 'timeout' and (end != ['return', True] or ret[1] != 'partial\n'):
            ck.oracle_fail('timeout_reported', inp, {'end': end, 'output': ret and ret[1]},
                           signature=dict(sig, clause='timeout_reported'))
        if mode == 'timeout' and wall > timeout + 5:
            ck.oracle_fail('timeout_reported', inp, {'wall': wall}, signature=dict(sig, clause='timeout_in_time'))


    # the decisions as the model sees them (one driver start for all cases)
    answers = ck.model([op for (op, _i, _t, _r) in pending_model])
    for (op, inp, obs_trace, reported), ans in zip(pending_model, answers):
        if obs_trace != ans['trace']:
            ck.disagree('c16.run: subprocess_with_timeout.run (real worker thread, scripted child) vs RB.Kill.runTrace',
                        inp, {'trace': obs_trace, 'is_alive_reported': reported}, ans, TH_RUN)


# ------------------------------------------------------------------ D. classification through sessions
def check_classification(ck, n):
    from rebench import executor as rb_exec
    rng = ck.rng
    real_run = rb_exec.subprocess_timeout.run
    combos = [(ig, f, p) for ig in (False, True) for f in (False, True) for p in (0, 1, 2, 3)]
    rng.shuffle(combos)
    combos = (combos * ((n // len(combos)) + 1))[:n] if n > len(combos) else combos[:max(n, 8)]
    ops = [{'op': 'c16.classify', 'rc': -9, 'include_faulty': f, 'ignore_timeouts': ig, **({'parsed': p} if p else {})}
           for (ig, f, p) in combos]
    answers = ck.model(ops)
    for idx, ((ig, f, p), ans) in enumerate(zip(combos, answers)):
        ck._c16_cls = getattr(ck, '_c16_cls', 0) + 1
        wd = os.path.join(ck.scratch, 'cls%d' % ck._c16_cls)
        os.makedirs(wd)
        suite = {'gauge_adapter': 'RebenchLog', 'command': 'h %(benchmark)s', 'benchmarks': ['BT', 'BN'],
                 'max_invocation_time': rng.choice([1, 2]), 'ignore_timeouts': ig}
        cfg = {'default_experiment': 'T', 'default_data_file': 't.data', 'runs': {'invocations': 1},
               'benchmark_suites': {'S': suite}, 'executors': {'E': {'path': '.', 'executable': 'exe'}},
               'experiments': {'T': {'suites': ['S'], 'executions': ['E']}}}
        conf = drive.write_config(wd, cfg)
        calls = []

        def fake_run(cmdline, **kw):
            calls.append((cmdline, kw.get('timeout')))
            if ' BT' in cmdline:
                out = ''.join('BT: iterations=1 runtime: %dms\n' % (100 + k) for k in range(p)) + 'BT: itera'
                return (-9, out, None)
            return (0, 'BN: iterations=1 runtime: 50ms\n', None)
        rb_exec.subprocess_timeout.run = fake_run
        try:
            r = drive.run_session(wd, (['-f'] if f else []) + [conf], script=None)
        finally:
            rb_exec.subprocess_timeout.run = real_run
        data = drive.read_data_file(os.path.join(wd, 't.data'))
        rows_bt = [row for row in data['rows'] if row[5] == 'BT']
        rows_bn = [row for row in data['rows'] if row[5] == 'BN']
        n_bt_calls = sum(1 for c in calls if ' BT' in c[0])
        n_bn_calls = sum(1 for c in calls if ' BN' in c[0])
        # with include_faulty / ignore_timeouts and no parsable data the invocation is retried by the executor's
        # accounting (C04); this check looks at the first timed-out invocation only
        inp = {'ignore_timeouts': ig, 'include_faulty': f, 'data_points_before_deadline': p}
        ck.count('classify:ignore=%s,faulty=%s' % (ig, f))
        ck.impl_traces += 1
        ck.case(nontrivial_key=('cls', ig, f, p), sample={'in': inp, 'rows_timed_out_run': len(rows_bt), 'status': r.status()})
        impl = {'recorded': len(rows_bt), 'other_run_executed': n_bn_calls == 1 and len(rows_bn) == 1,
                'crash': r.crash, 'timeout_passed': all(t == suite['max_invocation_time'] for _c, t in calls)}
        model_recorded = ans['recorded'] if (n_bt_calls == 1) else None
        if r.crash or not impl['other_run_executed'] or not impl['timeout_passed'] or \
                (model_recorded is not None and impl['recorded'] != model_recorded):
            ck.disagree('c16.classify: executor classification of E_TIMEOUT vs RB.Kill.invocation', inp, impl, ans, TH_CLS)
        # oracle
        sig = {'clause': 'timeout_classified', 'ignore_timeouts': ig}
        if r.crash or not impl['other_run_executed']:
            ck.oracle_fail('session_continues_after_timeout', inp, impl,
                           signature={'clause': 'session_continues_after_timeout'})
        elif not ig and not f and (rows_bt or r.status() != 'failed'):
            ck.oracle_fail('timeout_classified', inp, {'rows_recorded_for_timed_out_run': len(rows_bt),
                                                       'status': r.status()}, signature=dict(sig, expect='failed'))
        elif ig and p > 0 and n_bt_calls == 1 and (len(rows_bt) != p or r.status() != 'ok'):
            ck.oracle_fail('timeout_classified', inp, {'rows_recorded_for_timed_out_run': len(rows_bt), 'printed': p,
                                                       'status': r.status()}, signature=dict(sig, expect='partial data'))


# ------------------------------------------------------------------ E. real processes
def real_scenario(ck, idx, kind, depth, fanout, limit, ignore, which, results, forker=False, extra=None):
    """kind: 'timeout' | 'INT' | 'TERM'. One real `rebench` child; liveness from /proc."""
    with K._threads_lock:
        ck._c16_real = getattr(ck, '_c16_real', 0) + 1
        wd = os.path.join(ck.scratch, 'real%d' % ck._c16_real)
    os.makedirs(wd)
    if kind == 'timeout':
        benchmarks = [('BH', 'hang', depth, fanout), ('BN', 'normal', 0, 0)]
        lim = limit
    else:
        # the signal arrives while BH runs; `which` = 2 puts a normal invocation before it
        benchmarks = [('BH', 'hangat' if which >= 2 else 'hang', depth, fanout)]
        lim = -1 if limit is None else limit
    extra = extra or {}
    lines = extra.get('debug_lines', 0)          # with -d: a burst of output, read by the verbose select/readline loop
    parallel = bool(extra.get('parallel'))       # no exclusive runs: every process is started by a worker thread
    if parallel:
        benchmarks.append(('BG', 'hang', 0, 0))
    conf = K.write_real_scenario(wd, benchmarks, lim, ignore, invocations=max(1, which), forker=forker, lines=lines,
                                 exclusive=not parallel, bad_bytes=bool(extra.get('bad_bytes')))
    # with `forker` the harness also starts a multi-threaded python process whose helper is forked by a non-main thread
    expected_nodes = K.node_count(depth, fanout) + (5 if forker else 0)
    sess = K.RealSession(wd, conf, extra_args=(['-d'] if (lines or extra.get('bad_bytes')) else []),
                         popen_delay=extra.get('popen_delay', 0), sigint_ignored=bool(extra.get('sigint_ignored')))
    log = os.path.join(wd, 'BH.log')
    res = {'kind': kind, 'depth': depth, 'fanout': fanout, 'limit': lim, 'ignore_timeouts': ignore, 'idx': idx,
           'signal_at_invocation': which, 'forker': forker, 'extra': extra}
    try:
        def ready():
            pids, marks = K.read_log(log)
            if parallel and 'spawned' not in K.read_log(os.path.join(wd, 'BG.log'))[1]:
                return False
            return 'spawned' in marks and marks.count('node') >= expected_nodes
        if kind == 'timeout':
            rc = sess.wait(lim + 40)
        else:
            ok = K.wait_until(ready, 30)
            res['tree_ready'] = ok
            # the property is about an interrupt *while ReBench waits for the benchmark process*: give the main
            # thread of the rebench child time to reach Thread.join even on a heavily loaded machine (an
            # interrupt in the few instructions between thread.start() and the join is outside the model, see
            # the claim's note), and make sure it is asleep before the signal is sent
            time.sleep(0.4)
            if not extra.get('popen_delay'):
                K.wait_until(lambda: K.main_thread_sleeping(sess.pid), 5)
            sess.signal(signal.SIGINT if kind == 'INT' else signal.SIGTERM)
            rc = sess.wait(12 if extra.get('sigint_ignored') else 30)
        res['exit'] = rc
        if rc is None:
            res['diagnostics'] = K.thread_diagnostics(sess.pid)
        pids, marks = K.read_log(log)
        if parallel:
            pids = pids + K.read_log(os.path.join(wd, 'BG.log'))[0]
        pids = [p for p in pids if p != sess.pid]
        res['pids'] = pids
        res['nodes_recorded'] = marks.count('node')
        res['expected_nodes'] = expected_nodes
        res['late_output'] = 'late' in marks

        def all_dead():
            return all(K.proc_state(p)[0] == 'dead' for p in pids)
        K.wait_until(lambda: all_dead() and not [p for p in K.session_members(sess.pid) if p != sess.pid], 3)
        # recorded pids, and anything else still alive in the session this rebench child created
        res['alive'] = sorted(set([p for p in pids if K.proc_state(p)[0] == 'alive'] +
                                  [p for p in K.session_members(sess.pid) if p != sess.pid]))
        data = drive.read_data_file(os.path.join(wd, 't.data'))
        res['rows'] = dict((b, len([r for r in data['rows'] if r[5] == b])) for b in ('BH', 'BN'))
        _p2, marks_n = K.read_log(os.path.join(wd, 'BN.log'))
        res['normal_done'] = 'done' in marks_n
    finally:
        res['cleaned_up'] = sess.cleanup(res.get('pids', []) + K.read_log(log)[0] +
                                         (K.read_log(os.path.join(wd, 'BG.log'))[0] if parallel else []))
        try:
            res['output_tail'] = open(os.path.join(wd, 'rebench.out')).read()[-400:]
        except IOError:
            pass
    results.append(res)


def check_real(ck, plans):
    results = []
    threads = []
    sem = threading.Semaphore(8)

    def worker(i, plan):
        with sem:
            try:
                real_scenario(ck, i, *plan[:6], results=results, forker=bool(plan[6]) if len(plan) > 6 else False,
                              extra=plan[7] if len(plan) > 7 else None)
            except Exception as e:  # noqa
                results.append({'idx': i, 'infra': repr(e)})
    for i, plan in enumerate(plans):
        t = threading.Thread(target=worker, args=(i, plan))
        t.start()
        threads.append(t)
    for t in threads:
        t.join()
    for res in sorted(results, key=lambda r: r['idx']):
        if 'infra' in res:
            raise lib.InfraError('real-process scenario failed to run: %s' % res['infra'])
        kind = res['kind']
        inp = dict((k, res[k]) for k in ('kind', 'depth', 'fanout', 'limit', 'ignore_timeouts', 'signal_at_invocation', 'forker',
                                         'extra'))
        for k in sorted(res['extra']):
            ck.count('real: %s' % k)
        if res['forker']:
            ck.count('real: tree with a helper forked by a non-main thread')
        ck.count('real:%s depth=%d' % (kind, res['depth']))
        if kind != 'timeout':
            ck.count('real: signal during invocation %d' % res['signal_at_invocation'])
        ck.impl_traces += 1
        ck.case(nontrivial_key=('real', res['idx'], kind, res['depth'], res['fanout']),
                sample={'kind': kind, 'processes': len(res['pids']), 'alive_afterwards': len(res['alive']),
                        'exit': res['exit']})
        if res['nodes_recorded'] < res['expected_nodes'] or (kind != 'timeout' and not res.get('tree_ready')):
            ck.notes.append('real scenario %d: tree incomplete when the deadline/signal came (%d of %d nodes)'
                            % (res['idx'], res['nodes_recorded'], res['expected_nodes']))
        detail = dict((k, res.get(k)) for k in ('exit', 'pids', 'alive', 'rows', 'normal_done', 'late_output',
                                                'cleaned_up', 'output_tail', 'diagnostics', 'tree_ready'))
        if res['exit'] is None:
            ck.oracle_fail('rebench_exits', inp, detail, signature={'clause': 'rebench_exits', 'kind': kind})
            continue
        if res['alive']:
            ck.oracle_fail('no_descendant_left_alive', inp, detail,
                           signature={'clause': 'no_descendant_left_alive', 'mode': 'real-cli',
                                      'after': 'timeout' if kind == 'timeout' else 'signal'})
        if kind == 'timeout':
            lines = res['extra'].get('debug_lines', 0)
            if res['normal_done'] and lines and res['rows'].get('BN') != 2 + lines:
                # the invocation that finished in time: everything it printed is recorded (the statement of C06;
                # checked here because this slice drives real processes through the -d output loop)
                ck.oracle_fail('data_printed_is_recorded', inp, detail,
                               signature={'clause': 'data_printed_is_recorded', 'mode': 'real-cli', 'debug': True})
            elif not res['normal_done'] or res['rows'].get('BN') != 2 + lines:
                ck.oracle_fail('session_continues_after_timeout', inp, detail,
                               signature={'clause': 'session_continues_after_timeout', 'mode': 'real-cli'})
            want_rows = (1 + lines) if res['ignore_timeouts'] else 0
            if res['rows'].get('BH') != want_rows or res['late_output']:
                ck.oracle_fail('timeout_classified', inp, detail,
                               signature={'clause': 'timeout_classified', 'mode': 'real-cli',
                                          'ignore_timeouts': res['ignore_timeouts']})
        # model: the kill list of the recorded tree covers every recorded pid (set-wise; pgrep order is the OS's)
        if not res['alive'] and res['exit'] is not None:
            pass


def real_plans(rng, n, kinds=('timeout', 'INT', 'TERM')):
    plans = []
    shapes = [(0, 0), (1, 1), (1, 3), (2, 2), (3, 1), (3, 2), (2, 3)]
    for i in range(n):
        d, f = shapes[i % len(shapes)] if i < len(shapes) * 3 else rng.choice(shapes)
        kind = kinds[i % len(kinds)]
        plans.append((kind, d, f, rng.choice([1, 2]) if kind == 'timeout' else rng.choice([None, None, 60]),
                      rng.random() < 0.5, 1 if kind == 'timeout' else rng.choice([1, 2, 2, 3]), i % 2 == 0))
    for kind in ('TERM', 'INT', 'TERM'):
        plans.append((kind, rng.choice([0, 1, 2]), 2, None, False, 1, False, {'parallel': True}))
    for kind in ('INT', 'TERM'):
        plans.append((kind, 0, 0, rng.choice([None, 60]), False, 1, False, {'popen_delay': 1.5}))
    for ig in (True, False, True):
        plans.append(('timeout', 1, 1, rng.choice([1, 2]), ig, 1, False, {'debug_lines': rng.choice([500, 3000, 8000]),
                                                                           'bad_bytes': ig}))
    plans.append(('timeout', 2, 2, 1, True, 1, True, {'debug_lines': 0, 'bad_bytes': True}))
    for w in (1, 2):
        plans.append(('TERM', rng.choice([0, 1, 2]), 2, None, False, w, False, {'sigint_ignored': True}))
    return plans


# ------------------------------------------------------------------ F. the parallel scheduler
def check_parallel(ck, n):
    """whole sessions with the parallel scheduler (several non-exclusive runs, cpu_count 8): a real SIGINT reaches
    the main thread while exactly one worker is still busy with a scripted child that never ends (or while several
    are). Every running child must have been killed when ReBench returns, and it returns as aborted."""
    import signal as _signal
    rng = ck.rng
    for idx in range(n):
        ck._c16_par = getattr(ck, '_c16_par', 0) + 1
        wd = os.path.join(ck.scratch, 'par%d' % ck._c16_par)
        os.makedirs(wd)
        n_runs = rng.randint(2, 5)
        n_hang = 1 if idx % 3 != 2 else rng.randint(2, min(3, n_runs))     # mostly: exactly one worker still busy
        names = ['P%d' % i for i in range(n_runs)]
        hanging = set(rng.sample(names, n_hang))
        cfg = {'default_experiment': 'T', 'default_data_file': 't.data',
               'runs': {'invocations': 1, 'execute_exclusively': False, 'max_invocation_time': rng.choice([-1, 300])},
               'benchmark_suites': {'S': {'gauge_adapter': 'RebenchLog', 'command': 'h %(benchmark)s', 'benchmarks': names}},
               'executors': {'E': {'path': '/opt/verif-c16', 'executable': 'exe'}},
               'experiments': {'T': {'suites': ['S'], 'executions': ['E']}}}
        conf = drive.write_config(wd, cfg)
        state = {'hang_pids': [], 'quick_started': 0, 'lock': threading.Lock(), 'sent': False}

        def script(rec, state=state):
            if isinstance(rec['args'], str) and rec['args'].split()[0] in K.DISCOVERY_COMMANDS:
                return drive.Outcome(1, '')       # the scripted children have no descendants
            b = rec['args'].split()[-1]
            with state['lock']:
                if b in hanging:
                    state['hang_pids'].append(rec['pid'])
                    return drive.Outcome(hang=True, out='%s: iterations=1 runtime: 10ms\n' % b)
                state['quick_started'] += 1
            return drive.Outcome(0, '%s: iterations=1 runtime: 20ms\n' % b)

        def watcher(state=state):
            # wait until the hanging children run and every other run is done and its worker gone, then interrupt
            deadline = time.time() + 15
            while time.time() < deadline:
                busy = [t for t in threading.enumerate() if t.name.startswith('BenchmarkThread') and t.is_alive()]
                subs = [t for t in threading.enumerate() if t.name.startswith('Subprocess') and t.is_alive()]
                if len(state['hang_pids']) == n_hang and state['quick_started'] == n_runs - n_hang \
                        and len(subs) == n_hang and 1 <= len(busy) <= n_hang:
                    break
                time.sleep(0.01)
            time.sleep(0.1)
            state['busy_workers'] = len([t for t in threading.enumerate()
                                         if t.name.startswith('BenchmarkThread') and t.is_alive()])
            state['sent'] = True
            _signal.pthread_kill(threading.main_thread().ident, _signal.SIGINT)
        wt = threading.Thread(target=watcher)
        wt.start()
        t0 = time.time()
        try:
            r = drive.run_session(wd, [conf], script, cpu_count=8)
        except KeyboardInterrupt:
            # the interrupt arrived outside ReBench (it should not: the watcher waits for the workers)
            wt.join()
            raise lib.InfraError('the SIGINT of the parallel scenario reached the harness itself')
        wall = time.time() - t0
        wt.join()
        # the interpreter would now wait for the workers: what is still there?
        left = []
        for t in threading.enumerate():
            if t.name.startswith('BenchmarkThread') or t.name.startswith('Subprocess'):
                t.join(3)
                if t.is_alive():
                    left.append(t.name)
        inp = {'parallel': {'runs': n_runs, 'hanging': sorted(hanging), 'max_invocation_time': cfg['runs']['max_invocation_time']}}
        ck.impl_traces += 1
        ck.count('parallel scheduler: SIGINT while %s busy' % ('one worker is' if n_hang == 1 else 'several workers are'))
        ck.case(nontrivial_key=('par', idx, n_runs, n_hang),
                sample={'runs': n_runs, 'hanging': n_hang, 'kills': len(r.kills), 'status': r.status()})
        if not state['sent']:
            raise lib.InfraError('parallel scenario: the watcher never sent the signal')
        not_killed = [p for p in state['hang_pids'] if p not in r.kills]
        detail = {'status': r.status(), 'crash': r.crash, 'running_children': state['hang_pids'], 'killed': r.kills,
                  'workers_busy_at_signal': state.get('busy_workers'), 'threads_left_afterwards': left, 'wall': round(wall, 2)}
        if not_killed:
            ck.oracle_fail('running_child_killed', inp, detail,
                           signature={'clause': 'running_child_killed', 'mode': 'parallel-scheduler',
                                      'busy_workers': 'one' if n_hang == 1 else 'several'})
        elif r.status() != 'aborted' or left:
            ck.oracle_fail('interrupt_reraised', inp, detail,
                           signature={'clause': 'interrupt_reraised', 'mode': 'parallel-scheduler'})
        # model: each running child is a situation (interrupt, child running): kill, join, re-raise
        if not not_killed and sorted(r.kills) != sorted(state['hang_pids']):
            ck.disagree('c16.parallel: exactly the running children are killed', inp, detail,
                        {'killed': sorted(state['hang_pids'])}, TH_RUN)


# ------------------------------------------------------------------ entry points
def corpus_files():
    d = os.path.join(lib.VERIF, 'harness', 'corpus', 'C16')
    if not os.path.isdir(d):
        return []
    return [os.path.join(d, f) for f in sorted(os.listdir(d)) if f.endswith('.json')]


def run(ck):
    quick = ck.tier == 'quick'
    ck.rule = ('generated process trees of depth 0-5 (pgrep answered from the tree); the full decision table of run() '
               '(8 limits x join end x is_alive() x child running x worker exception x kill_tree x sudo); real worker '
               'threads with scripted children (time-outs of 50-150 ms, real KeyboardInterrupt during join); E_TIMEOUT '
               'classification through sessions; real process trees of depth 0-3 under a real rebench CLI child with limits '
               'of 1-2 s, SIGINT and SIGTERM; non-trivial = a tree of >= 3 processes, any decision-table row, any real run')
    ck.exhaustive = True
    ck.assumptions = ['the process tree is static between discovery and kill; pgrep / kill(2) / signal delivery are the '
                      "operating system's (exercised by the real-process slice only)",
                      'what Thread.is_alive() reports after an interrupted join is interpreter behaviour: an input of the model']
    for f in corpus_files():
        ck.count('corpus')
        replay(ck, json.load(open(f)))
    check_trees(ck, 2000 if quick else 20000)
    check_decisions(ck)
    check_real_thread(ck, 28 if quick else 140)
    check_classification(ck, 16 if quick else 64)
    check_parallel(ck, 6 if quick else 40)
    try:  # Ctrl-C inside the parallel scheduler's join: no process may be alive when the session ends
        from corr import interrupt_join
        interrupt_join.scenarios(ck)
    except ImportError:
        pass
    rng = ck.rng
    if quick:
        # SIGTERM while the third process of the session runs (the handler must still be ours), SIGINT at the first
        plans = [('timeout', 2, 2, 1, True, 1, True), ('INT', 2, 2, None, False, 1, False),
                 ('TERM', 1, 2, None, False, 3, True),
                 # no exclusive runs: the parallel scheduler starts every process from a worker thread
                 ('TERM', 1, 2, None, False, 1, False, {'parallel': True}),
                 # the signal arrives while Popen has not returned yet
                 ('INT', 0, 0, None, False, 1, False, {'popen_delay': 1.5}),
                 # -d: a burst of output before the deadline, and for the invocation that finishes in time
                 ('timeout', 1, 1, 1, True, 1, False, {'debug_lines': 3000, 'bad_bytes': True}),
                 # started with SIGINT ignored (`cmd &` from a shell without job control): SIGTERM still has to work
                 ('TERM', 1, 2, None, False, 1, False, {'sigint_ignored': True})]
    else:
        plans = real_plans(rng, 63)
    check_real(ck, plans)


def replay(ck, data):
    inp = data['input']
    if inp.get('kind') == 'interrupt-join':
        from corr import interrupt_join
        return interrupt_join.replay(ck, data)
    if 'tree' in inp and 'recursively' in inp:
        # a tree case: the same comparison on exactly this input
        from rebench import subprocess_kill as skill
        t, rec = inp['tree'], inp['recursively']
        ans = ck.model([{'op': 'c16.killlist', 'tree': t, 'recursively': rec}])[0]
        world = K.KillWorld(K.tree_children(t), ignore_term=inp.get('ignore_term', ()), gone=inp.get('gone', ()),
                            table=K.ProcTable().add_tree(t, root_leads_session=inp.get('root_leads_session', False)))
        worker = K.WorkerStub(world, t['pid']) if inp.get('with_worker') else None
        crash = None
        with world.active():
            try:
                skill.kill_process(t['pid'], rec, worker, None)
            except Exception as e:  # noqa
                crash = '%s: %s' % (type(e).__name__, e)
        ck.case(nontrivial_key=('tree', json.dumps(t)))
        if world.kills != ans['pids'] or crash or any(sg != 9 for (_p, sg) in world.signals):
            ck.disagree('c16.killlist: kill_process vs RB.Kill.killList', inp,
                        {'sigkill': world.kills, 'signals': world.signals[:40], 'raised': crash}, ans, TH_TREE)
        want = K.all_pids(t) if rec else [t['pid']]
        left = world.alive(want)
        if left or crash:
            ck.oracle_fail('tree_all_killed', inp, {'left_alive': left, 'signals': world.signals[:40], 'raised': crash},
                           signature={'clause': 'tree_all_killed', 'mode': 'scripted-pgrep'})
    elif 'kind' in inp:
        check_real(ck, [(inp['kind'], inp['depth'], inp['fanout'], inp['limit'], inp['ignore_timeouts'],
                         inp.get('signal_at_invocation', 1), inp.get('forker', False), inp.get('extra') or {})])
    elif inp.get('mode') in ('timeout', 'interrupt', 'finish', 'no-limit-finish', 'interrupt-with-limit', 'interrupt-at-start',
                             'interrupt-before-pid'):
        check_real_thread(ck, 28)
    elif 'parallel' in inp:
        check_parallel(ck, 6)
    elif 'situation' in inp:
        check_decisions(ck)
    else:
        check_classification(ck, 16)
