"""C15 — streaming statistics equal the textbook values.

Correspondence: the real `StatisticProperties` (floats) against the Lean model
`RB.Stats` (exact rationals) on generated sample lists, within a rigorous
floating-point error bound; live warm-up exclusion (`Executor._eval_output`)
against reload warm-up exclusion (`DataStore.load_data`) through real sessions.
Oracle: the textbook values computed independently with `fractions.Fraction`.
"""
import math
import os
from fractions import Fraction

import lib
import drive

EPS = 2.0 ** -52


def gen_list(rng, max_len):
    kind = rng.choice(['small', 'mixed', 'offset', 'repeat', 'tiny', 'ints', 'single', 'two', 'long', 'grid', 'grid'])
    if kind == 'single':
        n = 1
    elif kind == 'two':
        n = 2
    elif kind == 'long':
        n = rng.randint(max_len // 2, max_len)
    else:
        n = rng.randint(1, max(2, max_len // 4))
    if kind == 'offset':
        off = rng.choice([1e6, 1e9, 123456789.125])
        n = min(n, 200)
        xs = [off + rng.uniform(-1, 1) * rng.choice([1, 1e-3, 10]) for _ in range(n)]
    elif kind == 'repeat':
        vals = [rng.uniform(1e-3, 1e4) for _ in range(rng.randint(1, 3))]
        xs = [rng.choice(vals) for _ in range(n)]
    elif kind == 'grid':
        # coarse grid: a sample is often exactly the running mean (4, 6, 5), the running minimum, ...
        n = rng.randint(2, 12)
        step = rng.choice([1.0, 0.5, 0.25, 5.0])
        xs = [step * rng.randint(0, 8) for _ in range(n)]
    elif kind == 'tiny':
        xs = [rng.uniform(1e-3, 1e-2) for _ in range(n)]
    elif kind == 'ints':
        xs = [float(rng.randint(0, 10 ** rng.randint(1, 9))) for _ in range(n)]
    elif kind == 'mixed':
        xs = [10 ** rng.uniform(-3, 9) for _ in range(n)]
    else:
        xs = [rng.uniform(0, 1000) for _ in range(n)]
    if rng.random() < 0.3:
        rng.shuffle(xs)
    return kind, xs


def batches_of(rng, xs):
    """random grouping of the list (order kept)"""
    if len(xs) < 2 or rng.random() < 0.4:
        return [xs]
    cuts = sorted(rng.sample(range(1, len(xs)), min(len(xs) - 1, rng.randint(1, 4))))
    out, prev = [], 0
    for c in cuts + [len(xs)]:
        out.append(xs[prev:c])
        prev = c
    return out


def impl_stats(batches):
    from rebench.statistics import StatisticProperties
    s = StatisticProperties()
    for b in batches:
        if len(b) == 1:
            s.add_sample(b[0])
        else:
            s.add(b)
    return s


def textbook(xs):
    fx = [Fraction(x) for x in xs]
    n = len(fx)
    mean = sum(fx) / n
    m2 = sum((x - mean) ** 2 for x in fx)
    return n, mean, m2, min(fx), max(fx)


def bounds(xs, mean_exact):
    n = len(xs)
    mx = max(abs(x) for x in xs)
    maxdev = float(max(abs(Fraction(x) - mean_exact) for x in xs))
    tol_mean = 4 * (n + 2) * EPS * mx + 1e-300
    # error of one Welford term: (eps|x| + mean error)·|dev|, summed over n terms, x4 margin
    tol_m2 = 4 * n * (maxdev + tol_mean) * (EPS * mx * (n + 2)) + 1e-300
    return tol_mean, tol_m2


def compare_state(ck, tag, inp, s, exact, tol_mean, tol_m2, who):
    """s: impl StatisticProperties; exact: (n, mean, m2, min, max) as Fractions"""
    n, mean, m2, mn, mxv = exact
    problems = []
    if s.num_samples != n:
        problems.append(('count', s.num_samples, n))
    if abs(Fraction(s.mean) - mean) > tol_mean:
        problems.append(('mean', s.mean, float(mean)))
    vtn = s._variance_times_num_samples if hasattr(s, '_variance_times_num_samples') else None
    std2n = Fraction(s.std_dev) ** 2 * n
    if abs(std2n - m2) > tol_m2 + Fraction(m2) * Fraction(1, 10 ** 9):
        problems.append(('std_dev', s.std_dev, math.sqrt(float(m2 / n))))
    if Fraction(s.min) != mn:
        problems.append(('min', s.min, float(mn)))
    if Fraction(s.max) != mxv:
        problems.append(('max', s.max, float(mxv)))
    return problems


def check_lists(ck, cases):
    """cases: list of (kind, xs, batches)"""
    ops = [{'op': 'c15.stats', 'batches': [[lib.frac(x) for x in b] for b in bs]} for (_k, _xs, bs) in cases]
    answers = ck.model(ops)
    for (kind, xs, bs), ans in zip(cases, answers):
        ck.count('list:' + kind)
        ck.count('len<=1' if len(xs) <= 1 else 'len<=10' if len(xs) <= 10 else 'len<=100' if len(xs) <= 100 else 'len>100')
        s = impl_stats(bs)
        exact = textbook(xs)
        tol_mean, tol_m2 = bounds(xs, exact[1])
        inp = {'xs': xs if len(xs) <= 50 else xs[:50] + ['... %d more' % (len(xs) - 50)],
               'xs_full': xs, 'batch_sizes': [len(b) for b in bs]}
        model = (ans['n'], lib.unfrac(ans['mean']), lib.unfrac(ans['m2']), lib.unfrac(ans['min']), lib.unfrac(ans['max']))
        ck.case(nontrivial_key=('l', len(xs), hash(tuple(xs))) if len(xs) >= 2 else None,
                sample={'kind': kind, 'n': len(xs), 'first': xs[:4], 'batches': [len(b) for b in bs]})
        # model vs implementation
        d = compare_state(ck, 'model', inp, s, model, tol_mean, tol_m2, 'model')
        if d:
            ck.disagree('c15.stats: StatisticProperties vs RB.Stats.addAll', inp,
                        {'n': s.num_samples, 'mean': s.mean, 'std_dev': s.std_dev, 'min': s.min, 'max': s.max},
                        ans, ['RB.Stats.c15_count', 'RB.Stats.c15_mean', 'RB.Stats.c15_m2',
                              'RB.Stats.c15_min', 'RB.Stats.c15_max'])
        # oracle: the property itself on the implementation
        for (what, got, want) in compare_state(ck, 'oracle', inp, s, exact, tol_mean, tol_m2, 'oracle'):
            ck.oracle_fail('textbook_' + what, inp, {'reported': got, 'textbook': want})
        # order / grouping independence on the implementation
        if len(xs) >= 2:
            ys = list(xs)
            ck.rng.shuffle(ys)
            s2 = impl_stats([ys])
            for (what, got, want) in compare_state(ck, 'perm', inp, s2, exact, tol_mean, tol_m2, 'oracle'):
                ck.oracle_fail('order_independent_' + what, dict(inp, permuted=ys), {'reported': got, 'textbook': want})


# ------------------------------------------------------------ warm-up, live vs reload
SPELLINGS = ['repr', '%.6e', '%.3e', '%g', '%.10g', '%E', '%.8G']


def spell(style, v):
    """how the harness prints the value: (text, value the text denotes); only spellings that the data
    file's six decimals keep exactly, otherwise Python's repr"""
    if style != 'repr':
        t = style % v
        v2 = float(t)
        if float('%f' % v2) == v2 and v2 > 0:
            return t, v2
    return repr(v), v


def warmup_sessions(ck, n_scen, forced=None):
    """`forced`: scenarios (w, invocations, iterations, values, extra criteria) instead of random ones"""
    rng = ck.rng
    ops, scen, styles = [], [], {}
    for (w, n_inv, its, vals, extra) in (forced or []):
        scen.append((w, n_inv, its, vals, extra))
        ops.append({'op': 'c15.warmup', 'w': w or 0,
                    'invs': [[{'it': k + 1, 'total': lib.frac(v)} for k, v in enumerate(inv)] for inv in vals]})
    for i in range(0 if forced else n_scen):
        w = rng.choice([None, 0, 1, 2, 3, 5])
        n_inv = rng.randint(1, 4)
        its = rng.randint(1, 7) if rng.random() < 0.75 else rng.randint(18, 60)   # ... also long invocations
        extra = rng.choice([0, 0, 0, 1, 2, 3])      # further criteria reported per iteration, before the total
        if rng.random() < 0.3:
            # many significant digits: a large common offset plus binary fractions (exact in the file's six decimals)
            off = rng.choice([987654321, 123456789, 40000000])
            vals = [[off + rng.randint(0, 640) / 64.0 for _ in range(its)] for _ in range(n_inv)]
        else:
            vals = [[round(rng.uniform(1, 500), rng.choice([0, 1, 3, 6])) for _ in range(its)] for _ in range(n_inv)]
            if rng.random() < 0.2:
                vals = [[v * 1000000.0 for v in inv] for inv in vals]      # magnitudes up to 1e9
        # the harness may print its numbers in any spelling the adapter's format allows (1e+09, 2.5E+06, 1.5e-01, ...)
        style = rng.choice(SPELLINGS)
        styles[len(scen)] = style
        vals = [[spell(style, v)[1] for v in inv] for inv in vals]
        scen.append((w, n_inv, its, vals, extra))
        ops.append({'op': 'c15.warmup', 'w': w or 0,
                    'invs': [[{'it': k + 1, 'total': lib.frac(v)} for k, v in enumerate(inv)] for inv in vals]})
    answers = ck.model(ops)
    for idx, ((w, n_inv, its, vals, extra), ans) in enumerate(zip(scen, answers)):
        wd = os.path.join(ck.scratch, '%s%d' % ('wf' if forced else 'w', idx))
        os.makedirs(wd)
        suite = {'gauge_adapter': 'RebenchLog', 'command': 'h %(benchmark)s', 'benchmarks': ['B']}
        runs_level = {'invocations': n_inv}
        shape = (idx * 7 + (w or 0)) % 4 if not forced else 0
        if w is not None:
            if shape in (0, 1):
                suite['warmup'] = w                      # configured on one level
            else:
                # configured on the benchmark (incl. an explicit 0) over a different value on a more general level
                suite['benchmarks'] = [{'B': {'warmup': w}}]
                if shape == 2:
                    runs_level['warmup'] = w + 2
                else:
                    suite['warmup'] = 4 if w != 4 else 1
        if not forced and idx % 3 == 1:
            # text that goes into the identifying columns of every data line: a tab, blanks, non-ASCII
            bd = suite['benchmarks'][0] if isinstance(suite['benchmarks'][0], dict) else {'B': {}}
            bd['B']['extra_args'] = ["--sep '\t' --quote none", 'a  b ', 'gr\u00f6\u00dfe \u2713'][idx % 9 // 3]
            suite['benchmarks'] = [bd]
            suite['command'] = 'h %(benchmark)s %(extra_args)s' if False else suite['command']
        cfg = {'default_experiment': 'T', 'default_data_file': 't.data', 'runs': runs_level,
               'benchmark_suites': {'S': suite}, 'executors': {'E': {'path': '.', 'executable': 'exe'}},
               'experiments': {'T': {'suites': ['S'], 'executions': ['E']}}}
        two_exec = (not forced) and idx % 5 == 4
        if two_exec:
            # another executor, listed FIRST with a warm-up of its own on its execution entry: settings of one
            # execution must not carry over to the next; the measured run is executor E's
            cfg['executors']['W'] = {'path': '.', 'executable': 'exeW'}
            cfg['experiments']['T']['executions'] = [{'W': {'warmup': (w or 0) + 2}}, 'E']
        conf = drive.write_config(wd, cfg)
        state = {'k': 0, 'kW': 0}

        def script(rec, vals=vals, state=state, extra=extra, style=styles.get(idx, 'repr')):
            key = 'kW' if 'exeW' in str(rec['args']) else 'k'
            k = state[key]
            state[key] += 1
            if k >= len(vals):
                return drive.Outcome(1, '')        # everything was measured already: the harness refuses
            crit = ['B: heap size: 4096kb\n', 'B gc: iterations=1 runtime: 250us\n', 'B: allocated: 12.5MB\n'][:extra]
            out = ''.join(''.join(crit) + 'B: iterations=1 runtime: %sms\n' % spell(style, v)[0] for v in vals[k])
            return drive.Outcome(0, out)
        live_stats = {}
        reload_stats = {}
        import rebench.rebench as rbm
        orig = rbm.ReBench.execute_experiment

        def grab(target):
            def wrapped(self, runs, *a, **kw):
                r = orig(self, runs, *a, **kw)
                for run in runs:
                    if run.benchmark.suite.executor.name != 'E':
                        continue
                    target['s'] = run.statistics
                    target['inv'] = run.completed_invocations
                return r
            return wrapped
        try:
            rbm.ReBench.execute_experiment = grab(live_stats)
            r1 = drive.run_session(wd, [conf], script)
            rbm.ReBench.execute_experiment = grab(reload_stats)
            r2 = drive.run_session(wd, [conf], script)
        finally:
            rbm.ReBench.execute_experiment = orig
        ck.impl_traces += 2
        inp = {'warmup': w, 'invocations': n_inv, 'iterations': its, 'values': vals, 'extra_criteria': extra,
               'suite': suite, 'runs': runs_level, 'spelling': styles.get(idx, 'repr'),
               'executions': cfg['experiments']['T']['executions']}
        ck.count('warmup:%s' % w)
        ck.count('iterations:%s' % ('<=7' if its <= 7 else '18-60'))
        ck.count('extra-criteria:%d' % extra)
        ck.count('spelling:%s' % styles.get(idx, 'repr'))
        ck.count('warmup-levels:%s' % (['one', 'one', 'benchmark-over-runs', 'benchmark-over-suite'][shape] if w is not None else 'none'))
        ck.count('text-in-run-columns:%s' % ('yes' if (not forced and idx % 3 == 1) else 'no'))
        ck.count('executions:%s' % ('two (other warm-up first)' if two_exec else 'one'))
        ck.case(nontrivial_key=('w', w, n_inv, its, hash(str(vals))) if (w or 0) > 0 else None,
                sample={'warmup': w, 'values': vals} if idx < 2 else None)
        if len(r2.starts) != 0:
            ck.disagree('c15.warmup: reload session started processes', inp, {'starts': len(r2.starts)}, ans)
            # the recorded samples were not all reloaded: the second session measured again instead
            ck.oracle_fail('reloaded_equals_measured', inp,
                           {'reload_session_started_processes': len(r2.starts),
                            'second_session': r2.status()},
                           {'kind': 'reload-incomplete'})
            continue
        if r1.crash or r2.crash or 's' not in live_stats or 's' not in reload_stats:
            ck.disagree('c15.warmup: session did not run as the model assumes', inp,
                        {'s1': r1.status(), 's2': r2.status(), 'crash': r1.crash or r2.crash}, ans)
            continue
        want = [Fraction(v) for inv in vals for v in inv[(w or 0):]]
        for (name, st, key) in (('live', live_stats['s'], 'live_stats'), ('reload', reload_stats['s'], 'reload_stats')):
            m = ans[key]
            tol = max(1e-6, 4 * (len(want) + 2) * 2.3e-16 * max([abs(x) for x in want] or [0]))   # the stated rounding bound
            if st.num_samples != m['n'] or (m['n'] and abs(Fraction(st.mean) - lib.unfrac(m['mean'])) > tol):
                ck.disagree('c15.warmup: %s statistics vs model' % name, inp,
                            {'n': st.num_samples, 'mean': st.mean}, m,
                            ['RB.Stats.c15_warmup_live_eq_reload', 'RB.Stats.c15_live_eq_reload_stats'])
            # oracle on the implementation: warm-up excluded per invocation, all others counted
            if st.num_samples != len(want):
                ck.oracle_fail('warmup_excluded_count_' + name, inp, {'reported': st.num_samples, 'expected': len(want)})
            elif want and abs(Fraction(st.mean) - sum(want) / len(want)) > tol:
                ck.oracle_fail('warmup_excluded_mean_' + name, inp,
                               {'reported': st.mean, 'expected': float(sum(want) / len(want))})
        a, b = live_stats['s'], reload_stats['s']
        scale = max(1.0, abs(a.mean) * 1e-9)
        if a.num_samples != b.num_samples or abs(a.mean - b.mean) > 1e-6 * scale or abs(a.std_dev - b.std_dev) > 1e-5 * scale \
                or abs(a.min - b.min) > 1e-6 or abs(a.max - b.max) > 1e-6:
            ck.oracle_fail('live_equals_reload', inp,
                           {'live': a.as_tuple(), 'reload': b.as_tuple()})


CORPUS = [
    ('corpus', [5.0]),
    ('corpus', [1.0, 2.0]),
    ('corpus', [2.0, 4.0, 4.0, 4.0, 5.0, 5.0, 7.0, 9.0]),
    ('corpus', [1e9 + 1, 1e9 + 2, 1e9 + 3]),
    ('corpus', [3.0, 3.0, 3.0]),
    ('corpus', [0.001, 1e9]),
    ('corpus', [10.0, 1.0, 5.0, 0.5, 20.0]),
    ('corpus', [4.0, 6.0, 5.0]),
    ('corpus', [10.0, 20.0, 15.0, 15.0]),
    ('corpus', [2.0, 2.0, 2.0, 8.0]),
]


GEN_STATS_MODULE = 'RB.Proofs.GenC15'
GEN_WARMUP_MODULE = 'RB.Proofs.GenC15b'


def gen_entry_status(ck, module):
    """status of one translation tie of this property ('ok' if it is not listed or fine)"""
    for e in getattr(ck, 'gen_entries', []) or []:
        if e['module'] == module:
            return e['status']
    return 'ok'


class _StubDP(object):
    def __init__(self, k):
        self.k = k

    def get_total_value(self):
        return float(self.k)

    def get_total_unit(self):
        return 'ms'


def real_eval_output(n, w, profiling):
    """the real Executor._eval_output on n data points: the (position, warm-up flag) of every
    run_id.add_data_point call, in order; or 'raised ...'"""
    from rebench.executor import Executor
    calls = []

    class RunIdStub(object):
        warmup_iterations = w
        completed_invocations = 0

        def is_profiling(self):
            return profiling

        def add_data_point(self, dp, warmup):
            calls.append((dp.k, bool(warmup)))

        def indicate_successful_execution(self):
            pass

        def indicate_failed_execution(self):
            calls.append('failed')

        def report_run_failed(self, *a):
            pass

    class UIStub(object):
        def __getattr__(self, _name):
            return lambda *a, **kw: None

    class AdapterStub(object):
        def parse_data(self, _data, _run_id, _inv):
            return [_StubDP(k) for k in range(n)]

    class SelfStub(object):
        ui = UIStub()
    try:
        Executor._eval_output(SelfStub(), 'out', RunIdStub(), AdapterStub(), 'cmd')
    except Exception as e:  # noqa
        return 'raised %s' % type(e).__name__
    return calls


def directed_search_warmup(ck):
    """the translation tie of the warm-up / recording rule (RB.Proofs.GenC15b) is not available.
    proof-broken: generated vs model on n in 0..30 x warmup in {None,0,1,2,5,25,40} x profiling; every
    differing input goes to the real Executor._eval_output (each data point forwarded exactly once, in order,
    the first min(w, n) flagged) and, for the reload rule, to real two-session runs.  untranslatable: the
    whole grid goes to the real code."""
    status = gen_entry_status(ck, GEN_WARMUP_MODULE)
    if status == 'ok':
        return False
    grid = [(n, w, p) for n in range(0, 31) for w in (None, 0, 1, 2, 5, 25, 40) for p in (False, True)]
    cands, reload_cands = grid, [(n, w) for (n, w, p) in grid if not p and w and n in (1, 3, 6, 30) and w <= 5]
    if status.startswith('proof-broken'):
        try:
            answers = ck.model([{'op': 'c15.warmup_diff', 'n': n, 'w': w, 'profiling': p} for (n, w, p) in grid],
                               driver='drivers/C15bgen.lean')
            cands = [g for g, a in zip(grid, answers) if not a.get('gen_live_ok', True)]
            reload_cands = sorted({(n, w) for (n, w, p), a in zip(grid, answers)
                                   if not a.get('gen_reload_ok', True) and n >= 1})[:12]
            ck.notes.append('directed search (warm-up): generated vs model differ on %d (live) / %d (reload) of %d '
                            '(points, warmup, profiling) triples' % (len(cands), len(reload_cands), len(grid)))
        except lib.InfraError as e:
            ck.notes.append('directed search (warm-up): generated definitions do not run (%s); the whole grid goes '
                            'to the real code' % str(e)[:200])
    else:
        ck.notes.append('directed search (warm-up): source not translatable; %d (points, warmup, profiling) triples '
                        'go to the real Executor._eval_output, %d to real sessions' % (len(grid), len(reload_cands)))
    ck.count('directed-search-candidates', len(cands) + len(reload_cands))
    hits = 0
    for (n, w, p) in cands:
        ck.case(nontrivial_key=('directed-warmup', n, str(w), p))
        got = real_eval_output(n, w, p)
        k = 0 if (p or not w) else min(w, n)
        want = [(i, i < k) for i in range(n)]
        if got != want:
            hits += 1
            if hits <= 40:
                clause = 'every_data_point_forwarded_once_in_order' if not isinstance(got, list) or \
                    [x[0] for x in got if isinstance(x, tuple)] != list(range(n)) else 'warmup_flag_first_w_points'
                ck.oracle_fail(clause, {'directed': 'warmup', 'points': n, 'warmup': w, 'profiling': p},
                               {'reported': got if not isinstance(got, list) else got[:40], 'expected': want[:40]},
                               {'kind': 'eval_output'})
    if reload_cands:
        forced = []
        for (n, w) in reload_cands[:12]:
            forced.append((w, 1, n, [[float(10 + 3 * i) for i in range(n)]], 0))
        warmup_sessions(ck, 0, forced=forced)
    return bool(cands or reload_cands)


def directed_search(ck):
    """the translation tie is broken: look for an input on which the code as translated and the model
    differ (exhaustively over short lists from a small value set), then put exactly those inputs to the
    implementation and the oracle"""
    import itertools
    cands = []
    status = gen_entry_status(ck, GEN_STATS_MODULE)
    if status == 'ok':
        return False
    if status.startswith('proof-broken'):
        vals = [0.0, 1.0, 2.0, 3.0, 0.5, 1000000.0, 7.25]
        lists = [list(t) for n in range(1, 5) for t in itertools.product(vals, repeat=n)]
        try:
            answers = ck.model([{'op': 'c15.gen_diff', 'xs': [lib.frac(x) for x in xs]} for xs in lists],
                               driver='drivers/C15gen.lean')
            cands = [xs for xs, a in zip(lists, answers) if not a.get('same', True)]
            ck.notes.append('directed search: generated vs model differ on %d of %d short lists' % (len(cands), len(lists)))
        except lib.InfraError as e:
            ck.notes.append('directed search: generated definitions do not run (%s)' % str(e)[:200])
    ck.count('directed-search-candidates', len(cands))
    if cands:
        cands.sort(key=len)
        check_lists(ck, [('directed', xs, [xs]) for xs in cands[:200]])
    return bool(cands)


def run(ck):
    quick = ck.tier == 'quick'
    if ck.gen_broken:
        directed_search(ck)
        directed_search_warmup(ck)
    ck.rule = ('sample lists (single, pairs, repeats, large offsets, magnitudes 1e-3..1e9, ints, long) fed in random '
               'batches to the real StatisticProperties and as exact rationals to RB.Stats; agreement within a '
               'worst-case rounding bound; non-trivial = list of length >= 2 (distinct by content) or a warm-up '
               'scenario with warmup > 0; plus real two-session (live, reload) runs of 1-4 invocations x 1-60 '
               'iterations, each iteration reporting 0-3 further criteria besides the total')
    ck.assumptions = ['IEEE-754 rounding is not modelled: agreement of the float implementation with the exact '
                      'rational model is required within 4*(n+2)*eps*max|x| (mean) and the corresponding bound for m2']
    n_lists = 400 if quick else 5000
    max_len = 500 if quick else 5000
    if ck.gen_broken and quick:   # escalate the random budget
        n_lists, max_len = 2000, 1000
    cases = [(k, xs, [xs]) for (k, xs) in CORPUS]
    for _ in range(n_lists):
        kind, xs = gen_list(ck.rng, max_len)
        cases.append((kind, xs, batches_of(ck.rng, xs)))
    # send in chunks to keep driver input moderate
    for i in range(0, len(cases), 200):
        check_lists(ck, cases[i:i + 200])
    warmup_sessions(ck, 40 if quick else 200)


def replay(ck, data):
    inp = data['input']
    if 'xs_full' in inp:
        xs = [float(x) for x in inp['xs_full']]
        sizes = inp.get('batch_sizes') or [len(xs)]
        bs, i = [], 0
        for s in sizes:
            bs.append(xs[i:i + s])
            i += s
        check_lists(ck, [('replay', xs, bs)])
    else:
        ck.notes.append('warm-up replays are re-generated from the seed: VERIF_SEED=%s' % data.get('seed'))
        ck.seed = data.get('seed', 0)
        warmup_sessions(ck, 40)
