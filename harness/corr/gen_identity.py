"""Directed search for the translation tie of the identity field lists (RB.Proofs.GenC07, spec
lean/gen/identity_fields.json).  `directed(ck)` does nothing while the tie holds.  When it is broken (a field list of
`__eq__` / `__hash__` / `as_dict` / `from_dict` of an identity class changed, or its shape is no longer translatable)
it builds real objects of every class with a different value in every constructor parameter and an env map that is
not in key order, writes them the way the data file does (`as_dict`, `persistence._to_json`), reads them back
(`json.loads`, `from_dict`) and puts to the property:
  * every attribute `__eq__` compares has the value it had, and the reloaded object equals the original;
  * objects that are equal hash equally (the data store and the loader find runs and benchmarks by hash).

Usable from C07 / C01:

    try:
        from corr import gen_identity; gen_identity.directed(ck)
    except ImportError:
        pass
"""
import json

import lib

lib.use_repo()

MODULE = 'RB.Proofs.GenC07'

ENVS = [{'ZED': 'last first', 'ALPHA': '1', 'MIDDLE': 'm'}, {'A': '1'}, None]


def build(env, shift=0):
    from rebench.model.exp_run_details import ExpRunDetails
    from rebench.model.exp_variables import ExpVariables
    from rebench.model.build_cmd import BuildCommand
    from rebench.model.executor import Executor
    from rebench.model.benchmark_suite import BenchmarkSuite
    from rebench.model.benchmark import Benchmark
    from rebench.model.run_id import RunId
    n = [shift]

    def num():
        n[0] += 1
        return n[0]

    def rd():
        return ExpRunDetails(num(), num(), num(), num(), num(), bool(num() % 2), num() + 0.5, bool(num() % 2), num(),
                             dict(env) if env is not None else None, num(), num())

    def vs():
        return ExpVariables(['s%d' % num()], [num()], ['v%d' % num()], ['t%d' % num()])
    ex = Executor('exec%d' % num(), '/p%d' % num(), 'vm%d' % num(), 'args%d' % num(), BuildCommand('make %d' % num(), None),
                  'desc%d' % num(), None, rd(), vs(), 'benchmark', None)
    ex.build.location = ex.path
    su = BenchmarkSuite('suite%d' % num(), ex, None, 'cmd%d' % num(), '/loc%d' % num(), BuildCommand('build %d' % num(), None),
                        None, 'sdesc%d' % num(), None, None)
    su.build.location = su.location
    be = Benchmark('bench%d' % num(), 'bcmd%d' % num(), None, su, vs(), 'extra%d' % num(), rd(), None)
    run = RunId(be, num(), 'in%d' % num(), 'var%d' % num(), 'tag%d' % num(), 'machine%d' % num())
    run._cmdline = 'the command line'
    return {'ExpRunDetails': be.run_details, 'ExpVariables': be.variables, 'Executor': ex, 'BenchmarkSuite': su,
            'Benchmark': be, 'RunId': run}


def reload(name, obj):
    from rebench import persistence
    from rebench.model.exp_run_details import ExpRunDetails
    from rebench.model.exp_variables import ExpVariables
    from rebench.model.executor import Executor
    from rebench.model.benchmark_suite import BenchmarkSuite
    from rebench.model.benchmark import Benchmark
    from rebench.model.run_id import RunId
    cls = {'ExpRunDetails': ExpRunDetails, 'ExpVariables': ExpVariables, 'Executor': Executor,
           'BenchmarkSuite': BenchmarkSuite, 'Benchmark': Benchmark, 'RunId': RunId}[name]
    return cls.from_dict(json.loads(persistence._to_json(obj.as_dict())))


def eq_attrs(obj):
    """the attributes the current `__eq__` mentions on `other` (read from the source, only to name what differs)"""
    import ast
    import inspect
    import textwrap
    try:
        tree = ast.parse(textwrap.dedent(inspect.getsource(type(obj).__eq__)))
    except (OSError, TypeError, SyntaxError):
        return []
    return sorted({n.attr for n in ast.walk(tree) if isinstance(n, ast.Attribute) and isinstance(n.value, ast.Name)
                   and n.value.id == 'other' and not n.attr.startswith('__')})


FIELDS = {   # the identity fields (DESIGN: what distinguishes two runs), by class
    'ExpRunDetails': ['invocations', 'iterations', 'warmup', 'min_iteration_time', 'max_invocation_time', 'ignore_timeouts',
                      'parallel_interference_factor', 'execute_exclusively', 'retries_after_failure', 'env',
                      'invocations_override', 'iterations_override'],
    'ExpVariables': ['input_sizes', 'cores', 'variable_values', 'tags'],
    'Executor': ['name', 'description', 'action', 'path', 'executable', 'args', 'build', 'run_details', 'variables'],
    'BenchmarkSuite': ['name', 'command', 'location', '_desc', 'build', 'executor'],
    'Benchmark': ['name', 'command', 'extra_args', 'run_details', 'variables', 'suite'],
    'RunId': ['cores', 'input_size', 'var_value', 'tag', 'benchmark', 'machine'],
}


def show(v):
    return '<%s>' % type(v).__name__ if hasattr(v, 'as_dict') else repr(v)[:120]


def examine(ck, env_idx, env):
    objs = build(env)
    for name, obj in objs.items():
        ck.case(nontrivial_key=('directed-identity', name, env_idx))
        inp = {'directed': 'identity-fields', 'class': name, 'env': env}
        try:
            back = reload(name, obj)
        except Exception as e:  # noqa
            ck.oracle_fail('identity_survives_reload', inp, {'raised': '%s: %s' % (type(e).__name__, str(e)[:200])},
                           {'kind': 'reload'})
            continue
        diff = {}
        for a in FIELDS[name]:
            va, vb = getattr(obj, a, None), getattr(back, a, None)
            if not (va == vb):
                diff[a] = {'written': show(va), 'read_back': show(vb)}
        if diff or not (obj == back):
            ck.oracle_fail('identity_survives_reload', inp, {'differs_in': diff, 'equal': bool(obj == back)},
                           {'kind': 'reload'})
        elif hash(obj) != hash(back):
            ck.oracle_fail('equal_objects_hash_equally', inp,
                           {'equal': True, 'hash_equal': False}, {'kind': 'hash'})
    other = build(env, shift=1000)
    for name in objs:
        if objs[name] == other[name]:
            ck.oracle_fail('different_identity_fields_differ', {'directed': 'identity-fields', 'class': name},
                           {'equal': True}, {'kind': 'eq'})


def directed(ck, force=False):
    st = [e['status'] for e in getattr(ck, 'gen_entries', []) or [] if e['module'] == MODULE and e['status'] != 'ok']
    if not st and not force:
        return False
    ck.notes.append('directed search (identity fields): %s; objects of every identity class are written and read back'
                    % (st[0][:80] if st else 'forced'))
    ck.count('directed-search-candidates', len(ENVS) * len(FIELDS))
    for i, env in enumerate(ENVS):
        examine(ck, i, env)
    return True
