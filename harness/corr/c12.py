"""C12 -- adapters are total: any output gives well-formed data points or a clean reject.

Correspondence: the real `parse_data` of the six built-in adapters (Time in its
two modes) against the Lean model `RB.Adapters.parse` on grammar-guided
near-misses of every documented line shape, random splices of valid lines,
random strings and texts with failure markers, for both `include_faulty`
settings; compared are the outcome class and the complete structure of the
result (criteria, units, iteration and invocation numbers, values).  The line
classification is done inside the model (its own recognisers), so the
comparison also covers the regular expressions.

Oracle (independent of the model): the property itself evaluated on what the
implementation returned or raised.
"""
import json
import os
import re

import lib
import drive_adapters as da

THEOREMS = ['RB.Adapters.c12_collect_wf', 'RB.Adapters.c12_collectFresh_wf', 'RB.Adapters.c12_time_p_wf',
            'RB.Adapters.c12_marker_rejects', 'RB.Adapters.c12_parse_wf']

COMMON = ['Error', 'Segmentation fault', 'Bus error']
NPB = ('ReBenchLog', 'PlainSecondsLog', 'ValidationLog')


def has_then(line, a, b):
    i = line.find(a)
    return i >= 0 and line.find(b, i + len(a)) >= 0


def markers_of(adapter, text):
    """failure markers of `adapter` in the part of the text the adapter is documented to look at
    (JMH: what follows `Run complete` is JMH's own summary with an `Error` column and is skipped on purpose)"""
    found = []
    for line in text.split('\n'):
        if adapter == 'JMH' and 'Run complete' in line:
            break
        for m in COMMON:
            if m in line:
                found.append(m)
        if adapter in NPB:
            if has_then(line, 'Failed', 'verification'):
                found.append('Failed..verification')
            if has_then(line, 'Benchmark done', 'verification failed'):
                found.append('Benchmark done..verification failed')
            if 'incorrect' in line:
                found.append('incorrect')
        if adapter == 'PlainSecondsLog' and 'error' in line:
            found.append('error')
    return found


def oracle(ck, inp, obs):
    """the property on the implementation's observation"""
    adapter, text, faulty, inv = inp['adapter'], inp['text'], inp['faulty'], inp['inv']
    out = obs['outcome']
    sig = {'adapter': adapter}
    if out not in ('ok', 'OutputNotParseable', 'ResultsIndicatedAsInvalid'):
        cause = 'int-max-str-digits' if 'Exceeds the limit' in obs.get('message', '') else 'other'
        ck.oracle_fail('no_other_exception', inp, obs,
                       dict(sig, exception=out.split(':', 1)[-1], raised_in=obs.get('raised_in'), cause=cause))
        return
    marks = markers_of(adapter, text)
    if marks and not faulty and out == 'ok':
        ck.oracle_fail('marker_rejected', inp, {'markers': marks, 'outcome': out},
                       dict(sig, marker=marks[0] if marks[0] in COMMON else 'adapter-specific'))
    if faulty and out == 'ResultsIndicatedAsInvalid':
        ck.oracle_fail('faulty_not_rejected', inp, {'outcome': out}, sig)
    if not marks and out == 'ResultsIndicatedAsInvalid':
        ck.oracle_fail('rejected_without_marker', inp, {'outcome': out}, sig)
    if out != 'ok':
        return
    dps = obs['dps']
    if not dps:
        ck.oracle_fail('non_empty', inp, {'outcome': out, 'dps': []}, sig)
        return
    for i, dp in enumerate(dps):
        totals = [k for k, m in enumerate(dp) if m[2] == 'total']
        if len(totals) != 1 or totals[0] != len(dp) - 1:
            ck.oracle_fail('one_total_last', inp, {'dp': i, 'criteria': [m[2] for m in dp]}, sig)
        if any(m[0] != inv for m in dp):
            ck.oracle_fail('invocation_stamp', inp, {'dp': i, 'invocations': [m[0] for m in dp], 'expected': inv}, sig)
        if any(m[1] != i + 1 for m in dp):
            ck.oracle_fail('iterations_consecutive', inp, {'dp': i, 'iterations': [m[1] for m in dp]}, sig)


def check_cases(ck, cases, search=True):
    """cases: list of dicts adapter/text/faulty/inv/kind"""
    ops = [{'op': 'c12.parse', 'adapter': c['adapter'], 'text': c['text'], 'faulty': c['faulty'], 'inv': c['inv']}
           for c in cases]
    answers = da.model_parallel(ck, ops)
    bad = []
    for c, ans in zip(cases, answers):
        inp = {'adapter': c['adapter'], 'text': c['text'], 'faulty': c['faulty'], 'inv': c['inv']}
        impl = da.impl_parse(c['adapter'], c['text'], c['faulty'], c['inv'])
        model = da.model_obs(ans)
        ck.count('kind:' + c.get('kind', '?'))
        ck.count('%s:%s' % (c['adapter'], impl['outcome']))
        if impl['outcome'] == 'ok':
            n = len(impl['dps'])
            ck.count('dps:' + ('0' if n == 0 else '1' if n == 1 else '2-5' if n <= 5 else '>5'))
            if any(len(dp) > 1 for dp in impl['dps']):
                ck.count('ok-with-extra-criteria')
        nontrivial = None
        if impl['outcome'] in ('ok', 'ResultsIndicatedAsInvalid') or impl['outcome'].startswith('crash'):
            nontrivial = (c['adapter'], c['faulty'], c['text'])
        ck.case(nontrivial_key=nontrivial,
                sample={'adapter': c['adapter'], 'kind': c.get('kind'), 'text': c['text'][:200],
                        'outcome': impl['outcome']} if impl['outcome'] == 'ok' else None)
        ulps = 3 if c['adapter'] == 'TimeP' else 1
        d = da.structure_diff(impl, model, ulps)
        if d is not None:
            ck.disagree('c12.parse: %s.parse_data vs RB.Adapters.parse (%s)' % (c['adapter'], d), inp,
                        da.jsonable(impl), da.jsonable(model), THEOREMS)
            bad.append(c)
        oracle(ck, inp, impl)
    if search:
        for c in bad[:20]:
            neighbourhood(ck, c)


def neighbourhood(ck, c):
    """directed oracle evaluations around a disagreeing input: every single line, every prefix and
    suffix of the line list, both include_faulty settings"""
    lines = c['text'].split('\n')
    texts = set()
    for i in range(len(lines)):
        texts.add(lines[i])
        texts.add('\n'.join(lines[:i + 1]))
        texts.add('\n'.join(lines[i:]))
    for t in sorted(texts, key=len)[:200]:
        for faulty in (False, True):
            inp = {'adapter': c['adapter'], 'text': t, 'faulty': faulty, 'inv': c['inv']}
            oracle(ck, inp, da.impl_parse(c['adapter'], t, faulty, c['inv']))


# ------------------------------------------------------------------ sessions
def session_cases(ck):
    """a few whole sessions with a scripted process: what the executor does with such output"""
    import drive
    scen = [
        ('JMH', 'Run complete\n', 'no-data'),
        ('JMH', '# Run complete. Total time: 00:00:01\nBenchmark Mode Cnt Score Error Units\n', 'no-data'),
        ('SavinaLog', 'x.Y Iteration-0: 1.5 ms\nSegmentation fault\n', 'marker'),
        ('RebenchLog', 'B: iterations=1 runtime: 5ms\nBus error\n', 'marker'),
        ('RebenchLog', 'B: iterations=1 runtime: 5ms\n', 'good'),
        ('JMH', 'Iteration   1: 5.0 ops/s\nRun complete\n', 'good'),
    ]
    for idx, (adapter, out, kind) in enumerate(scen):
        wd = os.path.join(ck.scratch, 's%d' % idx)
        os.makedirs(wd)
        cfg = {'default_experiment': 'T', 'default_data_file': 't.data', 'runs': {'invocations': 2},
               'benchmark_suites': {'S': {'gauge_adapter': adapter, 'command': 'h %(benchmark)s', 'benchmarks': ['B']}},
               'executors': {'E': {'path': '.', 'executable': 'exe'}},
               'experiments': {'T': {'suites': ['S'], 'executions': ['E']}}}
        conf = drive.write_config(wd, cfg)
        state = {'n': 0}

        def script(rec, out=out, state=state):
            state['n'] += 1
            if state['n'] > 40:   # bound a tree that restarts without end
                return drive.Outcome(1, 'stop\n')
            return drive.Outcome(0, out)
        r = drive.run_session(wd, [conf], script)
        ck.impl_traces += 1
        rows = drive.read_data_file(os.path.join(wd, 't.data'))['rows']
        inp = {'session': True, 'adapter': adapter, 'output': out, 'kind': kind, 'invocations': 2}
        obs = {'status': r.status(), 'starts': len(r.starts), 'rows': len(rows)}
        ck.count('session:' + kind)
        ck.case(nontrivial_key=('session', adapter, out))
        if r.crash:
            ck.oracle_fail('session_no_traceback', inp, dict(obs, crash=r.crash), {'adapter': adapter, 'kind': kind})
        elif kind == 'good':
            if r.status() != 'ok' or len(r.starts) != 2 or len(rows) != 2:
                ck.oracle_fail('session_good_output_recorded', inp, obs, {'adapter': adapter})
        else:
            # an invocation without usable results is a failed invocation: the run ends as failed after a
            # bounded number of starts and nothing is recorded
            if r.status() != 'failed' or len(r.starts) > 10 or rows:
                ck.oracle_fail('session_rejected_invocation_fails_run', inp, obs, {'adapter': adapter, 'kind': kind})


# -------------------------------------------------------------------- corpus
def corpus_cases():
    d = os.path.join(lib.VERIF, 'harness', 'corpus', 'C12')
    out = []
    if os.path.isdir(d):
        for f in sorted(os.listdir(d)):
            if f.endswith('.json'):
                j = json.load(open(os.path.join(d, f)))
                for c in j['cases']:
                    c = dict(c, kind='corpus')
                    if c.pop('expand', False):   # DIGITS<n> stands for n nines
                        c['text'] = re.sub(r'DIGITS(\d+)', lambda m: '9' * int(m.group(1)), c['text'])
                    out.append(c)
    return out


HAND = [
    # thresholds the model contains: 30-character criteria, duplicated totals, the `time -p` closing test
    ('ReBenchLog', 'B: ' + 'x' * 30 + ': 5ms\nB: ' + 'x' * 31 + ': 5ms\nB: iterations=1 runtime: 5ms\n'),
    ('ReBenchLog', 'B total: iterations=1 runtime: 5ms\nB: total: 7ms\nB: total: 8s\n'),
    ('ReBenchLog', 'B: mem: 1kb\n'),
    ('ReBenchLog', 'B: iterations=1 runtime: 5ms: C: iterations=2 runtime: 7us\n'),
    ('ValidationLog', 'B Success: iterations=1 runtime: 5ms success: true\nB total: iterations=1 runtime: 5us success: false\n'),
    ('ValidationLog', '[Total]\tA#1\tM#2\tP#3\n[Total] A#1 M#2 P#3\n'),
    ('ValidationLog', 'B x: iterations=1 runtime: 5ms success: true\n[Total]\tA#1\tM#2\tP#3\n'),
    ('TimeP', 'real 1.50\nuser 1.00\nsys 0.50\n'),
    ('TimeP', 'user 1.00\nsys 0.50\nfoo 0.1\nreal 0m1.500s\nreal 2.5\n'),
    ('TimeP', 'user 1.00\nsys 0.50\n'),
    ('TimeP', 'total 1.00\nreal 0.50\nuser 1.0\nsys 1.0\nx 2.0\n'),
    ('TimeFormatted', 'max rss (kb): 100\nmax rss (kb): 200\nwall-time (secounds): 1.5\nwall-time (secounds): 2.5\n'),
    ('JMH', 'Iteration   1: 5.0 ops/s\r\nIteration   2: 6 ops/s\r\nRun complete\r\nError\r\n'),
    ('JMH', 'Run complete'),
    ('JMH', 'Error\nRun complete'),
    ('SavinaLog', 'a.B Iteration-0: 1.5 ms\nSegmentation fault'),
    ('PlainSecondsLog', '1.5\n  2 \nout: 1\n1, 2, 3\nnan\n-inf\n1_0\n1e400\n'),
    ('PlainSecondsLog', '1.5\nan error\n'),
    # CPython's int() refuses more than 4300 digits
    ('ValidationLog', '[Total]\tA#' + '9' * 4300 + '\tM#2\tP#3\n'),
    ('ValidationLog', '[Total]\tA#' + '9' * 4301 + '\tM#2\tP#3\n'),
    ('ValidationLog', '[Total]\tA#1\tM#2\tP#' + '0' * 4301 + '\nBus error\n'),
    ('ValidationLog', 'Bus error\n[Total]\tA#1\tM#' + '1' * 5000 + '\tP#3\n'),
    ('ValidationLog', 'B: iterations=1 runtime: ' + '7' * 5000 + 'us success: true\n'),
]


def run(ck):
    quick = ck.tier == 'quick'
    da.check_alphabet()
    ck.rule = ('texts per adapter: grammar-guided near-misses of every documented line shape (token and character '
               'mutations: dropped / duplicated / exchanged fields, odd numerals, CR, tab, NUL, U+FFFD, non-ASCII), '
               'splices of valid lines of all adapters, random strings, texts with failure markers; both '
               'include_faulty settings; non-trivial = a text that is accepted, rejected by a marker or crashes '
               '(distinct by adapter, setting and text)')
    ck.assumptions = [
        'character classes: the model is exact for ASCII, Python\'s complete \\s table and the explicit list of '
        'non-ASCII word characters the generators use; other non-ASCII digits/letters are outside model and generators',
        'float rounding is not modelled: values agree within 1 ulp per float operation, overflow to inf, underflow to 0',
        'JMH: failure markers after the `Run complete` line are ignored on purpose (jmh_adapter.py:44-48); the '
        'marker clause is evaluated on the text before that line',
    ]
    cases = [dict(c) for c in corpus_cases()]
    for (a, t) in HAND:
        for faulty in (False, True):
            cases.append({'adapter': a, 'text': t, 'faulty': faulty, 'inv': 3, 'kind': 'hand'})
    per = 5000 if quick else 100000
    for a in da.ADAPTERS:
        for _ in range(per):
            kind, text = da.gen_text(ck.rng, a)
            cases.append({'adapter': a, 'text': text, 'faulty': ck.rng.random() < 0.35,
                          'inv': ck.rng.choice([1, 1, 2, 3, 7, 100]), 'kind': kind})
    for i in range(0, len(cases), 24000):
        check_cases(ck, cases[i:i + 24000])
    session_cases(ck)


def replay(ck, data):
    inp = data['input']
    da.check_alphabet()
    if inp.get('session'):
        session_cases(ck)
        return
    check_cases(ck, [dict(inp, kind='replay')])
