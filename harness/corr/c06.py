"""C06 — every parsed data point is recorded exactly once, in the right file, attributed.

Correspondence: histories of 1-3 real sessions (real Configurator, Executor,
schedulers, RebenchLog adapter, `_FilePersistence`; scripted processes) against
`RB.Session.sessions` / `RB.DataFile.persist`: process starts, and the lines
appended to every data file, line by line.  Password removal:
`determine_source_details` with a stubbed `git` against `RB.DataFile.stripPassword`.
Oracle: the clauses of the property evaluated on the files with an independent
reader and independent six-decimal rounding (`decimal`, ROUND_HALF_EVEN).
"""
import json
import os
from decimal import Decimal, ROUND_HALF_EVEN

import lib
import drive
import drive_persist as dp

THEOREMS_FILE = ['RB.DataFile.c06_append_only', 'RB.DataFile.c06_appended_exactly',
                 'RB.DataFile.c06_metadata_precedes', 'RB.DataFile.c06_header_once']


def fmt6_independent(v):
    return str(Decimal(v).quantize(Decimal('0.000001'), rounding=ROUND_HALF_EVEN))


def effective(cfg, suite, bench, key, default):
    val = cfg.get('runs', {}).get(key, default)
    su = cfg['benchmark_suites'][suite]
    if key in su:
        val = su[key]
    for b in su['benchmarks']:
        if isinstance(b, dict) and bench in b and key in b[bench]:
            val = b[bench][key]
    return val


def gen_scenario(rng, quick, opts=None):
    cfg = dp.gen_config(rng, opts)
    n_sessions = rng.randint(1, 3)
    specs = []
    for _ in range(n_sessions):
        sched = rng.choice(['batch', 'round-robin', 'random'])
        specs.append({'sched': sched, 'choices': [rng.randint(0, 50) for _ in range(80)] if sched == 'random' else [],
                      'stop': None})
    if rng.random() < 0.25:
        specs[0]['stop'] = rng.randint(1, 6)
    return {'cfg': cfg, 'specs': specs, 'seed': rng.randint(0, 10 ** 9), 'argv': []}


def run_scenario(ck, scen, tag):
    """drive the real sessions, ask the model, compare, evaluate the oracle"""
    import random
    wd = os.path.join(ck.scratch, tag)
    os.makedirs(wd)
    drive.write_config(wd, scen['cfg'])
    try:
        probe = dp.Probe(wd, scen['cfg'], scen.get('argv', []))
    except ValueError:
        ck.count('scenario:rejected')
        return None
    rng = random.Random(scen['seed'])
    outputs = scen.get('outputs') or dp.gen_outputs(rng, probe)
    build_ok = scen.get('build_ok')
    if build_ok is None:
        build_ok = [rng.random() < 0.85 for _ in probe.builds]
    scen['outputs'], scen['build_ok'] = outputs, build_ok
    fail_style = {(i, inv + 1): rng.choice(['rc', 'garbage']) for i, per in enumerate(outputs)
                  for inv, o in enumerate(per) if o is None}
    observed = []
    prev = [''] * len(probe.files)
    for spec in scen['specs']:
        script = dp.make_script(probe, outputs, build_ok, stop=spec.get('stop'), fail_style=fail_style)
        ob = dp.run_real_session(wd, probe, ['-s', spec['sched']] + list(scen.get('argv', [])), script,
                                 random_choice=dp.choice_fn(spec['choices']) if spec['sched'] == 'random' else None)
        ob.before = prev
        prev = ob.files
        observed.append(ob)
        ck.impl_traces += 1
    return probe, outputs, build_ok, observed


def compare_and_judge(ck, items):
    """items: list of (scen, probe, outputs, build_ok, observed)"""
    ops = []
    for (scen, probe, outputs, build_ok, observed) in items:
        specs = [{'sched': s['sched'], 'choices': s['choices'], 'stop': model_stop(s.get('stop'), ob),
                  'order': [i for i in (ob.order or []) if i is not None]}
                 for s, ob in zip(scen['specs'], observed)]
        ops.append(dp.scenario_op('c06.sessions', probe, outputs, build_ok, specs))
    answers = ck.model(ops)
    for (scen, probe, outputs, build_ok, observed), ans in zip(items, answers):
        inp = {'cfg': scen['cfg'], 'specs': scen['specs'], 'seed': scen['seed'], 'argv': scen.get('argv', []),
               'outputs': outputs, 'build_ok': build_ok}
        judge(ck, inp, probe, outputs, build_ok, observed, ans)


def model_stop(k, ob):
    """the model does not count the `perf report` process of a profiling invocation as a start of its
    own: translate the stop point (only matters for profile runs)"""
    if k is None or ob.status != 'aborted':
        return k
    return k - sum(1 for s in ob.starts[:k] if s[0] == 'report')


def judge(ck, inp, probe, outputs, build_ok, observed, ans):
    n_files = len(probe.files)
    multi = sum(1 for r in probe.runs if len(r['files']) > 1)
    ck.count('files:%d' % n_files)
    ck.count('sessions:%d' % len(observed))
    ck.count('runs-in-2+-files' if multi else 'runs-in-1-file')
    ck.count('builds:%d' % len(probe.builds))
    if any(r['profile'] for r in probe.runs):
        ck.count('has-profile-runs')
    ck.case(nontrivial_key=json.dumps([inp['cfg'], inp['specs'], inp['seed']], sort_keys=True, default=str)
            if sum(len(ob.starts) for ob in observed) > 0 else None,
            sample={'files': probe.files, 'runs': len(probe.runs), 'sessions': [s['sched'] for s in inp['specs']],
                    'starts': [len(ob.starts) for ob in observed]})
    if 'err' in ans:
        raise lib.InfraError('model rejected the scenario: %s' % ans)
    profile_files = set()
    for r in probe.runs:
        if r['profile']:
            profile_files.update(r['files'])
    for si, (ob, ms) in enumerate(zip(observed, ans['sessions'])):
        # ---- correspondence
        impl_end = {'ok': 'complete', 'failed': 'complete', 'aborted': 'interrupted'}.get(ob.status, ob.status)
        impl_trace = [s for s in ob.starts if s[0] != 'report']
        impl_files = []
        for fi in range(n_files):
            kept = ob.files[fi].startswith(ob.before[fi])
            lines, _meta = dp.canon_lines(ob.files[fi][len(ob.before[fi]):] if kept else ob.files[fi], probe,
                                          profile_file=fi in profile_files)
            impl_files.append({'prefix_kept': kept, 'appended': lines})
        impl = {'end': impl_end, 'trace': impl_trace, 'files': impl_files}
        model = {'end': ms['end'], 'trace': ms['trace'], 'files': ms['files']}
        ck.count('end:' + impl_end)
        if impl != model:
            what = [k for k in impl if impl[k] != model[k]]
            ck.disagree('c06.sessions: session %d differs in %s' % (si, what), dict(inp, session=si),
                        {k: impl[k] for k in what} | {'status': ob.status, 'crash': ob.crash,
                                                       'stderr': ob.stderr[-400:]},
                        {k: model[k] for k in what}, THEOREMS_FILE)
        # ---- oracle, on the implementation's files only
        oracle(ck, dict(inp, session=si), probe, outputs, ob, profile_files)


def expected_meas(probe, outputs, ob, fi):
    """the measurement lines the property demands for file fi in this session"""
    exp = []
    starts = [s for s in ob.starts if s[0] != 'report']
    last = len(starts) - 1
    for n, s in enumerate(starts):
        if s[0] != 'r':
            continue
        if ob.status == 'aborted' and n == last:
            continue  # the interrupted invocation delivered nothing
        run = probe.runs[s[1]]
        if fi not in run['files']:
            continue
        o = outputs[s[1]][s[2] - 1] if s[2] - 1 < len(outputs[s[1]]) else None
        if o is None:
            continue
        for j, ms in enumerate(o):
            for (crit, unit, v) in ms:
                if run['profile']:
                    exp.append([str(s[2]), '1', '0.000000', '', 'total'] + run['cols'])
                else:
                    exp.append([str(s[2]), str(j + 1), fmt6_independent(v), unit, crit] + run['cols'])
    return exp


def oracle(ck, inp, probe, outputs, ob, profile_files):
    cfg = inp['cfg']
    for fi, fname in enumerate(probe.files):
        before, after = ob.before[fi], ob.files[fi]
        sig = {'file_kind': 'profile' if fi in profile_files else 'benchmark'}
        # bytes written by earlier sessions are never altered
        if not after.startswith(before):
            ck.oracle_fail('append_only', inp, {'file': fname, 'before': before[-300:], 'after': after[:300]}, sig)
            continue
        new = after[len(before):]
        rows_new = dp_rows(new, fi in profile_files)
        exp = expected_meas(probe, outputs, ob, fi)
        got = [r[:-1] for r in rows_new]
        if got != exp:
            missing = [e for e in exp if e not in got]
            extra = [g for g in got if g not in exp]
            kind = 'missing' if missing and not extra else 'extra' if extra and not missing else \
                'order-or-count' if not missing and not extra else 'different'
            ck.oracle_fail('appended_exactly', inp, {'file': fname, 'kind': kind, 'missing': missing[:4],
                                                     'extra': extra[:4], 'expected_n': len(exp), 'got_n': len(got)},
                           dict(sig, kind=kind))
        # the column header appears once per file
        d = drive.read_data_file(os.devnull)
        headers = sum(1 for l in after.split('\n') if l == dp.HEADER)
        if after and headers != 1:
            ck.oracle_fail('header_once', inp, {'file': fname, 'headers': headers}, sig)
        # each recording session first appends a metadata block
        if new:
            first = new.split('\n')[:4]
            ok = (len(first) == 4 and first[0].startswith('#!') and first[1].startswith('# Execution Start: ')
                  and first[2].startswith('# Environment: ') and first[3].startswith('# Source: '))
            if ok:
                try:
                    json.loads(first[2][len('# Environment: '):])
                    src = json.loads(first[3][len('# Source: '):])
                    ok = 'repoURL' in src
                except ValueError:
                    ok = False
            if not ok:
                ck.oracle_fail('session_block_first', inp, {'file': fname, 'first': first}, sig)
            if sum(1 for l in new.split('\n') if l.startswith('#!')) != 1:
                ck.oracle_fail('session_block_once', inp, {'file': fname}, sig)
        # a measurement line is preceded by its run's and benchmark's metadata record, which
        # describe command line, variables and effective settings
        runs_seen, bench_seen = {}, {}
        for line in after.split('\n'):
            if line.startswith('# benchmark: '):
                i, js = line[len('# benchmark: '):].split('=', 1)
                bench_seen[int(i)] = json.loads(js)
            elif line.startswith('# run_id: '):
                i, js = line[len('# run_id: '):].split('=', 1)
                runs_seen[int(i)] = json.loads(js)
            elif line and not line.startswith('#') and line != dp.HEADER:
                cols = line.split('\t')
                rid = int(cols[11] if fi in profile_files else cols[-1])
                runcols = cols[2:11] if fi in profile_files else cols[5:14]
                ks = probe.by_cols.get(tuple(runcols), [])
                problem = None
                if rid not in runs_seen:
                    problem = 'no-run-record-before'
                elif len(ks) != 1:
                    problem = 'columns-name-no-run'
                else:
                    run = probe.runs[ks[0]]
                    rd = runs_seen[rid]
                    bd = bench_seen.get(rd.get('benchmark_id'))
                    if rd.get('cmdline') != run['cmd']:
                        problem = 'cmdline'
                    elif bd is None:
                        problem = 'no-benchmark-record-before'
                    else:
                        suite = bd['suite']['name']
                        want_inv = effective(cfg, suite, bd['name'], 'invocations', 1)
                        want_wu = effective(cfg, suite, bd['name'], 'warmup', None)
                        if bd['name'] != run['bench_name'] or bd['runDetails'].get('invocations') != want_inv \
                                or bd['runDetails'].get('warmup') != want_wu:
                            problem = 'effective-settings'
                        elif bd['variables'] != run['variables']:
                            problem = 'variables'
                if problem:
                    ck.oracle_fail('metadata_precedes', inp, {'file': fname, 'line': line[:120], 'problem': problem},
                                   dict(sig, problem=problem))
                    break


def dp_rows(text, profile):
    rows = []
    for line in text.split('\n'):
        if line == '' or line.startswith('#') or line == dp.HEADER:
            continue
        cols = line.split('\t')
        if profile:
            rows.append([cols[0], '1', '0.000000' if cols[-1] == dp.PERF_JSON else cols[-1], '', 'total'] + cols[2:12])
        else:
            rows.append(cols)
    return rows


# ---------------------------------------------------------------- password removal
def check_urls(ck, n):
    from rebench import environment as env
    from urllib.parse import urlparse  # noqa: F401  (only the implementation uses it)
    rng = ck.rng
    cases = [
        {'scheme': 'https', 'host': 'example.com', 'rest': '/a/b.git', 'user': 'me', 'password': 's3cr3t-Pw'},
        {'scheme': 'https', 'host': 'example.com', 'rest': '/a/b.git', 'user': 'me', 'password': 's3cr3t-Pw', 'port': '8443'},
        {'scheme': 'https', 'host': 'example.com', 'rest': '/a/b.git'},
        {'scheme': 'https', 'host': 'example.com', 'rest': '/a/b.git', 'port': '8443'},
        {'scheme': 'ssh', 'host': 'git.example.com', 'rest': '/r.git', 'user': 'git'},
        {'scheme': 'https', 'host': 'Example.COM', 'rest': '/r', 'user': 'u', 'password': 'TopSecret9'},
        {'scheme': 'https', 'host': 'h', 'rest': '', 'user': '', 'password': 'TopSecret9'},
        {'scheme': 'https', 'host': 'h', 'rest': '/x', 'user': 'u', 'password': ''},
    ]
    for _ in range(n):
        c = {'scheme': rng.choice(['https', 'http', 'ssh', 'git']),
             'host': rng.choice(['example.com', 'git.example.org', 'localhost', 'Host.Example', '10.0.0.7']),
             'rest': rng.choice(['', '/', '/a/b.git', '/u/r?x=1', '/p#frag'])}
        if rng.random() < 0.7:
            c['user'] = rng.choice(['me', 'git', 'a.b', 'user-1', ''])
            if rng.random() < 0.7:
                c['password'] = rng.choice(['s3cr3t-Pw', 'TopSecret9', 'p%40ss', 'xYz.123', ''])
        if rng.random() < 0.4:
            c['port'] = str(rng.choice([22, 80, 443, 8080, 65535]))
        cases.append(c)
    ops = [dict(c, op='c06.url') for c in cases]
    answers = ck.model(ops)
    saved = (env._exec, env._source)
    try:
        for c, ans in zip(cases, answers):
            url = ans['url']  # rendered by the model from the components; re-derived independently below
            auth = ''
            if 'user' in c:
                auth = c['user'] + (':' + c['password'] if 'password' in c else '') + '@'
            indep = c['scheme'] + '://' + auth + c['host'] + (':' + c['port'] if 'port' in c else '') + c['rest']
            if url != indep:
                raise lib.InfraError('URL rendering of model and harness differ: %r %r' % (url, indep))

            def fake_exec(cmd, url=url):
                if 'rev-parse' in cmd:
                    return 'abc123'
                if 'ls-remote' in cmd:
                    return url
                if 'show' in cmd:
                    return '\x00'.join(['HEAD -> main', 'msg', 'A', 'C', 'a@x', 'c@x'])
                return None
            env._exec = fake_exec
            env._source = None
            try:
                recorded = env.determine_source_details(None)['repoURL']
                status = 'ok'
            except Exception as e:  # noqa
                recorded, status = None, 'crash:' + type(e).__name__
            kind = ('pw' if c.get('password') else 'emptypw' if 'password' in c else 'user' if 'user' in c else 'plain') \
                + ('+port' if 'port' in c else '')
            ck.count('url:' + kind)
            ck.case(nontrivial_key=('url', url) if c.get('password') else None,
                    sample={'url': url, 'recorded': recorded} if c.get('password') and 'port' in c else None)
            if status != 'ok' or recorded != ans['recorded']:
                ck.disagree('c06.url: determine_source_details vs stripPassword', {'url': url, 'parts': c},
                            {'recorded': recorded, 'status': status}, ans, ['RB.DataFile.c06_password_removed'])
            # oracle: no password in what is recorded; unchanged when there was none
            if status != 'ok':
                ck.oracle_fail('password_removed', {'url': url, 'parts': c}, {'status': status},
                               {'kind': 'exception'})
            elif c.get('password'):
                if c['password'] in recorded:
                    ck.oracle_fail('password_removed', {'url': url, 'parts': c}, {'recorded': recorded},
                                   {'kind': 'password-kept'})
            elif recorded != url:
                ck.oracle_fail('password_removed', {'url': url, 'parts': c}, {'recorded': recorded},
                               {'kind': 'changed-without-password'})
    finally:
        env._exec, env._source = saved
        drive._env_ready = False


def load_corpus(ck):
    d = os.path.join(lib.VERIF, 'harness', 'corpus', ck.pid)
    out = []
    if os.path.isdir(d):
        for f in sorted(os.listdir(d)):
            if f.endswith('.json'):
                out.append((f, json.load(open(os.path.join(d, f)))))
    return out


def run(ck):
    quick = ck.tier == 'quick'
    ck.rule = ('histories of 1-3 sessions over generated configurations (1-3 experiments on 1-3 data files: '
               'default / shared / separate / mixed; runs contained in several experiments; 0-3 extra criteria; 1-5 '
               'data points per invocation; warm-up 0-3; builds; failing invocations; batch / round-robin / random '
               'scheduler; some first sessions interrupted); non-trivial = a history with at least one process '
               'start, distinct by configuration+history; plus repository URLs with/without user, password, port')
    ck.assumptions = ['JSON of metadata records is compared through json.loads (CPython json is trusted)',
                      'the fake harness prints what the RebenchLog adapter documents; adapters are C05/C12']
    n = 150 if quick else 3000
    items = []
    for name, data in load_corpus(ck):
        scen = data['input']
        r = run_scenario(ck, scen, 'corpus-' + name.replace('.json', ''))
        if r:
            items.append((scen,) + r)
            ck.count('corpus')
    for i in range(n):
        profile = ck.rng.random() < 0.12
        scen = gen_scenario(ck.rng, quick, {'profile': profile})
        r = run_scenario(ck, scen, 's%d' % i)
        if r:
            items.append((scen,) + r)
        if len(items) >= 50:
            compare_and_judge(ck, items)
            items = []
    if items:
        compare_and_judge(ck, items)
    check_urls(ck, 150 if quick else 3000)


def replay(ck, data):
    inp = data['input']
    if 'url' in inp:
        ck.notes.append('URL replays are covered by the fixed URL table of every run')
        check_urls(ck, 0)
        return
    scen = {k: inp[k] for k in ('cfg', 'specs', 'seed', 'argv', 'outputs', 'build_ok') if k in inp}
    if scen.get('outputs'):
        scen['outputs'] = [[None if o is None else [[tuple(m) for m in d] for d in o] for o in per]
                           for per in scen['outputs']]
    r = run_scenario(ck, scen, 'replay')
    if r:
        compare_and_judge(ck, [(scen,) + r])
