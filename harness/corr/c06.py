"""C06 — every parsed data point is recorded exactly once, in the right file, attributed.

Correspondence: histories of 1-3 real sessions (real Configurator, Executor,
schedulers, RebenchLog adapter, `_FilePersistence`; scripted processes) against
`RB.Session.sessions` / `RB.DataFile.persist`: process starts, and the lines
appended to every data file, line by line.  Password removal:
`determine_source_details` with a stubbed `git` against `RB.DataFile.stripPassword`.
Oracle: the clauses of the property evaluated on the files with an independent
reader and independent six-decimal rounding (`decimal`, ROUND_HALF_EVEN).
"""
import json
import os
from decimal import Decimal, ROUND_HALF_EVEN

import lib
import drive
import drive_persist as dp

THEOREMS_FILE = ['RB.DataFile.c06_append_only', 'RB.DataFile.c06_appended_exactly',
                 'RB.DataFile.c06_metadata_precedes', 'RB.DataFile.c06_header_once']


def fmt6_independent(v):
    return str(Decimal(v).quantize(Decimal('0.000001'), rounding=ROUND_HALF_EVEN))


def value_text(v):
    """a float is written with six decimals, anything else (an int of the Multivariate adapter) as it is"""
    return fmt6_independent(v) if isinstance(v, float) else '%s' % (v,)


def effective(cfg, suite, bench, key, default):
    val = cfg.get('runs', {}).get(key, default)
    su = cfg['benchmark_suites'][suite]
    if key in su:
        val = su[key]
    for b in su['benchmarks']:
        if isinstance(b, dict) and bench in b and key in b[bench]:
            val = b[bench][key]
    return val


def gen_scenario(rng, quick, opts=None):
    cfg = dp.gen_config(rng, opts)
    aged = rng.random() < 0.2
    if aged:
        # data files of different age: several files, the first session is interrupted early, so that a
        # later session appends to files that exist and creates the others
        for _ in range(40):
            if len(set(dp.exp_file(cfg, x) for x in cfg['experiments'])) >= 2:
                break
            cfg = dp.gen_config(rng, opts)
    n_sessions = rng.randint(2, 3) if aged else rng.randint(1, 3)
    specs = []
    for _ in range(n_sessions):
        sched = rng.choice(['batch', 'round-robin', 'random'])
        specs.append({'sched': sched, 'choices': [rng.randint(0, 50) for _ in range(80)] if sched == 'random' else [],
                      'stop': None})
    if aged:
        specs[0]['stop'] = rng.randint(1, 3)
        if n_sessions == 3 and rng.random() < 0.5:
            specs[1]['stop'] = rng.randint(1, 3)
    elif rng.random() < 0.25:
        specs[0]['stop'] = rng.randint(1, 6)
    for sp in specs[1:]:          # a later session started with -c: discard what the earlier ones recorded
        if rng.random() < 0.2:
            sp['clean'] = True
    if rng.random() < 0.05:
        specs[0]['clean'] = True
    return {'cfg': cfg, 'specs': specs, 'seed': rng.randint(0, 10 ** 9), 'argv': ['-f'] if rng.random() < 0.15 else []}


def run_scenario(ck, scen, tag):
    """drive the real sessions, ask the model, compare, evaluate the oracle"""
    import random
    wd = os.path.join(ck.scratch, tag)
    os.makedirs(wd)
    drive.write_config(wd, scen['cfg'])
    try:
        probe = dp.Probe(wd, scen['cfg'], scen.get('argv', []))
    except ValueError:
        ck.count('scenario:rejected')
        return None
    rng = random.Random(scen['seed'])
    given = bool(scen.get('outputs'))
    outputs = scen.get('outputs') or dp.gen_outputs(rng, probe)
    if scen.get('dead_files') is not None and not given:
        # no invocation of the runs recorded in these files ever succeeds: the files are never created,
        # while the other files of the same sessions fill up
        for ri, r in enumerate(probe.runs):
            if set(r['files']) <= set(scen['dead_files']):
                outputs[ri] = [None] * len(outputs[ri])
    build_ok = scen.get('build_ok')
    if build_ok is None:
        build_ok = [rng.random() < 0.85 for _ in probe.builds]
    if scen.get('hostile') and not scen.get('hostile_applied'):
        # criteria that RebenchLog's [^:]{1,30} admits and that contain a TSV separator
        for ri, per in enumerate(outputs):
            if probe.runs[ri].get('adapter') != 'RebenchLog':
                continue      # only RebenchLog's criterion pattern admits such characters
            for o in per:
                if o is None:
                    continue
                for ms in o:
                    if rng.random() < 0.5:
                        ms.insert(0, (rng.choice(scen['hostile']), rng.choice(dp.UNITS), dp.gen_value(rng)))
        scen['hostile_applied'] = True
    scen['outputs'], scen['build_ok'] = outputs, build_ok
    raw = scen.get('raw')
    if raw is None:
        raw = dp.build_raw(rng, probe, outputs)
    scen['raw'] = raw
    faulty = '-f' in scen.get('argv', []) or '--faulty' in scen.get('argv', [])
    probe.raw, probe.faulty = raw, faulty
    ck.count('session-option:--faulty' if faulty else 'session-option:plain')
    for i, per in enumerate(raw):
        for o in per:
            if o['rc'] != 0 and o['dps']:
                ck.count('outcome:exit%s-after-results,%s' % ('-9' if o['rc'] == -9 else '!=0', 'ignore_timeouts'
                                                              if probe.runs[i]['ignore_timeouts'] else 'plain'))
    # what the property calls the data of a successful invocation (independent of the model's classification)
    outputs = dp.effective_outputs(probe, raw, faulty)
    observed = []
    prev = [''] * len(probe.files)
    for spec in scen['specs']:
        script = dp.make_script(probe, outputs, build_ok, stop=spec.get('stop'), raw=raw)
        ob = dp.run_real_session(wd, probe, ['-s', spec['sched']] + (['-c'] if spec.get('clean') else [])
                                 + list(scen.get('argv', [])), script,
                                 random_choice=dp.choice_fn(spec['choices']) if spec['sched'] == 'random' else None)
        # -c / --clean: the session starts from truncated files, whatever earlier sessions recorded
        ob.before = [''] * len(probe.files) if spec.get('clean') else prev
        ob.clean = bool(spec.get('clean'))
        prev = ob.files
        observed.append(ob)
        ck.impl_traces += 1
    return probe, outputs, build_ok, observed


def compare_and_judge(ck, items):
    """items: list of (scen, probe, outputs, build_ok, observed)"""
    ops = []
    for (scen, probe, outputs, build_ok, observed) in items:
        specs = [{'sched': s['sched'], 'choices': s['choices'], 'stop': model_stop(s.get('stop'), ob),
                  'clean': bool(s.get('clean')), 'order': [i for i in (ob.order or []) if i is not None]}
                 for s, ob in zip(scen['specs'], observed)]
        ops.append(dp.scenario_op('c06.sessions', probe, outputs, build_ok, specs))
    answers = ck.model(ops)
    for (scen, probe, outputs, build_ok, observed), ans in zip(items, answers):
        inp = {'cfg': scen['cfg'], 'specs': scen['specs'], 'seed': scen['seed'], 'argv': scen.get('argv', []),
               'outputs': scen['outputs'], 'raw': scen['raw'], 'build_ok': build_ok}
        judge(ck, inp, probe, outputs, build_ok, observed, ans)


def model_stop(k, ob):
    """the model does not count the `perf report` process of a profiling invocation as a start of its
    own: translate the stop point (only matters for profile runs)"""
    if k is None or ob.status != 'aborted':
        return k
    return k - sum(1 for s in ob.starts[:k] if s[0] == 'report')


def judge(ck, inp, probe, outputs, build_ok, observed, ans):
    n_files = len(probe.files)
    multi = sum(1 for r in probe.runs if len(r['files']) > 1)
    ck.count('files:%d' % n_files)
    ck.count('sessions:%d' % len(observed))
    if any(getattr(ob, 'clean', False) for ob in observed[1:]):
        ck.count('history-with--c-after-recording')
    ck.count('runs-in-2+-files' if multi else 'runs-in-1-file')
    ck.count('builds:%d' % len(probe.builds))
    most = max([len(o) for per in outputs for o in per if o] or [0])
    ck.count('data-points-per-invocation:%s' % ('>20' if most > 20 else '=20' if most == 20 else '<20'))
    if any(r['profile'] for r in probe.runs):
        ck.count('has-profile-runs')
    ck.case(nontrivial_key=json.dumps([inp['cfg'], inp['specs'], inp['seed']], sort_keys=True, default=str)
            if sum(len(ob.starts) for ob in observed) > 0 else None,
            sample={'files': probe.files, 'runs': len(probe.runs), 'sessions': [s['sched'] for s in inp['specs']],
                    'starts': [len(ob.starts) for ob in observed]})
    if 'err' in ans:
        raise lib.InfraError('model rejected the scenario: %s' % ans)
    profile_files = set()
    for r in probe.runs:
        if r['profile']:
            profile_files.update(r['files'])
    for si, (ob, ms) in enumerate(zip(observed, ans['sessions'])):
        # ---- correspondence
        impl_end = {'ok': 'complete', 'failed': 'complete', 'aborted': 'interrupted'}.get(ob.status, ob.status)
        impl_trace = [s for s in ob.starts if s[0] != 'report']
        impl_files = []
        for fi in range(n_files):
            kept = ob.files[fi].startswith(ob.before[fi])
            lines, _meta = dp.canon_lines(ob.files[fi][len(ob.before[fi]):] if kept else ob.files[fi], probe,
                                          profile_file=fi in profile_files)
            impl_files.append({'prefix_kept': kept, 'appended': lines})
        impl = {'end': impl_end, 'trace': impl_trace, 'files': impl_files}
        model = {'end': ms['end'], 'trace': ms['trace'], 'files': [{'prefix_kept': f['prefix_kept'], 'appended': f['appended']} for f in ms['files']]}
        ck.count('end:' + impl_end)
        if impl != model:
            what = [k for k in impl if impl[k] != model[k]]
            ck.disagree('c06.sessions: session %d differs in %s' % (si, what), dict(inp, session=si),
                        {k: impl[k] for k in what} | {'status': ob.status, 'crash': ob.crash,
                                                       'stderr': ob.stderr[-400:]},
                        {k: model[k] for k in what}, THEOREMS_FILE)
        # ---- oracle, on the implementation's files only
        oracle(ck, dict(inp, session=si), probe, outputs, ob, profile_files)


def one_line(text):
    """a cell of the data file: a tab / line feed / carriage return in a unit or criterion is a space in the
    Measurement the session holds, reports and writes"""
    return text.replace('\t', ' ').replace('\r', ' ').replace('\n', ' ')


def expected_meas(probe, outputs, ob, fi):
    """the measurement lines the property demands for file fi in this session"""
    exp = []
    starts = [s for s in ob.starts if s[0] != 'report']
    last = len(starts) - 1
    for n, s in enumerate(starts):
        if s[0] != 'r':
            continue
        if ob.status == 'aborted' and n == last:
            continue  # the interrupted invocation delivered nothing
        run = probe.runs[s[1]]
        if fi not in run['files']:
            continue
        o = outputs[s[1]][s[2] - 1] if s[2] - 1 < len(outputs[s[1]]) else None
        if o is None:
            continue
        for j, ms in enumerate(o):
            for (crit, unit, v) in dp.written_order(ms):
                if run['profile']:
                    exp.append([str(s[2]), '1', '0.000000', '', 'total'] + run['cols'])
                else:
                    exp.append([str(s[2]), str(j + 1), value_text(v), one_line(unit), one_line(crit)] + run['cols'])
    # in the shape a reader sees: split at tabs (a configured text may itself contain one)
    return ['\t'.join(e).split('\t') for e in exp]


def flush_oracle(ck, inp, probe, outputs, ob, profile_files):
    """"persist + flush per data point": while the n-th process of the session runs, every data point
    delivered by the processes before it is on disk, in whole lines"""
    disk = getattr(ob, 'disk_at_start', None)
    if not disk or len(disk) != len(ob.starts):
        return
    for fi, fname in enumerate(probe.files):
        if fi in profile_files:
            continue
        base = len(dp_rows(ob.before[fi], False))
        expected = base
        for n, s in enumerate(ob.starts):
            text = disk[n][fi]
            rows = dp_rows(text, False)
            torn = text != '' and not text.endswith('\n')
            if torn or len(rows) != expected or not ob.files[fi].startswith(text):
                ck.oracle_fail('flushed_before_next_start', inp,
                               {'file': fname, 'start_number': n + 1, 'rows_on_disk': len(rows),
                                'rows_persisted': expected, 'ends_in_whole_line': not torn},
                               {'kind': 'torn-line' if torn else 'behind' if len(rows) < expected else 'rows-nobody-should-have-recorded' if len(rows) > expected else 'other'})
                return
            if s[0] == 'r' and fi in probe.runs[s[1]]['files'] and not probe.runs[s[1]]['profile']:
                o = outputs[s[1]][s[2] - 1] if s[2] - 1 < len(outputs[s[1]]) else None
                if o is not None:
                    expected += sum(len(ms) for ms in o)


def start_times(text):
    return [l[len('# Execution Start: '):] for l in text.split('\n') if l.startswith('# Execution Start: ')]


def oracle(ck, inp, probe, outputs, ob, profile_files):
    flush_oracle(ck, inp, probe, outputs, ob, profile_files)
    cfg = inp['cfg']
    for fi, fname in enumerate(probe.files):
        before, after = ob.before[fi], ob.files[fi]
        sig = {'file_kind': 'profile' if fi in profile_files else 'benchmark'}
        # bytes written by earlier sessions are never altered
        if not after.startswith(before):
            ck.oracle_fail('append_only', inp, {'file': fname, 'before': before[-300:], 'after': after[:300]}, sig)
            continue
        new = after[len(before):]
        rows_new = dp_rows(new, fi in profile_files)
        exp = expected_meas(probe, outputs, ob, fi)
        got = [r[:-1] for r in rows_new]
        if got != exp:
            missing = [e for e in exp if e not in got]
            extra = [g for g in got if g not in exp]
            kind = 'missing' if missing and not extra else 'extra' if extra and not missing else \
                'order-or-count' if not missing and not extra else 'different'
            ck.oracle_fail('appended_exactly', inp, {'file': fname, 'kind': kind, 'missing': missing[:4],
                                                     'extra': extra[:4], 'expected_n': len(exp), 'got_n': len(got)},
                           dict(sig, kind=kind))
        # the column header appears once per file
        d = drive.read_data_file(os.devnull)
        headers = sum(1 for l in after.split('\n') if l == dp.HEADER)
        if after and headers != 1:
            ck.oracle_fail('header_once', inp, {'file': fname, 'headers': headers}, sig)
        # each recording session first appends a metadata block
        if new:
            first = new.split('\n')[:4]
            ok = (len(first) == 4 and first[0].startswith('#!') and first[1].startswith('# Execution Start: ')
                  and first[2].startswith('# Environment: ') and first[3].startswith('# Source: '))
            if ok:
                try:
                    json.loads(first[2][len('# Environment: '):])
                    src = json.loads(first[3][len('# Source: '):])
                    ok = 'repoURL' in src
                except ValueError:
                    ok = False
            if not ok:
                ck.oracle_fail('session_block_first', inp, {'file': fname, 'first': first}, sig)
            if sum(1 for l in new.split('\n') if l.startswith('#!')) != 1:
                ck.oracle_fail('session_block_once', inp, {'file': fname}, sig)
        # the start time in a session block is the data file's: the one of the file's first block for a file
        # that existed, the time of this session for a file that this session created
        st_before = start_times(before)
        st_new = start_times(new)
        if st_new and st_before and any(t != st_before[0] for t in st_new):
            ck.oracle_fail('start_time_is_the_files', inp,
                           {'file': fname, 'first_block': st_before[0], 'this_session': st_new,
                            'other_files': {probe.files[j]: start_times(ob.files[j])[:3]
                                            for j in range(len(probe.files)) if j != fi}},
                           dict(sig, file='existing'))
        elif st_new and not st_before and getattr(ob, 'launched_at', None) is not None:
            import datetime
            try:
                ts = [datetime.datetime.fromisoformat(t) for t in st_new]
                ok = all(ob.launched_at <= t <= ob.returned_at for t in ts)
            except ValueError:
                ok = False
            if not ok:
                ck.oracle_fail('start_time_is_the_files', inp,
                               {'file': fname, 'this_session': st_new,
                                'session_ran': [ob.launched_at.isoformat(), ob.returned_at.isoformat()],
                                'other_files': {probe.files[j]: start_times(ob.files[j])[:3]
                                                for j in range(len(probe.files)) if j != fi}},
                               dict(sig, file='created'))
        # a benchmark / run is described once per file: no metadata record repeats an earlier one
        seen_b, seen_r = {}, {}
        for line in after.split('\n'):
            for prefix, seen in (('# benchmark: ', seen_b), ('# run_id: ', seen_r)):
                if line.startswith(prefix):
                    i, js = line[len(prefix):].split('=', 1)
                    d = json.loads(js)
                    d.pop('benchmark_id', None)
                    key = json.dumps(d, sort_keys=True)
                    if key in seen:
                        ck.oracle_fail('metadata_not_repeated', inp,
                                       {'file': fname, 'record': prefix.strip('# :'), 'ids': [seen[key], int(i)],
                                        'content': key[:200]}, dict(sig, record=prefix.strip('# :')))
                    seen.setdefault(key, int(i))
        # a measurement line is preceded by its run's and benchmark's metadata record, which
        # describe command line, variables and effective settings
        runs_seen, bench_seen = {}, {}
        for line in after.split('\n'):
            if line.startswith('# benchmark: '):
                i, js = line[len('# benchmark: '):].split('=', 1)
                bench_seen[int(i)] = json.loads(js)
            elif line.startswith('# run_id: '):
                i, js = line[len('# run_id: '):].split('=', 1)
                runs_seen[int(i)] = json.loads(js)
            elif line and not line.startswith('#') and line != dp.HEADER:
                cols = line.split('\t')
                if fi in profile_files:
                    rid = int(cols[-2])
                    ks = probe.by_joined.get('\t'.join(cols[2:-2]), [])
                else:
                    rid = int(cols[-1])
                    ks = probe.by_joined.get('\t'.join(cols[5:-1]), [])
                runcols = probe.runs[ks[0]]['cols'] if len(ks) == 1 else []
                problem = None
                if rid not in runs_seen:
                    problem = 'no-run-record-before'
                elif len(ks) != 1:
                    problem = 'columns-name-no-run'
                else:
                    run = probe.runs[ks[0]]
                    rd = runs_seen[rid]
                    bd = bench_seen.get(rd.get('benchmark_id'))
                    if rd.get('cmdline') != run['cmd']:
                        problem = 'cmdline'
                    elif bd is None:
                        problem = 'no-benchmark-record-before'
                    else:
                        # effective settings as the configuration compiler resolved them (priorities and '!' are C02)
                        want_inv, want_wu = run['rd_invocations'], run['rd_warmup']
                        if bd['name'] != run['bench_name'] or bd['runDetails'].get('invocations') != want_inv \
                                or bd['runDetails'].get('warmup') != want_wu:
                            problem = 'effective-settings'
                        elif bd['variables'] != run['variables']:
                            problem = 'variables'
                        else:
                            # the run record describes the run of the line: its variables are the line's columns
                            for key, ci in (('cores', 4), ('inputSize', 5), ('varValue', 6), ('tag', 7),
                                            ('machine', 8)):
                                col = '' if rd.get(key) is None else one_line(str(rd[key]))   # as a cell
                                if col != runcols[ci]:
                                    problem = 'run-variables:%s' % key
                if problem:
                    ck.oracle_fail('metadata_precedes', inp, {'file': fname, 'line': line[:120], 'problem': problem},
                                   dict(sig, problem=problem))
                    break


def dp_rows(text, profile):
    rows = []
    for line in text.split('\n'):
        if line == '' or line.startswith('#') or line == dp.HEADER:
            continue
        cols = line.split('\t')
        if profile:
            rows.append([cols[0], '1', '0.000000' if cols[-1] == dp.PERF_JSON else cols[-1], '', 'total'] + cols[2:-1])
        else:
            rows.append(cols)
    return rows


# ---------------------------------------------------------------- password removal
def check_urls(ck, n):
    from rebench import environment as env
    from urllib.parse import urlparse  # noqa: F401  (only the implementation uses it)
    rng = ck.rng
    cases = [
        {'scheme': 'https', 'host': 'example.com', 'rest': '/a/b.git', 'user': 'me', 'password': 's3cr3t-Pw'},
        {'scheme': 'https', 'host': 'example.com', 'rest': '/a/b.git', 'user': 'me', 'password': 's3cr3t-Pw', 'port': '8443'},
        {'scheme': 'https', 'host': 'example.com', 'rest': '/a/b.git'},
        {'scheme': 'https', 'host': 'example.com', 'rest': '/a/b.git', 'port': '8443'},
        {'scheme': 'ssh', 'host': 'git.example.com', 'rest': '/r.git', 'user': 'git'},
        {'scheme': 'https', 'host': 'Example.COM', 'rest': '/r', 'user': 'u', 'password': 'TopSecret9'},
        {'scheme': 'https', 'host': 'h', 'rest': '', 'user': '', 'password': 'TopSecret9'},
        {'scheme': 'https', 'host': 'h', 'rest': '/x', 'user': 'u', 'password': ''},
    ]
    cases += [
        # passwords with characters that delimit parts of a URL: userinfo ends at the LAST '@',
        # the user name at the FIRST ':' (urlparse and git agree)
        {'scheme': 'https', 'host': 'git.example.org', 'rest': '/t/p.git', 'user': 'builder', 'password': 'Zk3cr3t@Hunter2Qx', 'port': '8443'},
        {'scheme': 'https', 'host': 'git.example.org', 'rest': '/t/p.git', 'user': 'builder', 'password': 'Zk3cr3t@Hunter2Qx'},
        {'scheme': 'https', 'host': 'git.example.org', 'rest': '/t/p.git', 'user': 'builder', 'password': 'Zk3cr3t:Hunter2Qx@Wv9'},
        {'scheme': 'https', 'host': 'git.example.org', 'rest': '/t/p.git', 'user': 'who@corp', 'password': 'Zk3cr3t'},
        {'scheme': 'https', 'host': 'git.example.org', 'rest': '/t/p.git', 'user': 'builder', 'password': 'Zk3%40cr3t%2Fx'},
        {'scheme': 'ssh', 'host': '[2001:db8::1]', 'rest': '/r.git', 'user': 'git', 'password': 'Zk3cr3t', 'port': '2222'},
        {'scheme': 'ssh', 'host': '[2001:DB8::1]', 'rest': '/r.git', 'user': 'git'},
        {'scheme': 'https', 'host': '[::1]', 'rest': '/r.git', 'port': '8080'},
        {'scheme': 'https', 'host': 'h', 'rest': '/x', 'user': 'u', 'password': '', 'port': '81'},
        {'scheme': 'https', 'host': 'h', 'rest': '/x', 'user': 'u', 'port': '81'},
    ]
    tokens = ['Zk3cr3t', 'Hunter2Qx', 'Wv9pL', 'Tq7Secret', 'xYz-123']
    for _ in range(n):
        c = {'scheme': rng.choice(['https', 'http', 'ssh', 'git']),
             'host': rng.choice(['example.com', 'git.example.org', 'localhost', 'Host.Example', '10.0.0.7',
                                 '[2001:db8::7]', '[::1]']),
             'rest': rng.choice(['', '/', '/a/b.git', '/u/r?x=1', '/p#frag', '/with@at/r.git'])}
        if rng.random() < 0.75:
            c['user'] = rng.choice(['me', 'git', 'a.b', 'user-1', '', 'who@corp'])
            if rng.random() < 0.75:
                k = rng.random()
                if k < 0.1:
                    c['password'] = ''
                else:
                    parts = rng.sample(tokens, rng.randint(1, 3))
                    seps = [rng.choice(['@', ':', '%40', '%2F', '.', '@@', ':@']) for _ in parts[1:]]
                    pw = parts[0]
                    for sp, pt in zip(seps, parts[1:]):
                        pw += sp + pt
                    if rng.random() < 0.1:
                        pw = rng.choice(['@', ':']) + pw
                    if rng.random() < 0.1:
                        pw += rng.choice(['@', ':'])
                    c['password'] = pw
        if rng.random() < 0.45:
            c['port'] = str(rng.choice([22, 80, 443, 8080, 65535]))
        cases.append(c)
    ops = [dict(c, op='c06.url') for c in cases]
    answers = ck.model(ops)
    saved = (env._exec, env._source)
    try:
        for c, ans in zip(cases, answers):
            url = ans['url']  # rendered by the model from the components; re-derived independently below
            auth = ''
            if 'user' in c:
                auth = c['user'] + (':' + c['password'] if 'password' in c else '') + '@'
            indep = c['scheme'] + '://' + auth + c['host'] + (':' + c['port'] if 'port' in c else '') + c['rest']
            if url != indep:
                raise lib.InfraError('URL rendering of model and harness differ: %r %r' % (url, indep))

            def fake_exec(cmd, url=url):
                if 'rev-parse' in cmd:
                    return 'abc123'
                if 'ls-remote' in cmd:
                    return url
                if 'show' in cmd:
                    return '\x00'.join(['HEAD -> main', 'msg', 'A', 'C', 'a@x', 'c@x'])
                return None
            env._exec = fake_exec
            env._source = None
            try:
                recorded = env.determine_source_details(None)['repoURL']
                status = 'ok'
            except Exception as e:  # noqa
                recorded, status = None, 'crash:' + type(e).__name__
            if c.get('password') and any(ch in c['password'] for ch in '@:'):
                ck.count('url:pw-with-delimiter')
            if c['host'].startswith('['):
                ck.count('url:ipv6')
            kind = ('pw' if c.get('password') else 'emptypw' if 'password' in c else 'user' if 'user' in c else 'plain') \
                + ('+port' if 'port' in c else '')
            ck.count('url:' + kind)
            ck.case(nontrivial_key=('url', url) if c.get('password') else None,
                    sample={'url': url, 'recorded': recorded} if c.get('password') and 'port' in c else None)
            if status != 'ok' or recorded != ans['recorded']:
                ck.disagree('c06.url: determine_source_details vs stripPassword', {'url': url, 'parts': c},
                            {'recorded': recorded, 'status': status}, ans, ['RB.DataFile.c06_password_removed'])
            # oracle: no password in what is recorded; unchanged when there was none
            if status != 'ok':
                ck.oracle_fail('password_removed', {'url': url, 'parts': c}, {'status': status},
                               {'kind': 'exception'})
            elif c.get('password'):
                import re as _re
                frags = [f for f in _re.split(r'[@:]|%40|%2F', c['password']) if len(f) >= 3]
                leaked = [f for f in frags if f in recorded]
                if c['password'] in recorded or leaked:
                    ck.oracle_fail('password_removed', {'url': url, 'parts': c},
                                   {'recorded': recorded, 'leaked_fragments': leaked},
                                   {'kind': 'password-kept' if c['password'] in recorded else 'password-partly-kept'})
            elif recorded != url:
                ck.oracle_fail('password_removed', {'url': url, 'parts': c}, {'recorded': recorded},
                               {'kind': 'changed-without-password'})
    finally:
        env._exec, env._source = saved
        drive._env_ready = False


# ---------------------------------------------------------------- parallel scheduler
def parallel_slice(ck, n):
    """>= 2 non-exclusive runs sharing a data file under the ParallelScheduler (cpu_count 5 -> 2 worker
    threads, 8 -> 3).  The interleaving at the lazy file open is forced: `open` inside
    rebench.persistence is shadowed so that a thread that has just opened a data file for appending
    waits (bounded) for a second appender of the same file.  With `persist_data_point` holding its lock
    around the lazy open no second appender can arrive (the wait times out); if the open escapes the lock,
    two threads write the session block (and, on a new file, the header) twice.
    Oracle: header once per file, exactly one session block per recording session per file, the
    measurement rows appended equal (as a multiset; per run in order) those of the delivered invocations."""
    import threading
    import collections
    from rebench import persistence as pers_mod
    rng = ck.rng
    for idx in range(n):
        n_bench = rng.randint(2, 4)
        n_inv = rng.randint(1, 2)
        shared = rng.random() < 0.7
        exps = {'X0': {'suites': ['S0'], 'executions': ['E0']}}
        if not shared:
            exps['X1'] = {'suites': ['S0'], 'executions': ['E0'], 'data_file': 'second.data'}
        cfg = {'default_experiment': 'all', 'default_data_file': 'par.data', 'runs': {'invocations': n_inv},
               'benchmark_suites': {'S0': {'gauge_adapter': 'RebenchLog',
                                           'command': '%(benchmark)s c%(cores)s i%(input)s v%(variable)s t%(tag)s w%(warmup)s n%(invocation)s',
                                           'benchmarks': ['P%d' % b for b in range(n_bench)]}},
               'executors': {'E0': {'path': '.', 'executable': 'exe0', 'execute_exclusively': False}},
               'experiments': exps}
        wd = os.path.join(ck.scratch, 'par%d' % idx)
        os.makedirs(wd)
        drive.write_config(wd, cfg)
        probe = dp.Probe(wd, cfg, [])
        import random as _random
        outputs = dp.gen_outputs(_random.Random(rng.randint(0, 10 ** 9)), probe, fail_rate=0.0)
        cpu = rng.choice([5, 8])
        real_open = open
        state = {'lock': threading.Lock(), 'appenders': collections.Counter(), 'events': {}, 'timeouts': 0}

        def hooked_open(file, mode='r', *a, **kw):
            f = real_open(file, mode, *a, **kw)
            if mode.startswith('a'):
                key = os.path.abspath(file)
                with state['lock']:
                    state['appenders'][key] += 1
                    ev = state['events'].setdefault(key, threading.Event())
                    if state['appenders'][key] >= 2:
                        ev.set()
                if not ev.wait(0.25):
                    state['timeouts'] += 1
            return f
        prev = [''] * len(probe.files)
        sessions = []
        pers_mod.open = hooked_open
        try:
            for si in range(2):
                state['appenders'].clear()
                state['events'].clear()
                script = dp.make_script(probe, outputs, [])
                conf = os.path.join(wd, 'test.conf')
                res = drive.run_session(wd, [conf], script, cpu_count=cpu)
                dp.release_hanging()
                files = [dp.read_text(os.path.join(wd, f)) for f in probe.files]
                sessions.append((res, prev, files))
                prev = files
                ck.impl_traces += 1
        finally:
            del pers_mod.open
        inp = {'parallel': True, 'cfg': cfg, 'cpu_count': cpu, 'outputs': outputs}
        ck.count('parallel:threads=%d' % int(cpu / 2.5))
        ck.count('parallel:%s' % ('one-file' if shared else 'two-files'))
        ck.case(nontrivial_key=('par', idx, n_bench, n_inv, cpu), sample={'runs': n_bench, 'invocations': n_inv,
                                                                           'cpu_count': cpu, 'files': probe.files})
        for si, (res, before, after) in enumerate(sessions):
            sinp = dict(inp, session=si)
            if res.status() not in ('ok', 'failed'):
                ck.oracle_fail('no_crash', sinp, {'status': res.status(), 'crash': res.crash}, {'scheduler': 'parallel'})
                continue
            starts = [dp.classify_start(probe, s) for s in res.starts]
            for fi, fname in enumerate(probe.files):
                sig = {'scheduler': 'parallel', 'file_kind': 'benchmark'}
                if not after[fi].startswith(before[fi]):
                    ck.oracle_fail('append_only', sinp, {'file': fname}, sig)
                    continue
                new = after[fi][len(before[fi]):]
                blocks = sum(1 for l in new.split('\n') if l.startswith('#!'))
                headers = sum(1 for l in after[fi].split('\n') if l == dp.HEADER)
                want_rows = []
                for s in starts:
                    if s[0] == 'r' and fi in probe.runs[s[1]]['files']:
                        for j, ms in enumerate(outputs[s[1]][s[2] - 1]):
                            for (crit, unit, v) in ms:
                                want_rows.append('\t'.join([str(s[2]), str(j + 1), fmt6_independent(v), unit, crit]
                                                           + probe.runs[s[1]]['cols']).split('\t'))
                got_rows = [r[:-1] for r in dp_rows(new, False)]
                if new and blocks != 1:
                    ck.oracle_fail('session_block_once', sinp, {'file': fname, 'blocks': blocks}, sig)
                if after[fi] and headers != 1:
                    ck.oracle_fail('header_once', sinp, {'file': fname, 'headers': headers}, sig)
                if sorted(got_rows) != sorted(want_rows):
                    ck.oracle_fail('appended_exactly', sinp, {'file': fname, 'got_n': len(got_rows),
                                                              'expected_n': len(want_rows)}, dict(sig, kind='multiset'))
                else:
                    for k in set(tuple(r[5:]) for r in got_rows):
                        if [r for r in got_rows if tuple(r[5:]) == k] != [r for r in want_rows if tuple(r[5:]) == k]:
                            ck.oracle_fail('appended_exactly', sinp, {'file': fname, 'run': list(k)},
                                           dict(sig, kind='per-run-order'))
                # model side: what a sequential history of whole persists (any order) appends, by kind
                lines, _m = dp.canon_lines(new, probe)
                kinds = collections.Counter(l[0] for l in lines)
                n_runs_here = len(set(s[1] for s in starts if s[0] == 'r' and fi in probe.runs[s[1]]['files']))
                model_kinds = {'S': 4 if got_rows else 0, 'H': 1 if (got_rows and not before[fi]) else 0,
                               'M': len(want_rows)}
                impl_kinds = {'S': kinds.get('S', 0), 'H': kinds.get('H', 0), 'M': kinds.get('M', 0)}
                if si == 0:
                    model_kinds['R'] = n_runs_here
                    impl_kinds['R'] = kinds.get('R', 0)
                if impl_kinds != model_kinds:
                    ck.disagree('c06.parallel: lines appended under the ParallelScheduler vs any sequential history '
                                'of whole persists', sinp, impl_kinds, model_kinds,
                                ['RB.DataFile.c06_locked_persists_are_a_session', 'RB.DataFile.c06_header_once'])



def load_corpus(ck):
    d = os.path.join(lib.VERIF, 'harness', 'corpus', ck.pid)
    out = []
    if os.path.isdir(d):
        for f in sorted(os.listdir(d)):
            if f.endswith('.json'):
                out.append((f, json.load(open(os.path.join(d, f)))))
    return out


def run(ck):
    try:  # translation tie broken -> directed search at the translated functions (RB.Proofs.GenC04b)
        from corr import gen_failure_class
        gen_failure_class.directed(ck)
    except ImportError:
        pass
    quick = ck.tier == 'quick'
    ck.rule = ('histories of 1-3 sessions over generated configurations (1-3 experiments on 1-3 data files: '
               'default / shared / separate / mixed; runs contained in several experiments; 0-3 extra criteria; 1-5 '
               'data points per invocation; warm-up 0-3; builds; failing invocations; batch / round-robin / random '
               'scheduler; some first sessions interrupted); non-trivial = a history with at least one process '
               'start, distinct by configuration+history; a fifth of the histories over data files of different age '
               '(several files, first session interrupted after 1-3 starts); plus repository URLs with/without user, '
               'password, port; plus sessions selecting one experiment by name, with and without -c, after a session '
               'over all experiments')
    ck.assumptions = ['JSON of metadata records is compared through json.loads (CPython json is trusted)',
                      'the fake harness prints what the RebenchLog adapter documents; adapters are C05/C12']
    n = 150 if quick else 3000
    items = []
    for name, data in load_corpus(ck):
        scen = data['input']
        r = run_scenario(ck, scen, 'corpus-' + name.replace('.json', ''))
        if r:
            items.append((scen,) + r)
            ck.count('corpus')
    for i in range(n):
        profile = ck.rng.random() < 0.12
        scen = gen_scenario(ck.rng, quick, {'profile': profile})
        r = run_scenario(ck, scen, 's%d' % i)
        if r:
            items.append((scen,) + r)
        if len(items) >= 50:
            compare_and_judge(ck, items)
            items = []
    if items:
        compare_and_judge(ck, items)
    check_urls(ck, 150 if quick else 3000)
    parallel_slice(ck, 8 if quick else 120)
    selection_slice(ck, 25 if quick else 400)


def gen_selection(rng):
    cfg = None
    for _ in range(80):
        c = dp.gen_config(rng, {'profile': False})
        if len(c['experiments']) >= 2 and len(set(dp.exp_file(c, x) for x in c['experiments'])) >= 2:
            cfg = c
            break
    if cfg is None:
        return None
    return {'selection': rng.choice(sorted(cfg['experiments'])), 'cfg': cfg, 'seed': rng.randint(0, 10 ** 9),
            'clean': rng.random() < 0.6, 'first_stop': rng.choice([None, None, rng.randint(2, 8)]),
            'scheds': [rng.choice(['batch', 'round-robin']) for _ in range(2)]}


def run_selection(ck, scen, tag):
    """Sessions that select ONE experiment by name (`rebench [-c] conf X1`) in a configuration whose experiments
    record into different files, after a session over all experiments.  The session is about the selected
    experiment only: the data files of the others keep their bytes (also with -c), nothing is appended to
    them, no run outside the selection is started; for the selected experiment's file the usual clauses hold."""
    import copy
    import random
    cfg, xname = scen['cfg'], scen['selection']
    wd = os.path.join(ck.scratch, tag)
    os.makedirs(wd)
    drive.write_config(wd, cfg)
    try:
        probe = dp.Probe(wd, cfg)
        sub = dp.Probe(wd, cfg, [xname])
    except ValueError:
        ck.count('scenario:rejected')
        return
    rng = random.Random(scen['seed'])
    sel_cmds = set(r['cmd'] for r in sub.runs)
    sel_file = probe.files.index(dp.exp_file(cfg, xname))
    view = copy.copy(probe)     # the run table as the selecting session sees it
    view.runs = [dict(r, files=[sel_file] if r['cmd'] in sel_cmds else []) for r in probe.runs]
    raw = dp.build_raw(rng, probe, dp.gen_outputs(rng, probe))
    probe.raw, probe.faulty = raw, False
    view.raw, view.faulty = raw, False
    outputs = dp.effective_outputs(probe, raw, False)
    build_ok = [True] * len(probe.builds)
    inp = dict(scen, selection_slice=True, files=probe.files, selected_file=probe.files[sel_file])
    ob1 = dp.run_real_session(wd, probe, ['-s', scen['scheds'][0]],
                              dp.make_script(probe, outputs, build_ok, stop=scen.get('first_stop'), raw=raw))
    ob1.before = [''] * len(probe.files)
    ck.impl_traces += 1
    oracle(ck, dict(inp, session=0), probe, outputs, ob1, set())
    ob2 = dp.run_real_session(wd, probe, ['-s', scen['scheds'][1]] + (['-c'] if scen['clean'] else []),
                              dp.make_script(probe, outputs, build_ok, raw=raw), selection=[xname])
    ck.impl_traces += 1
    ob2.before = ['' if (scen['clean'] and fi == sel_file) else ob1.files[fi] for fi in range(len(probe.files))]
    ck.count('selection:%s,%s' % ('clean' if scen['clean'] else 'plain',
                                  'others-have-data' if any(ob1.files[fi] for fi in range(len(probe.files))
                                                            if fi != sel_file) else 'others-empty'))
    ck.case(json.dumps(['selection', cfg, xname, scen['clean'], scen.get('first_stop')], sort_keys=True, default=str)
            if ob1.starts else None)
    sig = {'selection': 'one-experiment', 'clean': scen['clean']}
    if ob2.crash or ob2.status not in ('ok', 'failed'):
        ck.oracle_fail('selection_no_crash', dict(inp, session=1), {'status': ob2.status, 'crash': ob2.crash}, sig)
        return
    for fi, fname in enumerate(probe.files):
        if fi != sel_file and ob2.files[fi] != ob1.files[fi]:
            a, b = ob1.files[fi], ob2.files[fi]
            ck.oracle_fail('unselected_file_untouched', dict(inp, session=1),
                           {'file': fname, 'bytes_before': len(a), 'bytes_after': len(b),
                            'kind': 'emptied' if not b else 'appended' if b.startswith(a) else 'rewritten',
                            'tail_after': b[-200:]},
                           dict(sig, kind='emptied' if not b else 'appended' if b.startswith(a) else 'rewritten'))
    outside = [s for s in ob2.starts if s[0] == 'r' and probe.runs[s[1]]['cmd'] not in sel_cmds]
    if outside:
        ck.oracle_fail('selected_runs_only', dict(inp, session=1), {'started_outside_selection': outside[:5]}, sig)
    oracle(ck, dict(inp, session=1), view, outputs, ob2, set())


def selection_slice(ck, n):
    for k in range(n):
        scen = gen_selection(ck.rng)
        if scen:
            run_selection(ck, scen, 'sel%d' % k)


def replay(ck, data):
    inp = data['input']
    if inp.get('selection_slice'):
        run_selection(ck, {k: inp[k] for k in ('selection', 'cfg', 'seed', 'clean', 'first_stop', 'scheds')}, 'replay')
        return
    if inp.get('parallel'):
        ck.notes.append('parallel replays re-run the slice from the seed')
        parallel_slice(ck, 8)
        return
    if 'url' in inp:
        ck.notes.append('URL replays are covered by the fixed URL table of every run')
        check_urls(ck, 0)
        return
    scen = {k: inp[k] for k in ('cfg', 'specs', 'seed', 'argv', 'outputs', 'raw', 'build_ok') if k in inp}
    if scen.get('outputs'):
        scen['outputs'] = [[None if o is None else [[tuple(m) for m in d] for d in o] for o in per]
                           for per in scen['outputs']]
    r = run_scenario(ck, scen, 'replay')
    if r:
        compare_and_judge(ck, [(scen,) + r])
