"""C17 — ReBenchDB receives every data point exactly once despite transport failures.

Correspondence: the real `_ReBenchDB` (cache, 30 s clock, send/empty decision), the real
`_CompositePersistence`/`_FilePersistence` around it, the real `ReBenchDB` connector
(`_send_with_retries`, `_send_payload`, payload assembly) and the real v1/v2 conversions
against the Lean model `RB.DB` on scripted transport outcomes: every sequence of
{ok, connection refused, 5xx, 4xx} over up to 4 (quick) / 6 (thorough) transmission
points, both API versions, plus random mixed scripts, clock gaps around the 30 s
threshold, reloaded data, and bigger data shapes with sparse criteria.

Oracle (independent of the model): the property itself evaluated on the request
bodies the implementation produced, decoded by `drive_db.decode_body`.
"""
import itertools
import json
import os
from fractions import Fraction

import lib
import drive_db as D

THEOREMS_SESSION = ['RB.DB.c17_ack_at_most_once', 'RB.DB.c17_kept_on_failure', 'RB.DB.c17_final_ok_all_once']
THEOREMS_RETRY = ['RB.DB.c17_retry_bound', 'RB.DB.c17_retry_waits', 'RB.DB.c17_client_error_not_retried']
THEOREMS_ENC = ['RB.DB.c17_decode_encode_v1', 'RB.DB.c17_decode_encode_v2', 'RB.DB.c17_payload_carries_run']

CFG_REPO_URL = D.CFG_REPO_URL
POINT_SCRIPTS = {'ok': ['ok'], 'refused': ['refused'] * 5, '5xx': ['5xx'] * 5, '4xx': ['4xx'],
                 # the server takes the request and never answers completely (reset, time-out, broken pipe, …)
                 'dropped': None}
CRITERIA = [('mem', 'kb'), ('gc', 'ms'), ('compile', 'ms'), ('mem', 'MB'), ('alloc', 'bytes')]


# ------------------------------------------------------------------ generators
class DataGen(object):
    """data points in the shape the adapters produce: per run strictly increasing
    (invocation, iteration), criteria distinct within a data point, `total` last"""

    def __init__(self, rng, n_runs):
        self.rng = rng
        self.n_runs = n_runs
        self.pos = dict((r, [1, 0]) for r in range(n_runs))  # run -> [inv, last it]

    def dp(self, run=None, rich=False, exact8=False):
        rng = self.rng
        run = rng.randrange(self.n_runs) if run is None else run
        inv, it = self.pos[run]
        if it > 0 and rng.random() < 0.3:
            inv, it = inv + 1, 0
        it += 1
        if rng.random() < 0.08:
            it += 1                       # an iteration number skipped: null padding
        self.pos[run] = [inv, it]
        k = rng.choice([0, 0, 1, 2, 3]) if rich else rng.choice([0, 0, 0, 1, 2])
        crits = rng.sample(CRITERIA, k)
        direct = rng.random() < 0.1 and k > 0
        ms = []
        for (c, u) in crits:
            ms.append([c, u, self.val(exact8)])
        if not direct:
            ms.append(['total', 'ms', self.val(exact8)])
        return {'run': run, 'in': inv, 'it': it, 'ms': ms, 'direct': direct}

    def val(self, exact8):
        rng = self.rng
        if exact8:
            return rng.randint(1, 80000) / 8.0
        if rng.random() < 0.02:
            # a harness printed 1e999 or nan: the adapters hand on inf / -inf / nan
            return rng.choice([float('inf'), float('-inf'), float('nan')])
        return rng.choice([rng.uniform(0.001, 1e6), float(rng.randint(0, 10 ** 6)), rng.randint(1, 8000) / 8.0])


def point_script(rng, o):
    if o == 'dropped':
        return [rng.choice(D.DROPPED) for _ in range(5)]
    return list(POINT_SCRIPTS[o])


def gen_enumerated(rng, outcomes, v2):
    """one scenario for a sequence of per-point outcomes; the last point is `close`"""
    n_runs = rng.randint(1, 4)
    g = DataGen(rng, n_runs)
    steps = []
    for o in outcomes[:-1]:
        dps = [g.dp() for _ in range(rng.randint(1, 3))]
        steps.append({'dps': dps, 'by': dps[-1]['run'], 'gap': rng.choice([30, 31, 45, 600]),
                      'script': point_script(rng, o),
                      'statuses': {'ok': rng.choice([200, 200, 201, 202, 204]),
                                   'body': rng.choice(sorted(D.ERROR_BODIES)) if rng.random() < 0.6 else ''},
                      'during': [g.dp() for _ in range(rng.randint(1, 2))] if rng.random() < 0.3 else []})
    last = [g.dp() for _ in range(rng.randint(0 if steps else 1, 2))]
    steps.append({'dps': last, 'by': None, 'gap': 0, 'script': []})
    return {'v2': v2, 'n_runs': n_runs, 'prior': None, 'start': stamp(rng), 'load_gap': 0, 'load_script': ['ok'],
            'branch': rng.choice([None, 'verif/feature-x', 'v1.2.3']),
            'ui': rng.choice([None, {'verbose': False, 'debug': False}, {'verbose': True, 'debug': True}]),
            'clean': rng.random() < 0.15,
            'steps': steps, 'close_script': point_script(rng, outcomes[-1])}


def stamp(rng):
    return '20%02d-%02d-%02dT%02d:%02d:%02d.%06d+00:00' % (rng.randint(10, 30), rng.randint(1, 12), rng.randint(1, 28),
                                                           rng.randint(0, 23), rng.randint(0, 59), rng.randint(0, 59),
                                                           rng.randint(0, 999999))


def gen_script(rng):
    kind = rng.choice(['ok', 'fail-all', 'recover', 'client-late', 'type', 'exact5', 'short'])
    r = lambda: rng.choice(['refused', '5xx', '5xx'] + list(D.DROPPED))  # noqa: E731
    if kind == 'ok':
        return ['ok']
    if kind == 'fail-all':
        return [r() for _ in range(6)]
    if kind == 'recover':
        return [r() for _ in range(rng.randint(1, 4))] + ['ok']
    if kind == 'client-late':
        return [r() for _ in range(rng.randint(0, 4))] + ['4xx', 'ok']
    if kind == 'type':
        return [r() for _ in range(rng.randint(0, 2))] + ['type', 'ok']
    if kind == 'exact5':
        return [r() for _ in range(5)] + ['ok']     # the 6th attempt would succeed: must not be made
    return [r() for _ in range(rng.randint(0, 3))]   # short script: continues with refused


def gen_random(rng, rich=False, max_points=5):
    n_runs = rng.randint(1, 4)
    v2 = rng.random() < 0.5
    g = DataGen(rng, n_runs)
    prior = None
    if rng.random() < 0.25:
        prior = {'start': stamp(rng), 'dps': []}
        for _ in range(rng.randint(1, 5)):
            d = g.dp(rich=rich, exact8=True)
            if d['direct']:
                d['direct'] = False
                d['ms'].append(['total', 'ms', g.val(True)])
            prior['dps'].append(d)
    steps = []
    for _ in range(rng.randint(1, max_points)):
        n = rng.choice([0, 1, 1, 2, 3, 6]) if not rich else rng.randint(2, 12)
        run = None
        dps = []
        for _i in range(n):
            if run is None or rng.random() < 0.3:
                run = rng.randrange(n_runs)
            dps.append(g.dp(run, rich=rich))
        statuses = {}
        if rng.random() < 0.3:
            statuses = {'4xx': rng.choice([400, 401, 404, 422, 499]), '5xx': rng.choice([500, 502, 503, 599, 399, 301])}
        if rng.random() < 0.4:
            statuses['ok'] = rng.choice([201, 202, 204, 200])     # every 2xx is an acknowledgement
        if rng.random() < 0.5:
            statuses['body'] = rng.choice(sorted(D.ERROR_BODIES))  # what the server says in an error response
        if rng.random() < 0.15:
            statuses['reason'] = rng.choice(sorted(D.ERROR_REASONS))
        steps.append({'dps': dps, 'by': dps[-1]['run'] if dps else rng.randrange(n_runs),
                      'gap': rng.choice([0, 1, 29, 30, 30, 31, 60, 600]), 'script': gen_script(rng),
                      'statuses': statuses,
                      'during': [g.dp(rich=rich) for _ in range(rng.randint(1, 3))] if rng.random() < 0.35 else []})
    steps.append({'dps': [g.dp(rich=rich) for _ in range(rng.choice([0, 1, 2]))], 'by': None, 'gap': 0, 'script': []})
    return {'v2': v2, 'n_runs': n_runs, 'prior': prior, 'start': stamp(rng),
            'branch': rng.choice([None, 'verif/feature-x', 'release-2']),
            'ui': rng.choice([None, {'verbose': False, 'debug': False}, {'verbose': True, 'debug': False},
                              {'verbose': True, 'debug': True}]),
            'clean': rng.random() < 0.2,
            'load_gap': rng.choice([0, 0, 29, 30, 100]), 'load_script': gen_script(rng),
            'steps': steps, 'close_script': gen_script(rng),
            'close_during': [g.dp(rich=rich)] if rng.random() < 0.1 else [],
            'close_statuses': {'ok': rng.choice([200, 201, 202, 204])}}


# ------------------------------------------------------------------ running one scenario on the real code
def mk(script):
    """a script of concrete transport faults as the attempt classes of the Lean model"""
    return [D.model_kind(k) for k in script]


def dp_event(d):
    return {'k': 'persist', 'run': d['run'],
            'dp': {'in': d['in'], 'it': d['it'],
                   'ms': [{'c': c, 'u': u, 'v': D.fr(v)} for (c, u, v) in d['ms']]}}


def add_point_events(events, timeline, ev, point, fl):
    """one transmission point; the data points another thread handed over while its request was in flight"""
    if fl.error:
        point['in_flight_error'] = fl.error
    if fl.fired and not fl.blocked:
        ev['during'] = [{'run': d['run'], 'dp': dp_event(d)['dp']} for d in fl.dps]
    events.append(ev)
    timeline.append(('point', point))
    if fl.fired:
        for d in fl.dps:
            if fl.blocked:      # the persisting thread had to wait for the request to end: a plain persist afterwards
                events.append(dp_event(d))
            timeline.append(('dp', dict(d, in_flight=True)))


def flat_of(d):
    return [(d['run'], d['in'], d['it'], c, u, D.fraction(v)) for (c, u, v) in d['ms']]


def execute(ck, sc, idx, server=None, refused_port=None):
    """returns (impl observation, model op, bookkeeping for the oracle)"""
    wd = os.path.join(ck.scratch, 'c17-%d' % idx)
    os.makedirs(wd, exist_ok=True)
    data_file = os.path.join(wd, 't.data')
    if server is not None:
        url = 'http://127.0.0.1:%d' % (refused_port if refused_port else server.port)
    else:
        url = 'http://127.0.0.1:9'
    n_runs = sc['n_runs']
    events = []
    fed = []            # (label of the point after which it is pending, dp)
    old_cwd = os.getcwd()
    os.chdir(wd)
    import contextlib
    import io
    ui_out, ui_err = io.StringIO(), io.StringIO()
    redirect = contextlib.ExitStack()
    redirect.enter_context(contextlib.redirect_stdout(ui_out))
    redirect.enter_context(contextlib.redirect_stderr(ui_err))
    try:
        if sc.get('prior'):
            with D.World(sc['v2'], 'prior', sc['prior']['start']):
                s0 = D.Session(wd, n_runs, data_file, url, with_db=False)
                s0.load()
                for d in sc['prior']['dps']:
                    s0.feed(d)
                s0.close()
        with D.World(sc['v2'], 'e%d' % (idx % 7), sc['start'], server if not refused_port else None) as w:
            if refused_port:
                # a closed port: the real urlopen gets ECONNREFUSED; only OPTIONS needs an answer
                import rebench.rebenchdb as R
                real_urlopen = w._saved[2]

                def urlopen(req, *a, **kw):
                    if req.get_method() == 'OPTIONS':
                        return w.urlopen(req)
                    rec = {'method': req.get_method(), 'url': req.full_url, 'body': req.data,
                           'ctype': dict((k.lower(), v) for k, v in req.header_items()).get('content-type'),
                           'kind': 'refused'}
                    w.point['attempts'].append(rec)
                    return real_urlopen(req, *a, **kw)
                R.urlopen = urlopen
            s = D.Session(wd, n_runs, data_file, url, branch=sc.get('branch'), real_ui=sc.get('ui'), clean=bool(sc.get('clean')))
            t0 = int(w.clock)
            timeline = []   # what the oracle sees: ('dp', d) | ('point', record)
            crash = None
            try:
                w.clock += sc['load_gap']
                now = int(w.clock)
                w.begin_point('load', sc['load_script'])
                s.load()
                w.end_point()
                for d in ([] if sc.get('clean') else (sc.get('prior') or {}).get('dps', [])):
                    events.append(dp_event(d))
                    timeline.append(('dp', d))
                events.append({'k': 'send', 'now': now, 'script': mk(sc['load_script'])})
                timeline.append(('point', w.points[-1]))
                for i, st in enumerate(sc['steps']):
                    for d in st['dps']:
                        s.feed(d)
                        events.append(dp_event(d))
                        timeline.append(('dp', d))
                    if st['by'] is None:
                        continue
                    w.clock += st['gap']
                    now = int(w.clock)
                    w.begin_point('step%d' % i, st['script'], st.get('statuses'))
                    fl = D.InFlight(s, st.get('during') or [])
                    if fl.dps:
                        w.hook = fl
                    s.completed(st['by'])
                    w.end_point()
                    fl.finish()
                    add_point_events(events, timeline, {'k': 'send', 'now': now, 'script': mk(st['script'])}, w.points[-1], fl)
                w.begin_point('close', sc['close_script'], sc.get('close_statuses'))
                fl = D.InFlight(s, sc.get('close_during') or [])
                if fl.dps:
                    w.hook = fl
                s.close()
                w.end_point()
                fl.finish()
                add_point_events(events, timeline, {'k': 'close', 'script': mk(sc['close_script'])}, w.points[-1], fl)
                # probe: what is still held?  (a harness-only extra `close()` of the back end)
                probe_script = ['refused'] * 6 if refused_port else ['ok']
                w.begin_point('probe', probe_script)
                s.db.close()
                w.end_point()
                events.append({'k': 'close', 'script': probe_script})
                timeline.append(('point', w.points[-1]))
            except lib.InfraError:
                raise
            except Exception as e:  # noqa: the implementation raised in the middle of the session
                import traceback
                tb = traceback.extract_tb(e.__traceback__)
                crash = {'exception': type(e).__name__, 'message': str(e)[:200],
                         'raised_in': tb[-1].name, 'at': w.point['label'] if w.point else None}
                w.end_point()
            runs = s.runs
            env_expected = json.dumps(w.env, sort_keys=True)
            src = dict(D.SOURCE)
            src['repoURL'] = CFG_REPO_URL             # reporting.rebenchdb.repo_url overrides the working copy's
            if sc.get('branch'):
                src['branchOrTag'] = sc['branch']     # and --branch its branch
            src_expected = json.dumps(src, sort_keys=True)
            underrun = w.script_underrun
            options_calls = w.options_calls
    finally:
        redirect.close()
        os.chdir(old_cwd)
    start_expected = sc['prior']['start'] if (sc.get('prior') and sc['prior']['dps'] and not sc.get('clean')) else sc['start']
    op = {'op': 'c17.session', 'v2': sc['v2'], 't0': t0, 'start': start_expected, 'env': env_expected,
          'source': src_expected, 'events': events}
    if os.environ.get('C17_MODEL_VARIANT'):   # development aid: compare against the model of an earlier tree
        op['variant'] = os.environ['C17_MODEL_VARIANT']
    # ---- canonical implementation observation
    reqs = []
    for kind, p in timeline:
        if kind != 'point' or not p['attempts']:
            continue
        bodies = set(a['body'] for a in p['attempts'])
        dec = D.decode_body(p['attempts'][0]['body'], runs)
        p['decoded'] = dec
        # what the *server* did: it acknowledged the request if it answered any attempt with a 2xx
        p['success'] = any(a['kind'] == 'ok' for a in p['attempts'])
        reqs.append({'success': p['success'], 'used': len(p['attempts']), 'waits': [int(x) for x in p['waits']],
                     'v2': dec['v2'], 'wire': dec['wire'], 'start': dec['startTime'],
                     'env': json.dumps(dec['env'], sort_keys=True), 'source': json.dumps(dec['source'], sort_keys=True),
                     'same_body_all_attempts': len(bodies) == 1,
                     'urls': sorted(set(a['url'][len(url):] for a in p['attempts'])),
                     'method_ctype': sorted(set((a['method'], a['ctype']) for a in p['attempts']))})
    impl = {'reqs': reqs}
    impl['crash'] = crash
    return impl, op, {'source_configured': src, 'crash': crash, 'timeline': timeline, 'data_file': data_file, 'underrun': underrun,
                      'options_calls': options_calls, 'expected_start': start_expected}


def model_reqs(ans):
    out = []
    for q in ans['reqs']:
        out.append({'success': q['success'], 'used': q['used'], 'waits': q['waits'], 'v2': q['v2'],
                    'wire': canon_model_wire(q['wire'], q['v2']), 'start': q['start'], 'env': q['env'],
                    'source': q['source']})
    return out


def canon_model_wire(w, v2):
    data = []
    for e in w['data']:
        dps = []
        for d in e['d']:
            if v2:
                dps.append({'in': d['in'], 'm': [[None if v is None else lib.frac(lib.unfrac(v)) for v in col]
                                                 for col in d['m']]})
            else:
                dps.append({'in': d['in'], 'it': d['it'], 'm': [[lib.frac(lib.unfrac(v)), c] for (v, c) in d['m']]})
        data.append({'run': e['run'], 'd': dps})
    return {'data': data, 'criteria': w['criteria']}


# ------------------------------------------------------------------ the oracle
def oracle(ck, sc, book, inp):
    """the property on what the implementation sent; returns number of failures reported"""
    n = 0
    pending = []        # data points handed over and not yet acknowledged
    failed_before = []  # data points that were in a failed request and are still pending
    acked = []          # flat measurements of acknowledged requests
    fed_all = []
    last_req_success = None

    def fail(clause, detail, **sig):
        ck.oracle_fail(clause, inp, detail, signature=dict({'clause': clause}, **sig))

    before_close = None
    for kind, x in book['timeline']:
        if kind == 'dp':
            pending.append(x)
            fed_all.append(x)
            continue
        p = x
        if p['label'] == 'close':
            before_close = len(fed_all)      # what another thread hands over during the close itself comes later
        if not p['attempts'] or 'decoded' not in p:
            continue
        dec = p['decoded']
        want = sorted([m for d in pending for m in flat_of(d)], key=repr)
        got = dec['flat']
        if got != want:
            missing = [m for m in want if m not in got]
            extra = [m for m in got if m not in want]
            lost_after_failure = [m for m in missing if any(m in flat_of(d) for d in failed_before)]
            lost_in_flight = [m for m in missing if any(m in flat_of(d) for d in pending if d.get('in_flight'))]
            resent_acked = [m for m in extra if m in acked]
            if lost_in_flight and not lost_after_failure:
                fail('kept_while_in_flight', {'point': p['label'], 'n_missing': len(lost_in_flight),
                                              'handed_over_while_a_request_was_in_flight_and_never_sent':
                                              [repr(m) for m in lost_in_flight[:4]]}, api='v2' if sc['v2'] else 'v1')
            elif lost_after_failure:
                fail('kept_on_failure', {'point': p['label'], 'missing_from_next_request': [repr(m) for m in lost_after_failure[:4]],
                                         'n_missing': len(lost_after_failure)}, api='v2' if sc['v2'] else 'v1')
            elif resent_acked:
                fail('ack_at_most_once', {'point': p['label'], 'sent_again': [repr(m) for m in resent_acked[:4]]})
            else:
                fail('payload_decodes', {'point': p['label'], 'missing': [repr(m) for m in missing[:4]],
                                         'invented': [repr(m) for m in extra[:4]]}, api='v2' if sc['v2'] else 'v1')
            n += 1
        if not dec['crit_index_ok'] or not dec['run_dicts_ok']:
            fail('payload_decodes', {'point': p['label'], 'criteria_index_ok': dec['crit_index_ok'],
                                     'run_ids_ok': dec['run_dicts_ok']}, part='index')
            n += 1
        file_start = D.first_start_time(book['data_file'])
        if file_start is not None and dec['startTime'] != file_start:
            fail('payload_carries_start_time', {'payload': dec['startTime'], 'data_file': file_start})
            n += 1
        want_src = book['source_configured']
        if dec['source'] != want_src:
            diff = sorted(k for k in want_src if (dec['source'] or {}).get(k) != want_src[k])
            fail('payload_carries_env_source', {'payload_source': dec['source'], 'configured': want_src, 'differs_in': diff},
                 part='configured source overrides', fields=','.join(diff), api='v2' if sc['v2'] else 'v1')
            n += 1
        env, src = D.last_block_meta(book['data_file'])
        if src is not None and D.block_count(book['data_file']) == (2 if (sc.get('prior') and sc['prior']['dps'] and not sc.get('clean')) else 1) \
                and src != want_src:
            fail('payload_carries_env_source', {'data_file_source_line': src, 'configured': want_src},
                 part='# Source: line', api='v2' if sc['v2'] else 'v1')
            n += 1
        blocks = D.block_count(book['data_file'])
        wrote_block = blocks == (2 if (sc.get('prior') and sc['prior']['dps'] and not sc.get('clean')) else 1)
        if env is not None and wrote_block and (dec['env'] != env or dec['source'] != src):
            fail('payload_carries_env_source', {'payload_env': dec['env'], 'file_env': env,
                                                'payload_source': dec['source'], 'file_source': src})
            n += 1
        if p.get('in_flight_error'):
            fail('kept_while_in_flight', {'point': p['label'], 'persisting_thread_raised': p['in_flight_error']},
                 exception=p['in_flight_error'].split(':')[0])
            n += 1
        if len(p['attempts']) > 5:
            fail('retry_bound', {'attempts': len(p['attempts'])})
            n += 1
        kinds = [a['kind'] for a in p['attempts']]
        if '4xx' in kinds[:-1]:
            fail('client_error_not_retried', {'attempts': kinds})
            n += 1
        n_acks = sum(1 for a in p['attempts'] if a['kind'] == 'ok')
        if n_acks > 1:
            fail('ack_at_most_once', {'point': p['label'], 'the_server_acknowledged_the_same_data_points': n_acks,
                                      'attempts': [(a['kind'], a.get('status')) for a in p['attempts']]},
                 within='one request')
            n += 1
        if p['success']:
            acked += got
            pending = []
            failed_before = []
        else:
            failed_before = list(pending)
        if p['label'] == 'close':
            last_req_success = p['success']
    # final transmission succeeded -> every data point acknowledged exactly once
    close_pts = [x for k, x in book['timeline'] if k == 'point' and x['label'] == 'close']
    close_pt = close_pts[0] if close_pts else {'attempts': []}       # no close when the session crashed before
    if (close_pt['attempts'] and close_pt['success']):
        want_all = sorted([m for d in fed_all[:before_close] for m in flat_of(d)], key=repr)
        if sorted(acked_upto_close(book), key=repr) != want_all:
            fail('final_ok_all_once', {'acked': len(acked_upto_close(book)), 'handed_over': len(want_all)})
            n += 1
    return n


def acked_upto_close(book):
    out = []
    for kind, x in book['timeline']:
        if kind == 'point' and x['attempts'] and x['success'] and x['label'] != 'probe':
            out += x['decoded']['flat']
    return out


# ------------------------------------------------------------------ checking a batch
def check_batch(ck, scenarios, server=None, refused_port=None, tag=''):
    results = []
    for i, sc in enumerate(scenarios):
        ck._c17_idx = getattr(ck, '_c17_idx', 0) + 1
        impl, op, book = execute(ck, sc, ck._c17_idx, server, refused_port)
        results.append((sc, impl, op, book))
    answers = ck.model([op for (_s, _i, op, _b) in results])
    for (sc, impl, op, book), ans in zip(results, answers):
        ck.impl_traces += 1
        inp = {'scenario': sc, 'mode': tag or ('http' if server else 'scripted')}
        if 'err' in ans:
            raise lib.InfraError('model rejected the op: %s' % json.dumps(op)[:400])
        m = model_reqs(ans)
        i_reqs = [dict((k, v) for k, v in r.items() if k in ('success', 'used', 'waits', 'v2', 'wire', 'start', 'env', 'source'))
                  for r in impl['reqs']]
        # distribution
        ck.count('api:v2' if sc['v2'] else 'api:v1')
        ck.count('points:%d' % sum(1 for k, x in book['timeline'] if k == 'point' and x['attempts'] and x['label'] != 'probe'))
        for r in impl['reqs']:
            ck.count('request:ok' if r['success'] else 'request:failed')
            ck.count('attempts:%d' % r['used'])
        for k, x in book['timeline']:
            if k == 'point' and x['label'].startswith('step') and not x['attempts']:
                ck.count('send_data:gated-or-empty')
        had_failure_then_more = any((not a['success']) for a in impl['reqs'][:-1])
        padded = any(None in col for r in impl['reqs'] if r['v2'] for e in r['wire']['data'] for d in e['d'] for col in d['m'])
        if padded:
            ck.count('v2:null-padding')
        if sc.get('prior'):
            ck.count('reloaded-data')
        if sc.get('ui'):
            ck.count('real rebench.ui.UI in the transmission path')
        if sc.get('clean'):
            ck.count('session with -c (data file cleared)' + (' over an earlier session' if sc.get('prior') else ''))
        for st in sc['steps']:
            if (st.get('statuses') or {}).get('body'):
                ck.count('error response with a body: %s' % st['statuses']['body'])
        n_fl = sum(1 for k, x in book['timeline'] if k == 'dp' and x.get('in_flight'))
        if n_fl:
            ck.count('data points handed over while a request is in flight', n_fl)
        ck.case(nontrivial_key=('s', json.dumps(sc, sort_keys=True)) if (had_failure_then_more or padded) else None,
                sample={'v2': sc['v2'], 'points': [(x['label'], [a['kind'] for a in x['attempts']])
                                                   for k, x in book['timeline'] if k == 'point']})
        bad = oracle(ck, sc, book, inp)
        if book['crash']:
            ck.oracle_fail('transmission_no_traceback', inp, book['crash'],
                           signature={'clause': 'transmission_no_traceback', 'exception': book['crash']['exception'],
                                      'raised_in': book['crash']['raised_in']})
            ck.disagree('c17.session: the implementation raised, the model does not', inp, book['crash'],
                        {'reqs': len(m)}, THEOREMS_SESSION + THEOREMS_ENC)
            continue
        if i_reqs != m:
            which = first_difference(i_reqs, m)
            theorems = THEOREMS_SESSION + (THEOREMS_RETRY if which in ('used', 'waits', 'success') else []) + \
                (THEOREMS_ENC if which in ('wire', 'start', 'env', 'source', 'v2') else [])
            ck.disagree('c17.session: real _ReBenchDB/ReBenchDB vs RB.DB.run (differs in: %s)' % which, inp,
                        {'reqs': summarise(i_reqs)}, {'reqs': summarise(m)}, theorems)
            if not bad:
                search_neighbourhood(ck, sc, server, refused_port)
        for r in impl['reqs']:
            if not r['same_body_all_attempts'] or r['urls'] != ['/results'] or \
                    r['method_ctype'] != [('PUT', 'application/json')]:
                ck.disagree('c17.session: request shape (one body per request, PUT /results, JSON)', inp,
                            {'urls': r['urls'], 'method_ctype': r['method_ctype'],
                             'same_body': r['same_body_all_attempts']}, {'urls': ['/results']}, THEOREMS_RETRY)


def summarise(reqs):
    out = []
    for r in reqs:
        out.append({'success': r['success'], 'used': r['used'], 'waits': r['waits'], 'v2': r['v2'],
                    'start': r['start'], 'wire': r['wire']})
    return out


def first_difference(a, b):
    if len(a) != len(b):
        return 'number of requests (%d vs %d)' % (len(a), len(b))
    for x, y in zip(a, b):
        for k in ('success', 'used', 'waits', 'v2', 'start', 'env', 'source', 'wire'):
            if x[k] != y[k]:
                return k
    return '?'


_searching = False


def search_neighbourhood(ck, sc, server, refused_port):
    """a disagreement without oracle failure: evaluate the oracle on shrunken variants"""
    global _searching
    if _searching:
        return
    _searching = True
    try:
        variants = []
        for i in range(len(sc['steps']) - 1):
            v = json.loads(json.dumps(sc))
            v['steps'] = [sc['steps'][i], sc['steps'][-1]]
            v['prior'] = None
            variants.append(v)
            for script in (['4xx'], ['refused'] * 5, ['ok']):
                v2 = json.loads(json.dumps(v))
                v2['steps'][0]['script'] = script
                v2['steps'][0]['gap'] = 30
                variants.append(v2)
        for v in variants[:24]:
            ck._c17_idx = getattr(ck, '_c17_idx', 0) + 1
            impl, op, book = execute(ck, v, ck._c17_idx, server, refused_port)
            oracle(ck, v, book, {'scenario': v, 'mode': 'search'})
    finally:
        _searching = False


# ------------------------------------------------------------------ retry policy alone
def check_retries(ck, n, only=None):
    """the real `_send_with_retries` against `sendWithRetries` on scripts of length 0..7"""
    from rebench.rebenchdb import ReBenchDB
    from rebench.ui import TestDummyUI
    rng = ck.rng
    scripts = [list(s) for k in range(0, 3) for s in itertools.product(['ok', 'refused', '5xx', '4xx', 'type', 'reset', 'incomplete'], repeat=k)]
    scripts += [['refused'] * k + [e] for k in range(0, 7) for e in ('ok', '4xx', 'type', '5xx')]
    scripts += [[d] * k + [e] for d in D.DROPPED for k in (1, 4, 5) for e in ('ok', '4xx')]
    while len(scripts) < n:
        scripts.append([rng.choice(['ok', 'refused', '5xx', '5xx', '4xx', 'type'] + list(D.DROPPED)) for _ in range(rng.randint(1, 7))])
    if only is not None:
        scripts = [list(x) for x in only]
    answers = ck.model([{'op': 'c17.retries', 'script': mk(s)} for s in scripts])
    for s, ans in zip(scripts, answers):
        with D.World(False, 'r', 'st') as w:
            db = ReBenchDB('http://127.0.0.1:9', 'p', 'e', TestDummyUI())
            w.begin_point('r', s)
            raised = None
            try:
                ok, _resp = db._send_with_retries(b'{}', 'http://127.0.0.1:9/results')
            except Exception as e:  # noqa: a transport fault must end as (False, None), never as an exception
                ok, raised = False, type(e).__name__
            w.end_point()
            impl = {'success': bool(ok), 'used': len(w.points[-1]['attempts']), 'waits': [int(x) for x in w.points[-1]['waits']]}
        if raised:
            ck.case()
            ck.disagree('c17.retries: ReBenchDB._send_with_retries raised', {'script': s}, {'raised': raised}, ans, THEOREMS_RETRY)
            ck.oracle_fail('transmission_no_traceback', {'script': s},
                           {'exception': raised, 'attempts': [a['kind'] for a in w.points[-1]['attempts']]},
                           signature={'clause': 'transmission_no_traceback', 'exception': raised, 'raised_in': '_send_with_retries'})
            continue
        ck.count('retry-script-len:%d' % len(s))
        ck.case(nontrivial_key=('r', tuple(s)) if len(s) >= 2 else None)
        if impl != ans:
            ck.disagree('c17.retries: ReBenchDB._send_with_retries vs RB.DB.sendWithRetries', {'script': s}, impl, ans,
                        THEOREMS_RETRY)
        kinds = (s + ['refused'] * 8)[:impl['used']]
        if impl['used'] > 5:
            ck.oracle_fail('retry_bound', {'script': s}, impl)
        if '4xx' in kinds[:-1]:
            ck.oracle_fail('client_error_not_retried', {'script': s}, impl)


# ------------------------------------------------------------------ several data files in one session
def check_multi_file(ck, n, seeds=None):
    """one session, several experiments with their own data file (executed with `all`), ReBenchDB enabled: every
    data file has its own back end and its own start time (that of the file's first session block, or of its
    creation); a request carries the start time of the data file whose data points it covers"""
    import copy
    from rebench.configurator import Configurator, load_config
    import random as _random
    for idx in range(n):
        scen_seed = seeds[idx] if seeds else ck.rng.randint(0, 2 ** 31)
        rng = _random.Random(scen_seed)        # a replay file names the scenario by its seed
        ck._c17_mf = getattr(ck, '_c17_mf', 0) + 1
        wd = os.path.join(ck.scratch, 'mf%d' % ck._c17_mf)
        os.makedirs(wd)
        n_files = rng.randint(2, 4)
        v2 = rng.random() < 0.5
        files = ['x%d.data' % i for i in range(n_files)]
        stamps = {}
        # some of the files exist already: they keep the start time of their first session
        for f in files:
            if rng.random() < 0.4:
                stamps[f] = stamp(rng)
                with open(os.path.join(wd, f), 'w') as fh:
                    fh.write('#!earlier session\n# Execution Start: %s\n' % stamps[f])
        cfg = {'default_experiment': 'all', 'default_data_file': 'unused.data',
               'reporting': {'rebenchdb': {'db_url': 'http://127.0.0.1:9', 'repo_url': D.CFG_REPO_URL,
                                           'project_name': D.PROJECT, 'record_all': True}},
               'benchmark_suites': dict(('S%d' % i, {'gauge_adapter': 'RebenchLog', 'command': 'h %(benchmark)s',
                                                     'benchmarks': ['F%dA' % i, 'F%dB' % i]}) for i in range(n_files)),
               'executors': {'E': {'path': '.', 'executable': 'exe'}},
               'experiments': dict(('X%d' % i, {'suites': ['S%d' % i], 'executions': ['E'], 'data_file': files[i]})
                                   for i in range(n_files))}
        conf = D.drive.write_config(wd, cfg)
        fresh = iter([stamp(rng) for _ in range(40)])
        old_cwd = os.getcwd()
        os.chdir(wd)
        crash = None
        try:
            with D.World(v2, 'mf', 'unused') as w:
                D.P.get_current_time = lambda: next(fresh)      # every new file gets a time of its own
                ui = D.TestDummyUI()
                ds = D.P.DataStore(ui)
                cnf = Configurator(load_config(conf), ds, ui, D.options([]))
                runs = sorted(cnf.get_runs(), key=lambda r: r.benchmark.name)
                try:
                    ds.load_data(runs, False)
                    order = list(runs)
                    rng.shuffle(order)
                    for k, run in enumerate(order):
                        dp = D.DataPoint(run)
                        dp.add_measurement(D.Measurement(1, 1, float(k + 1), 'ms', run, 'total'))
                        run.add_data_point(dp, False)
                    w.begin_point('close', ['ok'] * (2 * n_files))
                    for run in runs:
                        run.close_files()
                    w.end_point()
                except Exception as e:  # noqa
                    crash = '%s: %s' % (type(e).__name__, e)
                attempts = list(w.points[-1]['attempts']) if w.points else []
        finally:
            os.chdir(old_cwd)
        inp = {'multi_file': {'scenario_seed': scen_seed, 'files': files, 'existing_with_start_time': stamps, 'v2': v2}}
        ck.impl_traces += 1
        ck.count('session with %d data files and ReBenchDB' % n_files)
        ck.case(nontrivial_key=('mf', idx, n_files, len(stamps)), sample={'files': n_files, 'requests': len(attempts)})
        if crash:
            ck.oracle_fail('transmission_no_traceback', inp, {'raised': crash},
                           signature={'clause': 'transmission_no_traceback', 'level': 'multi-file'})
            continue
        seen = {}
        for a in attempts:
            j = json.loads(a['body'])
            names = sorted(set(e['runId']['benchmark']['name'] for e in j['data']))
            fidx = sorted(set(int(nm[1]) for nm in names))
            for fi in fidx:
                seen.setdefault(files[fi], []).append(j.get('startTime'))
            file_starts = [D.first_start_time(os.path.join(wd, files[fi])) for fi in fidx]
            bad = [files[fi] for fi, st in zip(fidx, file_starts) if st != j.get('startTime')]
            if len(fidx) != 1 or bad:
                ck.oracle_fail('payload_carries_start_time', inp,
                               {'request_covers_files': [files[fi] for fi in fidx], 'payload_startTime': j.get('startTime'),
                                'start_time_recorded_in_those_files': file_starts},
                               signature={'clause': 'payload_carries_start_time', 'level': 'multi-file'})
            # an existing file keeps the start time of its first session
            for fi in fidx:
                if files[fi] in stamps and j.get('startTime') != stamps[files[fi]]:
                    ck.oracle_fail('payload_carries_start_time', inp,
                                   {'file': files[fi], 'first_session_started': stamps[files[fi]], 'payload': j.get('startTime')},
                                   signature={'clause': 'payload_carries_start_time', 'level': 'multi-file', 'what': 'first block'})
        if sorted(seen) != sorted(files):
            ck.disagree('c17.multi-file: one request per data file', inp, {'files_with_requests': sorted(seen)},
                        {'files': files}, THEOREMS_ENC)


# ------------------------------------------------------------------ corpus / entry points
def corpus_files():
    d = os.path.join(lib.VERIF, 'harness', 'corpus', 'C17')
    if not os.path.isdir(d):
        return []
    return [os.path.join(d, f) for f in sorted(os.listdir(d)) if f.endswith('.json')]


def run(ck):
    quick = ck.tier == 'quick'
    max_pts = 4 if quick else 6
    ck.rule = ('every sequence of per-point outcomes {ok, refused, 5xx, 4xx} over 1..%d transmission points x 2 API '
               'versions with 1-4 runs producing data between them, plus random scripts (recoveries, late 4xx, TypeError, '
               'exactly 5 failures), clock gaps 0/1/29/30/31/60/600 s, reloaded data and rich sparse-criteria shapes; '
               'non-trivial = a failed request followed by a later request, or a v2 payload with null padding'
               % max_pts)
    ck.exhaustive = True
    ck.assumptions = ['HTTP is abstracted to "acknowledged or failed with a status class"; concurrent persist during a '
                      'send (parallel executor) is outside the model: events are atomic']
    # corpus first
    for f in corpus_files():
        data = json.load(open(f))
        ck.count('corpus')
        check_batch(ck, [data['input']['scenario']], tag='corpus')
    check_retries(ck, 150 if quick else 1500)
    check_multi_file(ck, 12 if quick else 120)
    rng = ck.rng
    # exhaustive outcome sequences
    batch = []
    for n in range(1, max_pts + 1):
        for seq in itertools.product(['ok', 'refused', '5xx', '4xx', 'dropped'], repeat=n):
            if (n >= 6 and rng.random() < 0.8) or (n == 5 and rng.random() < 0.5):
                continue   # thorough: half of the 4096 length-6 sequences per API version per run
            for v2 in (False, True):
                batch.append(gen_enumerated(rng, seq, v2))
    for i in range(0, len(batch), 400):
        check_batch(ck, batch[i:i + 400])
    # random scenarios
    n_rand = 200 if quick else 3000
    batch = [gen_random(rng, rich=(i % 4 == 0)) for i in range(n_rand)]
    for i in range(0, len(batch), 400):
        check_batch(ck, batch[i:i + 400])
    if not quick:
        http_slice(ck, 200)


def http_slice(ck, n):
    """thorough: the same sessions against a real HTTP server on 127.0.0.1 (and a closed port)"""
    import socket
    server = D.RealServer()
    try:
        rng = ck.rng
        batch = []
        for _ in range(n):
            sc = gen_random(rng, rich=rng.random() < 0.3, max_points=3)
            # a live server cannot refuse and does not raise TypeError
            def clean(script):
                out = [('5xx' if k in ('refused', 'type') else 'disconnected' if k in ('timeout', 'brokenpipe') else k)
                       for k in script]
                return (out + ['5xx'] * 6)[:max(6, len(out))]
            sc['load_script'] = clean(sc['load_script'])
            sc['close_script'] = clean(sc['close_script'])
            for st in sc['steps']:
                st['script'] = clean(st['script'])
            batch.append(sc)
        check_batch(ck, batch, server=server, tag='http')
        ck.count('http-server-sessions', len(batch))
        # connection refused for real: a port nobody listens on
        s = socket.socket()
        s.bind(('127.0.0.1', 0))
        port = s.getsockname()[1]
        s.close()
        batch = []
        for _ in range(max(4, n // 20)):
            sc = gen_random(rng, max_points=2)
            sc['load_script'] = ['refused'] * 6
            sc['close_script'] = ['refused'] * 6
            for st in sc['steps']:
                st['script'] = ['refused'] * 6
            batch.append(sc)
        check_batch(ck, batch, server=server, refused_port=port, tag='closed-port')
        ck.count('closed-port-sessions', len(batch))
    finally:
        server.stop()


def replay(ck, data):
    inp = data['input']
    if 'multi_file' in inp:
        check_multi_file(ck, 1, seeds=[inp['multi_file']['scenario_seed']])
        return
    sc = inp.get('scenario')
    if sc is None and 'script' in inp:
        check_retries(ck, 0, only=[inp['script']])
        return
    check_batch(ck, [sc], tag='replay')
