"""Helpers shared by the C06 / C07 / C08 correspondence checks: scenario
generation, probing the compiled configuration, driving histories of real
sessions with a deterministic scripted harness, canonicalising data files into
the abstract lines of the Lean model (`RB.DataFile.Line`)."""
import json
import os
import re
from fractions import Fraction

import lib
import drive

lib.use_repo()

from rebench import rebench as rb_main  # noqa: E402
from rebench.model.measurement import Measurement  # noqa: E402

HEADER = '\t'.join(["invocation", "iteration", "value", "unit", "criterion", "benchmark", "executor",
                    "suite", "extraArgs", "cores", "inputSize", "varValue", "tag", "machine", "runId"])

# ---------------------------------------------------------------- layer bookkeeping
# run_session creates its ProcessLayer internally; remember them so that scripted
# processes that were "interrupted" (and wait to be killed) can be released.
_layers = []
_orig_layer_init = drive.ProcessLayer.__init__


def _layer_init(self, script):
    _orig_layer_init(self, script)
    _layers.append(self)


drive.ProcessLayer.__init__ = _layer_init


def release_hanging():
    for l in _layers:
        for p in list(l._procs.values()):
            p.killed.set()
    del _layers[:]


# ---------------------------------------------------------------- values
def gen_value(rng):
    k = rng.random()
    if k < 0.08:
        return rng.randint(1, 10 ** 5) / 128.0          # a tie at the 7th decimal (dyadic)
    if k < 0.14:
        return float(rng.randint(0, 10 ** rng.randint(1, 9)))
    if k < 0.2:
        return rng.choice([0.0, 0.0000004, 0.0000005, 0.0000015, 0.9999995, 1e-05, 123456789.125, 0.5, 2.5])
    return round(rng.uniform(0.001, 10 ** rng.randint(0, 5)), rng.randint(0, 9))


def num_text(v):
    """how the fake harness prints a number so that RebenchLog's pattern reads it back exactly"""
    s = repr(float(v))
    assert float(s) == v
    return s


CRITERIA = ['mem', 'gc', 'compile', 'alloc rate', 'heap-size', 'x.y', 'Größe', 'c_1', 'GC time', 'a  b c',
            'p% used', '#objs', 'q"x\'y', 'L1 d-cache miss/s']
UNITS = ['kb', 'ms', 'MB', 'n', 'bytes']


def gen_dp(rng, n_extra):
    """one data point: extra criteria then the total: list of (crit, unit, float)"""
    ms = []
    for _ in range(n_extra):
        ms.append((rng.choice(CRITERIA), rng.choice(UNITS), gen_value(rng)))
    ms.append(('total', 'ms', gen_value(rng)))
    return ms


MV_CRITERIA = ['bar', 'baz', 'mem', 'gc_time', 'c_1']
MV_UNITS = ['ms', 'kbyte', 'kerf', 'n']


def gen_mv_dp(rng):
    """one counted data point of the Multivariate adapter (`0:RESULT-...`): the total stands anywhere, values
    are plain decimals or integers (an integer is written with "%s")"""
    ms = []
    for _ in range(rng.randint(0, 3)):
        v = rng.choice([float(rng.randint(0, 9999)) / rng.choice([1, 2, 4, 8, 10, 100]), rng.randint(0, 10 ** 6)])
        ms.append((rng.choice(MV_CRITERIA), rng.choice(MV_UNITS), v))
    ms.insert(rng.randint(0, len(ms)), ('total', 'ms', float(rng.randint(1, 99999)) / rng.choice([1, 2, 8, 10, 1000])))
    return ms


def render_multivariate(dps):
    out = []
    for j, ms in enumerate(dps):
        for (crit, unit, v) in ms:
            text = repr(v)
            assert 'e' not in text and not text.startswith('-'), text
            if crit == 'total':
                out.append('%d:RESULT-total: %s' % (j, text))
            else:
                out.append('%d:RESULT-%s:%s: %s' % (j, crit, unit, text))
    return '\n'.join(out) + '\n'


def render_output(run, dps, trailing=None):
    if run.get('adapter') == 'Multivariate':
        return render_multivariate(dps)
    text = render_rebench_log(run['bench_name'], dps)
    for (crit, unit, v) in (trailing or []):      # criteria printed after the last run time belong to no data point
        text += '%s: %s: %s%s\n' % (run['bench_name'], crit, num_text(v), unit)
    return text


def written_order(ms):
    """a data point is written with its total last"""
    return [m for m in ms if m[0] != 'total'] + [m for m in ms if m[0] == 'total']


def render_rebench_log(bench, dps):
    out = []
    for ms in dps:
        for (crit, unit, v) in ms:
            if crit == 'total':
                out.append('%s: iterations=1 runtime: %sms' % (bench, num_text(v)))
            else:
                out.append('%s: %s: %s%s' % (bench, crit, num_text(v), unit))
    return '\n'.join(out) + '\n'


PERF_REPORT = "# c\n     7.20%  exe  binary  [.] Foo_bar\n            |\n            ---Foo_bar\n               main\n\n"
PERF_JSON = '[{"p": 7.2, "m": "Foo_bar", "t": ["Foo_bar", "main"]}]'

# ---------------------------------------------------------------- scenario
def gen_config(rng, opts=None):
    """A configuration with 1-3 experiments over 1-3 files.  Settings that change
    the run identity per experiment are avoided so that a run is identified by
    its command line (asserted in `probe`)."""
    o = dict(max_exp=3, builds=True, profile=False, env=False, max_inv=3, retries=True)
    o.update(opts or {})
    n_exec = rng.randint(1, 2)
    n_suite = rng.randint(1, 2)
    executors = {}
    for e in range(n_exec):
        ex = {'path': '.', 'executable': 'exe%d' % e}
        if o['builds'] and rng.random() < 0.3:
            ex['build'] = ['make e%d' % e]
        if rng.random() < 0.3:
            ex['args'] = '-x%d' % e
        if rng.random() < 0.2:
            ex['description'] = 'executor %d' % e
        if o['env'] and rng.random() < 0.5:
            ex['env'] = {'LIB': '/opt/lib%d' % e}
        if rng.random() < 0.3:   # run details at executor level, as numbers, quoted numbers and with the '!' mark
            ex['invocations'] = rng.choice([rng.randint(1, o['max_inv']), '%d!' % rng.randint(1, o['max_inv']),
                                            '%d' % rng.randint(1, o['max_inv'])])
        if rng.random() < 0.15:
            ex['warmup'] = rng.choice([1, '1!', '2'])
        if rng.random() < 0.15:
            ex['iterations'] = rng.choice([2, '3!', '2'])
        if o['profile']:
            ex['profiler'] = {'perf': {}}
        executors['E%d' % e] = ex
    suites = {}
    for s in range(n_suite):
        benches = []
        for b in range(rng.randint(1, 2)):
            name = 'B%d%d' % (s, b)
            det = {}
            if rng.random() < 0.3:
                det['extra_args'] = rng.choice(['x', '7', 'a b', 6, 2.5, '--mode\tfast', 'trail  ', 'ünï'])
            if rng.random() < 0.2:
                det['warmup'] = rng.randint(0, 3)
            if rng.random() < 0.2:
                det['invocations'] = rng.randint(1, o['max_inv'])
            benches.append({name: det} if det else name)
        su = {'gauge_adapter': 'Multivariate' if (not o['profile'] and rng.random() < 0.15) else 'RebenchLog',
              'command': '%(benchmark)s c%(cores)s i%(input)s v%(variable)s t%(tag)s w%(warmup)s n%(invocation)s',
              'benchmarks': benches}
        # variable values include the falsy ones: 0, 0.0, False (a run with input size 0 is a run like any other)
        if rng.random() < 0.5:
            su['input_sizes'] = rng.choice([[1], [1, 2], ['s', 'l'], [0, 10], [0], [0.0, 2.5], ['a\tb', 'c'], ['ü', 'x ']])
        if rng.random() < 0.3:
            su['cores'] = rng.choice([[1], [1, 4], [2], [0], [0, 2]])
        if rng.random() < 0.3:
            su['variable_values'] = rng.choice([['a'], ['a', 'b'], [0, 1], [False, 'x'], [0], ['v\tw'], [' lead', 'trail ']])
        if rng.random() < 0.2:
            su['tags'] = rng.choice([['t1'], ['t1', 't2'], ['t\t1', 'plain'], ['zeta', 'alpha', 'Mid']])
        if rng.random() < 0.6:
            su['warmup'] = rng.randint(0, 3)
        if rng.random() < 0.5:
            su['invocations'] = rng.randint(1, o['max_inv'])
        if o['retries'] and rng.random() < 0.4:
            su['retries_after_failure'] = rng.choice([0, 1, 2, 3, 8])
        if rng.random() < 0.3:   # timeouts (and only timeouts) of such runs are tolerated
            su['ignore_timeouts'] = True
            if rng.random() < 0.5:
                su['max_invocation_time'] = rng.choice([60, 600])
        if o['builds'] and rng.random() < 0.3:
            su['build'] = ['make s%d' % s] if rng.random() < 0.7 else ['make shared']
        if rng.random() < 0.3:    # the suite's own location: equal to / different from the executor's path
            su['location'] = rng.choice(['.', 'sub%d' % s, '/opt/bench/s%d' % s])
        if rng.random() < 0.2:
            su['description'] = 'suite %d' % s
        if o['env'] and rng.random() < 0.5:
            su['env'] = {'HOME_BIN': rng.choice(['~/bin', '/usr/bin', '~', 'x:~/y']), 'K': 'v%d' % s}
        suites['S%d' % s] = su
    n_exp = rng.randint(1, o['max_exp'])
    file_mode = rng.choice(['default', 'shared', 'separate', 'mixed'])
    experiments = {}
    for x in range(n_exp):
        ex = {'suites': sorted(rng.sample(sorted(suites), rng.randint(1, n_suite))),
              'executions': sorted(rng.sample(sorted(executors), rng.randint(1, n_exec)))}
        if file_mode == 'shared':
            ex['data_file'] = 'shared.data'
        elif file_mode == 'separate':
            ex['data_file'] = 'x%d.data' % x
        elif file_mode == 'mixed' and rng.random() < 0.5:
            ex['data_file'] = rng.choice(['m0.data', 'm1.data'])
        if o['profile'] and rng.random() < 0.4:
            ex['action'] = 'profile'
            if 'data_file' in ex:   # one file cannot serve a profile and a benchmark experiment
                ex['data_file'] += '.prof'
        experiments['X%d' % x] = ex
    runs_inv = rng.randint(1, o['max_inv'])
    cfg = {'default_experiment': 'all', 'default_data_file': 'default.data',
           'runs': {'invocations': rng.choice([runs_inv, runs_inv, '%d!' % runs_inv, '%d' % runs_inv])},
           'benchmark_suites': suites, 'executors': executors, 'experiments': experiments}
    if rng.random() < 0.3:
        cfg['runs']['iterations'] = rng.randint(1, 5)
    return cfg


def exp_file(cfg, xname):
    ex = cfg['experiments'][xname]
    if ex.get('action') == 'profile':
        return ex.get('data_file') or (cfg.get('default_data_file', 'rebench.data') + '.profiles')
    return ex.get('data_file') or cfg.get('default_data_file', 'rebench.data')


class Probe(object):
    """what the real configuration compiler makes of a configuration: the runs, and per run what
    the session model needs.  File names come from the generator's reading of the configuration."""

    def __init__(self, wd, cfg, argv_extra=()):
        from rebench.configurator import Configurator, load_config
        from rebench.persistence import DataStore
        from rebench.ui import TestDummyUI
        self.cfg = cfg
        conf = os.path.join(wd, 'test.conf')
        old = os.getcwd()
        os.chdir(wd)
        try:
            ui = TestDummyUI()
            ds = DataStore(ui)
            opt = rb_main.ReBench().shell_options().parse_args(['-D', conf] + list(argv_extra))
            exp_name, exp_filter = rb_main.ReBench.determine_exp_name_and_filters(opt.exp_filter)
            try:
                c = Configurator(load_config(conf), ds, ui, opt, None, exp_name, opt.data_file, None, exp_filter,
                                 opt.machine)
            except rb_main.UIError as e:      # the schema rejects the generated document: not a scenario
                raise ValueError('configuration rejected: %s' % str(e.message)[:200])
            runs = c.get_runs()
            exps = c.get_experiments()
        finally:
            os.chdir(old)
        self.files = []
        keyed = {}
        for xname, exp in exps.items():
            fn = exp_file(cfg, xname)
            if fn not in self.files:
                self.files.append(fn)
            for run in exp.runs:
                keyed.setdefault(run.cmdline(), {'run': run, 'files': []})
                if self.files.index(fn) not in keyed[run.cmdline()]['files']:
                    keyed[run.cmdline()]['files'].append(self.files.index(fn))
        if len(keyed) != len(runs):
            raise ValueError('command lines do not identify runs')
        self.runs = []
        self.run_objs = []
        self.builds = []
        self.benches = []
        for cmd in sorted(keyed):
            run = keyed[cmd]['run']
            b = []
            for bc in (run.benchmark.suite.executor.build, run.benchmark.suite.build):
                if bc:
                    ident = (bc.command, bc.location)
                    if ident not in self.builds:
                        self.builds.append(ident)
                    b.append(self.builds.index(ident))
            bk = (run.benchmark.name, run.benchmark.suite.executor.name, run.benchmark.suite.name,
                  str(run.benchmark.extra_args), run.benchmark.suite.executor.action)
            if bk not in self.benches:
                self.benches.append(bk)
            self.run_objs.append(run)
            self.runs.append({
                'cmd': cmd, 'cols': run.as_str_list(0)[:-1], 'bench': self.benches.index(bk),
                'bench_name': run.benchmark.name,
                'invocations': run.invocations, 'warmup': run.warmup_iterations or 0,
                'retries': run.retries_after_failure or 0, 'files': sorted(keyed[cmd]['files']), 'builds': b,
                'profile': run.is_profiling(), 'iterations': run.iterations,
                'rd_invocations': run.benchmark.run_details.invocations,
                'rd_warmup': run.benchmark.run_details.warmup,
                'ignore_timeouts': bool(run.ignore_timeouts),
                'adapter': run.get_gauge_adapter_name() if not run.is_profiling() else 'Perf',
                'variables': run.benchmark.variables.as_dict(),
            })
        self.by_cols = {}
        self.by_joined = {}      # the run columns as they stand in a data line (a column may contain a tab)
        for i, r in enumerate(self.runs):
            self.by_cols.setdefault(tuple(r['cols']), []).append(i)
            self.by_joined.setdefault('\t'.join(r['cols']), []).append(i)

    def run_index_of_cmd(self, cmdline_template):
        for i, r in enumerate(self.runs):
            if r['cmd'] == cmdline_template:
                return i
        return None


_INV = re.compile(r' n(\d+)( .*)?$')


def classify_start(probe, rec):
    """a process start -> ['b', build] | ['r', run, inv] | ['report', ...] | ['?', text]"""
    args = rec['args']
    if args == '/bin/sh':
        script = rec.get('stdin') or ''
        i = build_index(probe, script, rec.get('cwd'))
        return ['b', i] if i is not None else ['?', 'build:' + script]
    text = args
    if text.startswith('perf '):
        if ' report ' in text or text.startswith('perf report'):
            return ['report']
        text = text.split('--output=profile.perf ', 1)[-1].strip()
    m = _INV.search(text)
    if not m:
        return ['?', args]
    inv = int(m.group(1))
    # The identity string of a run is its command line with the invocation placeholder left in.  A start
    # is recognised by putting the number in place of the placeholder text -- no %-formatting here, so the
    # mapping does not depend on how ReBench treats '%' in templates or substituted values (that is C03).
    for i, r in enumerate(probe.runs):
        if r['cmd'].replace('%(invocation)s', str(inv)) == text:
            return ['r', i, inv]
    for i, r in enumerate(probe.runs):     # trees that format the identity string a second time
        try:
            if r['cmd'] % {'invocation': inv} == text:
                return ['r', i, inv]
        except (TypeError, ValueError, KeyError):
            pass
    return ['?', args]


def build_index(probe, script, cwd):
    """a build command is identified by its text *and* its location (two suites may share the text)"""
    cands = [i for i, (cmd, _loc) in enumerate(probe.builds) if cmd == script]
    if len(cands) <= 1:
        return cands[0] if cands else None
    for i in cands:
        loc = probe.builds[i][1]
        if loc is not None and cwd is not None and os.path.abspath(os.path.expanduser(loc)) == os.path.abspath(cwd):
            return i
    return cands[0]


def gen_outputs(rng, probe, fail_rate=0.15):
    """deterministic harness: per run, per invocation 1..N+2: None (fails) or data points"""
    table = []
    for r in probe.runs:
        per = []
        n_extra = rng.randint(0, 3)
        n_dp = rng.randint(1, 5)
        if rng.random() < 0.15:      # many iterations: ReBench's log shows only the last 20, the file gets them all
            n_dp = rng.choice([19, 20, 21, 22, 40, 41, 60])
            n_extra = rng.randint(0, 1)
        dead = rng.random() < fail_rate
        fail_at = rng.randint(1, r['invocations'] + 1) if dead else None
        for inv in range(1, r['invocations'] + 3):
            if fail_at is not None and inv == fail_at:
                per.append(None)
            elif r['profile']:
                per.append([[('total', '', 0.0)]])
            elif r.get('adapter') == 'Multivariate':
                per.append([gen_mv_dp(rng)])
            else:
                per.append([gen_dp(rng, n_extra) for _ in range(n_dp)])
        table.append(per)
    return table


CRASH_DPS = [[('mem', 'kb', 77.0), ('total', 'ms', 7.5)], [('total', 'ms', 8.0)]]
FAIL_STYLES = ['rc', 'rc', 'garbage', 'rc+data:1', 'rc+data:2', 'rc+data:139', 'rc+data:-11', 'rc+data:-9']


def build_raw(rng, probe, outputs):
    """what every process does: exit code and the data points its output parses to.  A failing invocation
    exits non-zero without output, prints garbage and exits 0, or crashes (exit 1, 2, 139, -11) or is
    killed by the time-out (-9) after having printed results for some iterations."""
    raw = []
    for i, per in enumerate(outputs):
        row = []
        for o in per:
            if o is not None:
                row.append({'rc': 0, 'dps': o})
                if probe.runs[i].get('adapter') == 'RebenchLog' and rng.random() < 0.15:
                    row[-1]['trailing'] = [(rng.choice(CRITERIA[:6]), rng.choice(UNITS), gen_value(rng))
                                           for _ in range(rng.randint(1, 2))]
            elif probe.runs[i]['profile']:
                row.append({'rc': rng.choice([1, -9]), 'dps': [[('total', '', 0.0)]]})   # perf ignores the output
            else:
                style = rng.choice(FAIL_STYLES)
                if style == 'rc':
                    row.append({'rc': 1, 'dps': []})
                elif style == 'garbage':
                    row.append({'rc': 0, 'dps': []})
                elif probe.runs[i].get('adapter') == 'Multivariate':
                    row.append({'rc': int(style.split(':')[1]), 'dps': [[('bar', 'ms', 7.5), ('total', 'ms', 8.5)]]})
                else:
                    row.append({'rc': int(style.split(':')[1]), 'dps': [list(d) for d in CRASH_DPS]})
        raw.append(row)
    return raw


def recorded_by_spec(o, faulty, ignore_timeouts):
    """the property's 'successful invocation', restated: exit 0 -- or any exit but 127 with --faulty, or the
    time-out code for a run that ignores time-outs -- and output that parses to data"""
    ok = o['rc'] == 0 or (o['rc'] != 127 and faulty) or (o['rc'] == -9 and ignore_timeouts)
    return bool(ok and o['dps'])


def effective_outputs(probe, raw, faulty):
    return [[(o['dps'] if recorded_by_spec(o, faulty, probe.runs[i]['ignore_timeouts']) else None) for o in per]
            for i, per in enumerate(raw)]


def make_script(probe, outputs, build_ok, stop=None, log=None, fail_style=None, raw=None):
    """script for drive.run_session: deterministic in (run, invocation); `stop` = k-th start is interrupted"""
    counter = {'n': 0}

    def script(rec):
        counter['n'] += 1
        if stop is not None and counter['n'] == stop:
            return drive.Outcome(interrupt=True)
        # stdin of a build is written after Popen returns: classify builds by args only here
        if rec['args'] == '/bin/sh':
            return _BuildOutcome(probe, build_ok)
        c = classify_start(probe, rec)
        if c[0] == 'report':
            return drive.Outcome(0, PERF_REPORT)
        if c[0] != 'r':
            return drive.Outcome(1, 'unexpected start')
        if raw is not None:
            ro = raw[c[1]][c[2] - 1] if c[2] - 1 < len(raw[c[1]]) else {'rc': 1, 'dps': []}
            if probe.runs[c[1]]['profile']:
                return drive.Outcome(ro['rc'], '')
            if not ro['dps']:
                return drive.Outcome(ro['rc'], 'nothing to see here\n' if ro['rc'] == 0 else 'boom\n')
            return drive.Outcome(ro['rc'], render_output(probe.runs[c[1]], ro['dps'], ro.get('trailing')))
        o = outputs[c[1]][c[2] - 1] if c[2] - 1 < len(outputs[c[1]]) else None
        if o is None:
            style = (fail_style or {}).get((c[1], c[2]), 'rc')
            if style == 'garbage' and not probe.runs[c[1]]['profile']:   # perf ignores the output
                return drive.Outcome(0, 'nothing to see here\n')
            if style.startswith('rc+data') and not probe.runs[c[1]]['profile']:
                # a crash after printing parseable results for some iterations: a failed invocation all the same
                rc = {'rc+data': 1, 'rc+data:2': 2, 'rc+data:139': 139, 'rc+data:-11': -11}.get(style, 1)
                b = probe.runs[c[1]]['bench_name']
                return drive.Outcome(rc, '%s: mem: 77kb\n%s: iterations=1 runtime: 7.5ms\n%s: iterations=1 runtime: 8ms\n'
                                     % (b, b, b))
            return drive.Outcome(1, 'boom\n')
        if probe.runs[c[1]]['profile']:
            return drive.Outcome(0, '')
        return drive.Outcome(0, render_rebench_log(probe.runs[c[1]]['bench_name'], o))
    return script


class _BuildOutcome(drive.Outcome):
    """the build script arrives on stdin after the start; decide the return code when it is known"""

    def __init__(self, probe, build_ok):
        drive.Outcome.__init__(self, 0, '')
        self._probe = probe
        self._ok = build_ok
        self._rec = None


def _patch_fakeproc_for_builds():
    """_FakeProc.communicate reads outcome.rc after stdin has been recorded: let a build outcome
    decide then."""
    orig = drive._FakeProc.communicate

    def communicate(self):
        o = self.outcome
        if isinstance(o, _BuildOutcome):
            script = self.stdin.data.decode('utf-8', 'replace')
            i = build_index(o._probe, script, self.rec.get('cwd'))
            ok = True if i is None or i >= len(o._ok) else o._ok[i]
            o.rc = 0 if ok else 1
            o.out = '' if ok else 'build failed\n'
        return orig(self)
    if not getattr(drive._FakeProc, '_persist_patched', False):
        drive._FakeProc.communicate = communicate
        drive._FakeProc._persist_patched = True


_patch_fakeproc_for_builds()


class Observed(object):
    pass


def run_real_session(wd, probe, argv, script, random_choice=None, cpu_count=1, selection=()):
    """one real session; returns Observed: status, starts (classified), run order, file texts"""
    conf = os.path.join(wd, 'test.conf')
    order = {}
    orig = rb_main.ReBench.execute_experiment

    def grab(self, runs, *a, **kw):
        order['runs'] = [probe.run_index_of_cmd(r.cmdline()) for r in runs]
        order['loaded'] = {probe.run_index_of_cmd(r.cmdline()): (r.completed_invocations,
                                                                 r.get_number_of_data_points()) for r in runs}
        return orig(self, runs, *a, **kw)
    rb_main.ReBench.execute_experiment = grab
    disk = []
    reloaded = []
    from rebench.model.run_id import RunId
    orig_loaded = RunId.loaded_data_point

    def spy_loaded(self, data_point, warmup):
        try:
            k = probe.run_index_of_cmd(self.cmdline())
            for m in data_point.get_measurements():
                reloaded.append((k, m.invocation, m.iteration, m.criterion, m.unit, m.value))
        except Exception:  # noqa  (profile data has no measurements)
            pass
        return orig_loaded(self, data_point, warmup)
    RunId.loaded_data_point = spy_loaded

    def snapshotting(rec):
        # what is on disk while this process "runs": everything persisted before must have been flushed
        disk.append([read_text(os.path.join(wd, f)) for f in probe.files])
        return script(rec)
    try:
        import datetime as _dt
        launched_at = _dt.datetime.now(_dt.timezone.utc)
        # options, the configuration, then the names of selected experiments (argparse wants them adjacent)
        res = drive.run_session(wd, ([conf] + list(argv)) if not selection else (list(argv) + [conf] + list(selection)),
                                snapshotting, random_choice=random_choice,
                                cpu_count=cpu_count)
        returned_at = _dt.datetime.now(_dt.timezone.utc)
        n_starts_at_return = len(res.starts)
        import threading as _th
        alive_at_return = [t.name for t in _th.enumerate() if t.name.startswith('BenchmarkThread') and t.is_alive()]
    finally:
        rb_main.ReBench.execute_experiment = orig
        RunId.loaded_data_point = orig_loaded
        release_hanging()
        # a session is over when its threads are: never let workers of one session run into the next
        import threading
        leftover = []
        for t in threading.enumerate():
            if t is not threading.current_thread() and (t.name.startswith('BenchmarkThread')
                                                        or t.name.startswith('Subprocess')):
                try:
                    t.join(5)
                except RuntimeError:      # still being started
                    import time as _time
                    _time.sleep(0.05)
                    try:
                        t.join(5)
                    except RuntimeError:
                        pass
                if t.is_alive():
                    leftover.append(t.name)
    ob = Observed()
    ob.status = res.status()
    ob.crash = res.crash
    ob.exit = res.exit
    ob.starts = [classify_start(probe, s) for s in res.starts]
    ob.raw_starts = res.starts
    ob.kills = res.kills
    ob.order = order.get('runs')
    ob.loaded = order.get('loaded')
    ob.stdout = res.stdout
    ob.stderr = res.stderr
    ob.files = [read_text(os.path.join(wd, f)) for f in probe.files]
    ob.launched_at, ob.returned_at = launched_at, returned_at
    ob.disk_at_start = disk
    ob.reloaded = reloaded
    ob.threads_left = leftover
    ob.workers_alive_at_return = alive_at_return
    # processes started after the session had returned to its caller (workers that were not stopped)
    ob.late_starts = [classify_start(probe, x) for x in res.starts[n_starts_at_return:]]
    return ob


def read_text(path):
    if not os.path.exists(path):
        return ''
    with open(path, 'r', newline='', encoding='utf-8') as f:
        return f.read()


# ---------------------------------------------------------------- canonicalisation
def canon_lines(text, probe, profile_file=False):
    """real file text -> abstract lines as the model prints them (lists), plus the raw dicts of
    metadata lines for the oracle.  Lines are split at '\\n' only (what was written)."""
    out = []
    meta = []
    if text == '':
        return out, meta
    lines = text.split('\n')
    if lines[-1] == '':
        lines.pop()
    else:
        out.append(['?', 'no-final-newline'])
    for line in lines:
        if line.startswith('#!'):
            out.append(['S', 0])
        elif line.startswith('# Execution Start: '):
            out.append(['S', 1])
        elif line.startswith('# Environment: '):
            out.append(['S', 2])
        elif line.startswith('# Source: '):
            out.append(['S', 3])
        elif line == HEADER:
            out.append(['H'])
        elif line.startswith('# benchmark: '):
            i, js = line[len('# benchmark: '):].split('=', 1)
            d = json.loads(js)
            bk = (d.get('name'), d['suite']['executor'].get('name'), d['suite'].get('name'),
                  str(d.get('extra_args')), d['suite']['executor'].get('action'))
            out.append(['B', int(i), probe.benches.index(bk) if bk in probe.benches else -1])
            meta.append(('B', int(i), d))
        elif line.startswith('# run_id: '):
            i, js = line[len('# run_id: '):].split('=', 1)
            d = json.loads(js)
            k = probe.run_index_of_cmd(d.get('cmdline'))
            out.append(['R', int(i), d.get('benchmark_id'), -1 if k is None else k])
            meta.append(('R', int(i), d))
        elif line.startswith('#'):
            out.append(['?', line[:40]])
        else:
            cols = line.split('\t')
            if profile_file:
                # invocation, num_iterations, 9 run columns, run id, json
                if len(cols) >= 13 and cols[-2].isdigit():
                    ks = probe.by_joined.get('\t'.join(cols[2:-2]), [])
                    out.append(['M', int(cols[0]), 1, '0.000000' if cols[-1] == PERF_JSON else cols[-1], '', 'total',
                                ks[0] if len(ks) == 1 else -1, int(cols[-2])])
                    meta.append(('P', int(cols[1]), ks[0] if len(ks) == 1 else -1))
                else:
                    out.append(['?', 'profile-cols:%d' % len(cols)])
            elif len(cols) >= 15 and probe.by_joined.get('\t'.join(cols[5:-1])):
                ks = probe.by_joined.get('\t'.join(cols[5:-1]), [])
                try:
                    out.append(['M', int(cols[0]), int(cols[1]), cols[2], cols[3], cols[4],
                                ks[0] if len(ks) == 1 else -1, int(cols[-1])])
                except ValueError:
                    out.append(['?', 'cols:' + line[:60]])
            else:
                out.append(['?', 'cols:%d:%s' % (len(cols), line[:60])])
    return out, meta


def canon_segments(text, probe):
    """like canon_lines for the comment lines; everything between them (the measurement lines, whatever
    characters they contain) as one text blob ['D', text] -- compared with the model's rendering"""
    out = []
    if text == '':
        return out
    lines = text.split('\n')
    if lines[-1] == '':
        lines.pop()
    else:
        out.append(['?', 'no-final-newline'])
    for line in lines:
        if line.startswith('#') or line == HEADER:
            one, _m = canon_lines(line + '\n', probe)
            out += one
        elif out and out[-1][0] == 'D':
            out[-1][1] += line + '\n'
        else:
            out.append(['D', line + '\n'])
    return out


# ---------------------------------------------------------------- model ops
def meas_json(m):
    crit, unit, v = m
    if isinstance(v, bool) or not isinstance(v, float):
        return {'c': crit, 'u': unit, 'raw': '%s' % (v,)}
    return {'c': crit, 'u': unit, 'v': lib.frac(v)}


def scenario_op(op, probe, outputs, build_ok, specs, rt_k=None, rt_b=None):
    return {
        'op': op, 'nfiles': len(probe.files), 'cols': [r['cols'] for r in probe.runs],
        'runs': [{'key': i, 'bench': r['bench'], 'invocations': r['invocations'], 'retries': r['retries'],
                  'warmup': r['warmup'], 'files': r['files'], 'builds': r['builds']}
                 for i, r in enumerate(probe.runs)],
        'out': ([[{'rc': o['rc'], 'dps': [[meas_json(m) for m in dp] for dp in o['dps']]} for o in per]
                 for per in probe.raw] if getattr(probe, 'raw', None) is not None else
                [[None if o is None else [[meas_json(m) for m in dp] for dp in o] for o in per] for per in outputs]),
        'faulty': bool(getattr(probe, 'faulty', False)),
        'ignoreTimeouts': [bool(r.get('ignore_timeouts')) for r in probe.runs],
        'buildOk': list(build_ok),
        'sessions': [{'sched': s['sched'], 'order': s['order'], 'choices': s.get('choices', []),
                      'clean': bool(s.get('clean')),
                      **({'stop': s['stop']} if s.get('stop') is not None else {})} for s in specs],
        **({'rtK': rt_k} if rt_k is not None else {}), **({'rtB': rt_b} if rt_b is not None else {}),
    }


def choice_fn(stream):
    """random.choice replacement driven by a recorded stream (the model uses the same stream)"""
    state = {'i': 0}

    def choose(lst):
        c = stream[state['i']] if state['i'] < len(stream) else 0
        state['i'] += 1
        return lst[c % len(lst)]
    return choose


def value_fraction(text):
    """exact value of a decimal text"""
    return Fraction(text)
