"""Scenario driver shared by C04, C10 and C11 (DESIGN.md section 2.4).

A *scenario* is a JSON-able dict:

    {'runs': [ {'N': 2, 'retries': 0, 'warmup': None, 'ignore_timeouts': False,
                'exe': 0, 'excl': True, 'adapter': True, 'ebuild': None, 'sbuild': None}, ... ],
     'deco': {...}}                      # optional decoration (odd characters) for C10

and a *session* of it:

    {'sched': 'batch'|'round-robin'|'random', 'choices': [...], 'faulty': False, 'cpu': 1,
     'scripts': [[outcome, ...] per run], 'builds': {build id: rc}, 'argv': [...extra...]}

    outcome = {'rc': 0, 'dps': 2, 'marker': False}   |   {'oserror': 13}

Run i is benchmark `B<i>` of suite `S<i>` executed by executor `E<exe>`; the
command line is `./x<exe> B<i> <invocation>` so a start identifies its run and
carries the invocation number ReBench handed out.  Every data point a scripted
process prints carries the value `1000*k + j` (k-th start of that run in this
session, j-th data point) so that an independent reader of the data file knows
which start produced which line.
"""
import json
import os
import re
import threading
import time

import lib
import drive

from rebench import rebench as rb_main  # noqa: E402
from rebench import executor as rb_exec  # noqa: E402

DEFAULT_FAIL = {'rc': 1, 'dps': 0, 'marker': False}


# ---------------------------------------------------------------- configuration
def build_config(scn, workdir=None):
    deco = scn.get('deco') or {}
    runs = scn['runs']
    suites, execs = {}, {}
    per_exe = {}
    nsfx = deco.get('name_suffix', '')
    for i, r in enumerate(runs):
        bench = {'B%d' % i: _bench_details(r)}
        gauge = r.get('gauge') or 'RebenchLog'
        if r.get('custom') is not None:
            # a custom gauge adapter loaded from a file next to the configuration: {class name: file}
            gauge = {r['custom'].get('cls', 'MyAdapter'): 'adapter_%d.py' % r['custom'].get('variant', 0)}
        if not r.get('adapter', True) and not (r.get('custom') or {}).get('broken'):
            gauge = 'NoSuchThing'
        suite = {'gauge_adapter': gauge,
                 'command': '%(benchmark)s %(invocation)s' + deco.get('cmd_suffix', '')
                            + (' %(nosuchkey)s' if r.get('badcmd') else ''),
                 'benchmarks': [bench]}
        # settings at two configuration levels: the suite (general) and the benchmark (specific, wins);
        # `inherit_*`: only the suite level carries the effective value
        if r.get('inherit_retries'):
            suite['retries_after_failure'] = r.get('retries', 0)
        elif r.get('general_retries') is not None:
            suite['retries_after_failure'] = r['general_retries']
        if r.get('inherit_N'):
            suite['invocations'] = r['N']
        elif r.get('general_N') is not None:
            suite['invocations'] = r['general_N']
        if r.get('sbuild') is not None:
            suite['location'] = '.'
            suite['build'] = ['sbuild %d' % r['sbuild']]
        suites['S%d%s' % (i, nsfx)] = suite
        per_exe.setdefault(r['exe'], []).append('S%d%s' % (i, nsfx))
        # `exe` identifies the resolved executable (path/executable); executors may share the file name
        # (`file`) while living in different directories
        if r.get('file') is not None:
            e = {'path': 'dir%d' % r['exe'], 'executable': 'x%d' % r['file']}
        else:
            e = {'path': '.', 'executable': 'x%d' % r['exe']}
        if deco.get('env'):
            e['env'] = dict(deco['env'])
        if r.get('ebuild') is not None:
            # `ebuild_text`: executors in different directories may have textually identical build commands
            e['build'] = ['ebuild %d' % r.get('ebuild_text', r['ebuild'])]
        prev = execs.get('E%d%s' % (r['exe'], nsfx))
        if prev is not None and prev.get('build') and not e.get('build'):
            e['build'] = prev['build']
        execs['E%d%s' % (r['exe'], nsfx)] = e
    # an absolute data file: a worker thread that outlives its session can never write into some other cwd
    cfg = {'default_experiment': 'T',
           'default_data_file': os.path.join(os.path.abspath(workdir), 't.data') if workdir else 't.data',
           'benchmark_suites': suites, 'executors': execs,
           'experiments': {'T': {'executions': [{'E%d%s' % (x, nsfx): {'suites': ss}} for x, ss in sorted(per_exe.items())]}}}
    if scn.get('second_file_runs') is not None:
        # a second experiment with its OWN data file that contains some of the runs of the first one
        sub = {}
        for i in scn['second_file_runs']:
            sub.setdefault(runs[i]['exe'], []).append('S%d%s' % (i, nsfx))
        cfg['experiments']['T2'] = {
            'data_file': os.path.join(os.path.abspath(workdir), 't2.data') if workdir else 't2.data',
            'executions': [{'E%d%s' % (x, nsfx): {'suites': ss}} for x, ss in sorted(sub.items())]}
    if scn.get('two_experiments'):
        # the same runs belong to a second experiment that shares the data file; the session runs `all`
        import copy
        cfg['experiments']['T2'] = copy.deepcopy(cfg['experiments']['T'])
    return cfg


def _bench_details(r):
    d = {'execute_exclusively': bool(r.get('excl', True))}
    if not r.get('inherit_N'):
        d['invocations'] = r['N']
    if not r.get('inherit_retries'):
        d['retries_after_failure'] = r.get('retries', 0)
    if r.get('warmup') is not None:
        d['warmup'] = r['warmup']
    if r.get('ignore_timeouts'):
        d['ignore_timeouts'] = True
    if r.get('maxtime') is not None:
        d['max_invocation_time'] = r['maxtime']
    if r.get('pif') is not None:
        d['parallel_interference_factor'] = r['pif']
    return d


CUSTOM_ADAPTER = '''# custom gauge adapter written by the verification harness (variant %(variant)d)
import re
from rebench.interop.adapter import GaugeAdapter, OutputNotParseable, ResultsIndicatedAsInvalid
from rebench.model.data_point import DataPoint
from rebench.model.measurement import Measurement


class %(cls)s(GaugeAdapter):
    OFFSET = %(offset)r
    re_total = re.compile(r"^(\\S+): iterations=1 runtime: (\\d+)ms")
    re_alloc = re.compile(r"^(\\S+): alloc: (\\d+)kb")

    def __init__(self, include_faulty, executor):
        GaugeAdapter.__init__(self, include_faulty, executor)
        self._other_error_definitions = [re.compile("FAILED")]

    def parse_data(self, data, run_id, invocation):
        iteration = 1
        data_points = []
        current = DataPoint(run_id)
        for line in data.split("\\n"):
            if self.check_for_error(line):
                raise ResultsIndicatedAsInvalid("Output of bench program indicated error.")
            m = self.re_alloc.match(line)
            if m:
                current.add_measurement(Measurement(invocation, iteration, float(m.group(2)), "kb", run_id, "alloc"))
                continue
            m = self.re_total.match(line)
            if m:
                current.add_measurement(Measurement(invocation, iteration, float(m.group(2)) + self.OFFSET, "ms",
                                                    run_id, "total"))
                data_points.append(current)
                current = DataPoint(run_id)
                iteration += 1
        if not data_points:
            raise OutputNotParseable(data)
        return data_points
'''


def write_custom_adapters(workdir, scn):
    for r in scn['runs']:
        c = r.get('custom')
        if c is not None:
            v = c.get('variant', 0)
            with open(os.path.join(workdir, 'adapter_%d.py' % v), 'w') as f:
                # `broken`: the file does not define the class the configuration names -> the adapter is unknown
                cls = c.get('cls', 'MyAdapter')
                f.write(CUSTOM_ADAPTER % {'variant': v, 'cls': ('NotThe' + cls) if c.get('broken') else cls,
                                          'offset': 0.25 * v})


RUN_RE = re.compile(r'(?:^|\s)\S*/x(\d+) B(\d+) (\d+)')


def time_wrapper(args):
    """how a command line is wrapped by the Time adapter: '' | 'posix' | 'formatted:<binary>'"""
    if not isinstance(args, str):
        return ''
    m = re.match(r'^(\S*time) (-p|-f) ', args)
    if not m:
        return ''
    return 'posix' if m.group(2) == '-p' else 'formatted:' + m.group(1)


def render_time_output(k, o, wrapper):
    """a `time` binary prints what its command line asks for: the custom format (-f) or the POSIX one (-p)"""
    lines = []
    for j in range(1, min(1, o.get('dps', 0)) + 1):
        if wrapper.startswith('formatted'):
            lines += ['max rss (kb): %d' % (7 * j), 'wall-time (secounds): %d.%03d' % (k, j)]
        else:
            lines += ['real %d.%03d' % (k, j), 'user 0.50', 'sys 0.25']
    if o.get('marker'):
        lines.append('Error: simulated')
    return ''.join(l + '\n' for l in lines)


def render_jmh_output(k, o):
    """a JMH log: iteration lines, `# Run complete`, and the summary table (whose header contains the word Error)"""
    lines = ['# JMH version: 1.21', '# Benchmark: bench.B', '# Warmup: none']
    for j in range(1, o.get('dps', 0) + 1):
        lines.append('Iteration %3d: %d.000 ms/op' % (j, 1000 * k + j))
    if o.get('marker'):
        lines.insert(o.get('marker_pos', 1) and len(lines) or 0, o.get('marker_text') or 'Error: simulated')
    lines.append('# Run complete. Total time: 00:00:01')
    lines.append('Benchmark   Mode  Cnt  Score   Error  Units')
    return ''.join(l + '\n' for l in lines)


def render_output(i, k, o, deco=None):
    """what the k-th started process of run i prints for outcome o"""
    deco = deco or {}
    lines = []
    noise = deco.get('noise')
    if noise:
        lines.append(noise)
    for j in range(1, o.get('dps', 0) + 1):
        lines.append('B%d: alloc: %dkb' % (i, 7 * j))
        lines.append('B%d: iterations=1 runtime: %dms' % (i, 1000 * k + j))
    if o.get('marker'):
        pos = o.get('marker_pos', 1)
        text = o.get('marker_text') or 'Error: simulated'
        if pos == 0:
            lines.insert(0, text)
        elif pos == 1:
            lines.append(text)
        else:
            lines.insert(len(lines) // 2, text)
    if o.get('partial'):
        lines.append('B%d: iterations=1 runti' % i)   # torn last line of a killed process
    return ''.join(l + '\n' for l in lines)


class Script(object):
    """script function of a session: answers starts from the per-run outcome lists"""

    def __init__(self, scn, sess):
        self.scn = scn
        self.sess = sess
        self.count = {}
        self.log = []          # (kind, run or build id, invocation) in start order
        self.lock = threading.Lock()
        self.gate = None       # thread controller (parallel scenarios)
        self.unknown = []
        self.runaway = []      # runs started more often than N + 40 times
        self.build_runs = {}   # build key -> how often it ran
        self.unbuilt_starts = []   # benchmark starts whose build had not run in this session
        self.commands = []     # [run, invocation, time wrapper] of every benchmark start
        self.probes = []       # argv[0] of the Time adapter's availability probes
        # builds with identical text are told apart by the directory they run in
        self.dir_build = dict((r['exe'], r['ebuild']) for r in scn['runs']
                              if r.get('file') is not None and r.get('ebuild') is not None
                              and r.get('ebuild_text') is not None)

    def __call__(self, rec):
        args = rec['args']
        if args == '/bin/sh':
            # a build: stdin is not yet written at Popen time; the outcome is fixed per build id at communicate
            return _BuildOutcome(self, rec)
        m = RUN_RE.search(args if isinstance(args, str) else '')
        if not m:
            with self.lock:
                self.unknown.append(str(args)[:200])
            return drive.Outcome(1, '')
        i, inv = int(m.group(2)), int(m.group(3))
        with self.lock:
            k = self.count.get(i, 0) + 1
            self.count[i] = k
            self.log.append(('start', i, inv))
            rec['run'], rec['inv'], rec['k'] = i, inv, k
            wrapper = time_wrapper(args)
            self.commands.append([i, inv, wrapper])
        # a run that is restarted without bound must not hang the check: beyond the cap the process "is missing"
        cap = self.scn['runs'][i]['N'] + 40
        if k > cap:
            with self.lock:
                if i not in self.runaway:
                    self.runaway.append(i)
            return drive.Outcome(127, '')
        sc = self.sess['scripts'][i] if i < len(self.sess['scripts']) else []
        o = sc[k - 1] if k <= len(sc) else DEFAULT_FAIL
        if self.gate is not None:
            self.gate.block(i, inv)
        if self.sess.get('needs_build'):
            # build products do not survive a session: a benchmark whose executor / suite build has not run in
            # THIS session cannot work
            r = self.scn['runs'][i]
            need = []
            if r.get('ebuild') is not None:
                need.append('e%d' % r['ebuild'])
            if r.get('sbuild') is not None:
                need.append('s%d' % r['sbuild'])
            with self.lock:
                missing = [b for b in need if not self.build_runs.get(b)]
            if missing:
                rec['unbuilt'] = missing
                self.unbuilt_starts.append([i, inv, missing])
                return drive.Outcome(1, 'not built: %s\n' % ' '.join(missing))
        if 'oserror' in o:
            return drive.Outcome(oserror=o['oserror'])
        if o.get('interrupt'):
            return drive.Outcome(interrupt=True)
        if self.scn['runs'][i].get('gauge') == 'Time':
            return drive.Outcome(o['rc'], render_time_output(k, o, wrapper))
        if self.scn['runs'][i].get('gauge') == 'JMH':
            return drive.Outcome(o['rc'], render_jmh_output(k, o))
        return drive.Outcome(o['rc'], render_output(i, k, o, self.scn.get('deco')))


class TimeProbe(object):
    """stands in for the `subprocess` module inside rebench.interop.time_adapter: the availability probes
    (`/usr/bin/time -f ...`, `/opt/local/bin/gtime -f ...`) are answered from the session's `time_probe`
    ({binary: return code or 'oserror'}) and are scheduling points of the thread controller"""
    PIPE = -1
    STDOUT = -2

    def __init__(self, script):
        self.script = script

    def call(self, argv, **_kw):
        name = argv[0] if isinstance(argv, (list, tuple)) else str(argv).split(' ')[0]
        with self.script.lock:
            self.script.probes.append(name)
            n = len(self.script.probes)
        if self.script.gate is not None:
            self.script.gate.block(-n)
        ans = (self.script.sess.get('time_probe') or {}).get(name, 0)
        if ans == 'oserror':
            raise OSError(2, 'No such file or directory')
        return int(ans)


class _BuildOutcome(drive.Outcome):
    """outcome of `/bin/sh` with the build script on stdin: decided when the stdin is known"""

    def __init__(self, script, rec):
        drive.Outcome.__init__(self, 0, '')
        self._script = script
        self._rec = rec

    @property
    def rc(self):
        return self._rc_value()

    @rc.setter
    def rc(self, _v):
        pass

    def _rc_value(self):
        text = self._rec.get('stdin') or ''
        m = re.search(r'([es])build (\d+)', text)
        if not m:
            return 0
        key = '%s%s' % (m.group(1), m.group(2))
        cm = re.search(r'dir(\d+)/?$', str(self._rec.get('cwd') or ''))
        if m.group(1) == 'e' and cm and int(cm.group(1)) in self._script.dir_build:
            key = 'e%d' % self._script.dir_build[int(cm.group(1))]
        first = False
        with self._script.lock:
            if not self._rec.get('logged'):
                self._rec['logged'] = first = True
                self._script.log.append(('build', key, 0))
                n_before = self._script.build_runs.get(key, 0)
                self._script.build_runs[key] = n_before + 1
                self._rec['nth'] = n_before + 1
        if first and self._script.gate is not None:
            # a running build is a scheduling point: other workers go on (or wait for the build lock) meanwhile
            self._script.gate.block(-1000 - len(self._script.log))
        rc = int((self._script.sess.get('builds') or {}).get(key, 0))
        if self._script.sess.get('builds_once') and self._rec.get('nth', 1) > 1:
            rc = 1      # like `mkdir`: a build that cannot be repeated fails the second time
        return rc


# ---------------------------------------------------------------- one session
def run_session(workdir, scn, sess, timeout_guard=None):
    """run one session of the scenario in workdir (config written on first use); returns observation dict"""
    conf = os.path.join(workdir, 'test.conf')
    if not os.path.exists(conf):
        drive.write_config(workdir, build_config(scn, workdir))
        write_custom_adapters(workdir, scn)
    script = Script(scn, sess)
    grabbed = {}
    orig = rb_main.ReBench.execute_experiment

    def wrapped(self, runs, *a, **kw):
        grabbed['runs'] = runs
        grabbed['order'] = [_run_index(r) for r in runs]
        grabbed['loaded'] = dict((_run_index(r), (r.completed_invocations, r.get_number_of_data_points()))
                                 for r in runs)
        return orig(self, runs, *a, **kw)

    argv = [conf] + (['all'] if scn.get('two_experiments') or scn.get('second_file_runs') is not None else []) \
        + list(sess.get('argv') or [])
    if sess.get('sched') and sess['sched'] != 'batch':
        argv += ['-s', sess['sched']]
    if sess.get('faulty'):
        argv += ['-f']
    choices = list(sess.get('choices') or [])
    pos = {'i': 0}
    picked = []

    def choice(seq):
        c = choices[pos['i']] if pos['i'] < len(choices) else 0
        pos['i'] += 1
        idx = c % len(seq)
        picked.append(idx)
        return seq[idx]

    controller = None
    if sess.get('schedule') is not None:
        controller = Controller(script, sess['schedule'])
        controller.install()
        script.gate = controller
        controller.start()
    rb_main.ReBench.execute_experiment = wrapped
    ta_saved = None
    try:
        from rebench.interop import time_adapter as ta
        ta_saved = (ta, ta.subprocess)
        ta.subprocess = TimeProbe(script)
        # the probe result is class state: every session of this process starts like a fresh ReBench process
        ta.TimeAdapter._completed_time_availability_check = False
        ta.TimeAdapter._use_formatted_time = False
        ta.TimeAdapter._time_bin = None
    except (ImportError, AttributeError):
        ta_saved = None
    try:
        res = drive.run_session(workdir, argv, script, cpu_count=sess.get('cpu', 1), random_choice=choice)
    finally:
        rb_main.ReBench.execute_experiment = orig
        if ta_saved is not None:
            ta_saved[0].subprocess = ta_saved[1]
        if controller is not None:
            controller.snapshot_end()
            controller.stop()
    obs = {'status': res.status(), 'exit': res.exit, 'crash': list(res.crash) if res.crash else None,
           'traceback': ('Traceback (most recent call last)' in res.stdout + res.stderr),
           'mentions_missing_adapter': ("Couldn't find gauge adapter" in res.stdout + res.stderr),
           'order': grabbed.get('order'), 'loaded': grabbed.get('loaded'),
           'log': [list(x) for x in script.log], 'unknown_starts': script.unknown,
           'commands': script.commands, 'probes': script.probes, 'runaway': script.runaway, 'unbuilt_starts': script.unbuilt_starts,
           'nchoices': pos['i'], 'out_tail': (res.stdout + res.stderr)[-600:]}
    if controller is not None:
        obs['released'] = controller.released
        obs['steps'] = controller.steps
        obs['ctl_error'] = controller.error
        obs['T'] = controller.T
        obs['at_end'] = controller.at_end
        obs['soft_releases'] = controller.soft_releases + controller.lock_waits
        obs['build_runs'] = dict(script.build_runs)
        obs['chunks'] = controller.chunks if controller._orig_acquire is not None else None
    final = {}
    for r in grabbed.get('runs') or []:
        tc = getattr(r, '_termination_check', None)
        final[_run_index(r)] = {
            'maxInv': r.completed_invocations, 'samples': r.get_number_of_data_points(),
            'consec': getattr(tc, '_consecutive_erroneous_executions', None),
            'failed': getattr(tc, '_failed_execution_count', None),
            'failNow': getattr(tc, '_fail_immediately', None),
            'exeMissing': bool(getattr(r, 'executable_missing', False)),
            'N': r.invocations}
    obs['final'] = final
    obs['file'] = read_rows(os.path.join(workdir, 't.data'))
    if scn.get('second_file_runs') is not None:
        obs['raw_files'] = dict((name, drive.read_data_file(os.path.join(workdir, name))) for name in ('t.data', 't2.data'))
    # free scripted processes that still wait for a kill (interrupt scenarios)
    return obs


def _run_index(r):
    return int(r.benchmark.name[1:])


def read_rows(path):
    """independent reader: measurement rows in file order as [run index, invocation, iteration, criterion, value]"""
    d = drive.read_data_file(path)
    rows = []
    for cols in d['rows']:
        try:
            name = cols[5]
            rows.append([int(name[1:]) if name[:1] == 'B' and name[1:].isdigit() else -1,
                         int(cols[0]), int(cols[1]), cols[4], float(cols[2])])
        except (ValueError, IndexError):
            rows.append([-2, cols])
    return {'rows': rows, 'headers': d['headers'], 'nsessions': sum(1 for c in d['comments'] if c.startswith('#!'))}


# ---------------------------------------------------------------- thread controller
class Controller(threading.Thread):
    """Deterministic release of scripted processes for the parallel scheduler.

    Every scripted benchmark process blocks in `block(run)` when it is started.
    The controller waits until the system is quiescent (all worker threads of the
    parallel scheduler have been started and every one of them is blocked in a
    process or has ended), then releases exactly one blocked process, chosen by
    the next schedule entry (index into the blocked runs sorted by run index),
    and waits for quiescence again.  Worker threads are counted by a subclass of
    `rebench.executor.BenchmarkThread` installed for the session (no ReBench
    source is touched).  Anything unexpected (timeouts, missing patch point) is
    reported in `error` and becomes an InfraError, never a finding.
    """

    def __init__(self, script, schedule):
        threading.Thread.__init__(self, name='verif-controller', daemon=True)
        self.script = script
        self.schedule = list(schedule)
        self.cv = threading.Condition()
        self.blocked = {}      # run -> Event
        self.released = []     # runs in release order
        self.steps = []        # ['start', run] / ['finish', run] in controlled order
        self.error = None
        self.T = None          # number of worker threads the parallel scheduler creates
        self.started = 0
        self.exited = 0
        self._stop = False
        self._pos = 0
        self._orig_cls = None
        self._orig_acquire = None
        self.chunks = []       # what acquire_work handed out, in order
        self.soft_releases = 0
        self.lock_waits = 0
        self.waiting = 0       # workers waiting for an executor lock
        self._orig_rlock = None
        self.at_end = None

    # -- patch point
    def install(self):
        ctl = self
        # locks created by the executor (build lock, work-list lock) tell the controller when a worker waits for
        # one of them: such a worker is as good as blocked (it waits for a worker that is blocked in a process)
        self._orig_rlock = getattr(rb_exec, 'RLock', None)
        if self._orig_rlock is not None:
            real = threading.RLock

            class WatchedRLock(object):
                def __init__(self):
                    self._l = real()

                def acquire(self, blocking=True, timeout=-1):
                    if self._l.acquire(False):
                        return True
                    if not blocking:
                        return False
                    with ctl.cv:
                        ctl.waiting += 1
                        ctl.cv.notify_all()
                    try:
                        return self._l.acquire(True, timeout)
                    finally:
                        with ctl.cv:
                            ctl.waiting -= 1

                def release(self):
                    self._l.release()

                def __enter__(self):
                    self.acquire()
                    return self

                def __exit__(self, *a):
                    self.release()
            rb_exec.RLock = WatchedRLock
        base = getattr(rb_exec, 'BenchmarkThread', None)
        if base is None:
            raise lib.InfraError('patch point rebench.executor.BenchmarkThread is gone')
        self._orig_cls = base

        class CountingBenchmarkThread(base):
            def __init__(self, par_scheduler, num):
                base.__init__(self, par_scheduler, num)
                with ctl.cv:
                    ctl.T = getattr(par_scheduler, '_num_worker_threads', None) or max(ctl.T or 0, num + 1)

            def start(self):
                with ctl.cv:
                    ctl.started += 1
                base.start(self)

            def run(self):
                try:
                    base.run(self)
                finally:
                    with ctl.cv:
                        ctl.exited += 1
                        ctl.cv.notify_all()
        rb_exec.BenchmarkThread = CountingBenchmarkThread
        # log what acquire_work hands out, in hand-out order (the scheduler's lock is re-entrant)
        ps = getattr(rb_exec, 'ParallelScheduler', None)
        orig_acquire = getattr(ps, 'acquire_work', None) if ps is not None else None
        self._orig_acquire = orig_acquire
        if orig_acquire is not None:
            def acquire_work(sched_self):
                lock = getattr(sched_self, '_lock', None)
                if lock is None:
                    return orig_acquire(sched_self)
                with lock:
                    work = orig_acquire(sched_self)
                    if work is not None:
                        ctl.chunks.append([_run_index(r) for r in work])
                    return work
            ps.acquire_work = acquire_work

    def uninstall(self):
        if self._orig_cls is not None:
            rb_exec.BenchmarkThread = self._orig_cls
        if getattr(self, '_orig_acquire', None) is not None:
            rb_exec.ParallelScheduler.acquire_work = self._orig_acquire
        if self._orig_rlock is not None:
            rb_exec.RLock = self._orig_rlock

    # -- called from the scripted process (subprocess thread of a worker)
    def block(self, run, inv=None):
        ev = threading.Event()
        with self.cv:
            if self.T is None:
                # sequential phase in the main thread (exclusive runs): nothing to interleave
                if run >= 0:
                    self.steps.append(['start', run, inv])
                    self.steps.append(['finish', run])
                return
            self.blocked[run] = ev
            self.steps.append(['start', run, inv] if run >= 0 else ['probe' if run > -1000 else 'build', run, None])
            self.cv.notify_all()
        if not ev.wait(60):
            self.error = 'blocked process of run %s was never released' % run

    def _quiescent(self):
        return (self.T is not None and self.started >= self.T
                and self.started - self.exited == len(self.blocked) + self.waiting)

    def _state(self):
        return (self.T, self.started, self.exited, tuple(sorted(self.blocked)), len(self.steps), self.waiting)

    def run(self):
        deadline = time.time() + 90
        last_state, since = None, time.time()
        while not self._stop:
            with self.cv:
                st = self._state()
                if st != last_state:
                    last_state, since = st, time.time()
                # soft quiescence: nothing has moved for a while although not every worker is blocked in a
                # process — a worker is waiting for a lock that a blocked worker holds (build lock)
                soft = (self.T is not None and self.started >= self.T and self.blocked
                        and time.time() - since > 0.4)
                if soft and not self._quiescent():
                    self.soft_releases += 1
                if self._quiescent() and self.waiting and self.blocked:
                    self.lock_waits += 1
                if (self._quiescent() or soft) and self.blocked:
                    runs = sorted(self.blocked)
                    c = self.schedule[self._pos] if self._pos < len(self.schedule) else 0
                    self._pos += 1
                    r = runs[c % len(runs)]
                    ev = self.blocked.pop(r)
                    self.released.append(r)
                    self.steps.append(['finish', r] if r >= 0 else ['probe-done' if r > -1000 else 'build-done', r])
                    ev.set()
                    deadline = time.time() + 90
                    last_state, since = None, time.time()
                    continue
                self.cv.wait(0.05)
            if time.time() > deadline:
                self.error = 'controller timeout (T=%s started=%s exited=%s blocked=%s)' % (
                    self.T, self.started, self.exited, sorted(self.blocked))
                self._release_all()
                return

    def _release_all(self):
        with self.cv:
            for ev in self.blocked.values():
                ev.set()
            self.blocked.clear()

    def snapshot_end(self):
        """what is still going on when the session has returned"""
        with self.cv:
            self.at_end = {'workers_alive': self.started - self.exited, 'blocked': sorted(self.blocked)}

    def stop(self):
        self._stop = True
        self._release_all()
        self.uninstall()
