"""Driving the functions of `rebench/denoise.py` themselves (C20) without touching the system.

SAFETY, two independent layers:
1. every call runs in a forked child that has first dropped to the unprivileged user
   `nobody` (uid/gid 65534): even if a refactoring of denoise.py bypassed the scripted names
   below, the kernel would refuse the writes to /sys and /proc;
2. inside the child the names `open` and `check_output` of the module `rebench.denoise` are
   replaced by scripted stand-ins that never touch a file or start a process, and the run is
   refused if they are not in place.
"""
import json
import os
import re
import sys

import lib

lib.use_repo()

from rebench import denoise as dn  # noqa: E402  (imported before forking: the child cannot read /root)

NOBODY = 65534

PATHS = [
    (re.compile(r'^/sys/devices/system/cpu/cpu(\d+)/cpufreq/scaling_governor$'), lambda m: 'governor:%s' % m.group(1)),
    (re.compile(r'^/sys/devices/system/cpu/intel_pstate/no_turbo$'), lambda m: 'no_turbo'),
    (re.compile(r'^/proc/sys/kernel/perf_cpu_time_max_percent$'), lambda m: 'perf_max_percent'),
    (re.compile(r'^/proc/sys/kernel/perf_event_max_sample_rate$'), lambda m: 'perf_sample_rate'),
    (re.compile(r'^/proc/sys/kernel/perf_event_paranoid$'), lambda m: 'perf_paranoid'),
]


def setting_of(path):
    for rx, f in PATHS:
        m = rx.match(path)
        if m:
            return f(m)
    return 'other:' + path


def writable(host, setting):
    if setting.startswith('governor:'):
        i = int(setting.split(':')[1])
        g = host['governor_writable']
        return g[i] if i < len(g) else True
    return {'no_turbo': host['no_turbo_writable'], 'perf_max_percent': host['max_percent_writable'],
            'perf_sample_rate': host['sample_rate_writable'],
            'perf_paranoid': host['paranoid_writable']}.get(setting, False)


class _File(object):
    def __init__(self, acts, setting):
        self.acts = acts
        self.setting = setting
        self.written = []

    def write(self, text):
        self.written.append(text)

    def __enter__(self):
        return self

    def __exit__(self, *a):
        if self.written:
            text = ''.join(self.written)
            self.acts.append({'t': 'write', 's': self.setting,
                              'v': text[:-1] if text.endswith('\n') else text + '<no newline>'})
        else:
            self.acts.append({'t': 'touch', 's': self.setting})
        return False


def _child(op, host, n, nice, shield, prof, out_fd):
    os.setgroups([])
    os.setgid(NOBODY)
    os.setuid(NOBODY)
    if os.getuid() == 0 or os.geteuid() == 0:
        os._exit(3)
    acts = []

    def fake_open(path, mode='r', **kw):
        setting = setting_of(path)
        if 'w' not in mode or setting.startswith('other:'):
            acts.append({'t': 'unexpected-open', 'path': path, 'mode': mode})
            raise IOError(13, 'Permission denied', path)
        if not writable(host, setting):
            raise IOError(13, 'Permission denied', path)
        return _File(acts, setting)

    def fake_check_output(cmd, **kw):
        cmd = list(cmd)
        if cmd[:2] == ['nice', '-n-20']:
            acts.append({'t': 'nice'})
            return b'test\n' if host['can_nice'] else b'nice: cannot set niceness: Permission denied\ntest\n'
        if len(cmd) >= 2 and cmd[1] == 'shield':
            if '-r' in cmd:
                acts.append({'t': 'shield_reset'})
                return b'cset: --> deactivating/reseting shielding\ncset: done\n' if host['shield_resets'] else b'cset: **> failed\n'
            spec = cmd[cmd.index('-c') + 1]
            lo, hi = spec.split('-')
            acts.append({'t': 'shield_on', 'lo': int(lo), 'hi': int(hi)})
            return (b'cset: --> activating shielding:\ncset: kthread shield activated, moving 60 tasks into system cpuset...\n'
                    if host['shield_activates'] else b'cset: **> Permission denied\n')
        acts.append({'t': 'unexpected-command', 'cmd': cmd})
        raise OSError(2, 'not scripted')
    dn.open = fake_open
    dn.check_output = fake_check_output
    dn.paths.set_cset('/usr/bin/cset' if host['has_cset'] else False)
    if dn.open is not fake_open or dn.check_output is not fake_check_output:
        os._exit(4)
    try:
        if op == 'minimize':
            res = dn._minimize_noise(n, nice, shield, prof)
        else:
            res = dn._restore_standard_settings(n, shield)
        payload = {'acts': acts, 'result': res}
    except BaseException as e:  # pylint: disable=broad-except
        payload = {'acts': acts, 'crash': type(e).__name__ + ': ' + str(e)[:200]}
    os.write(out_fd, json.dumps(payload).encode())
    os._exit(0)


class _OsShim(object):
    """stands in for `os` inside rebench.denoise while `_exec` runs: nothing is executed"""
    def __init__(self, record):
        self.record = record
        self.environ = {'PATH': '/usr/bin:/bin', 'KEPT': '1'}
        self.path = os.path

    def execvpe(self, cmd, argv, env):
        self.record['exec'] = {'cmd': cmd, 'argv': list(argv),
                               'core_set': env.get('REBENCH_DENOISE_CORE_SET'),
                               'env_kept': env.get('KEPT') == '1'}

    def __getattr__(self, name):
        if name in ('getcwd', 'access', 'X_OK', 'sep'):
            return getattr(os, name)
        raise AttributeError('os.%s is not available to the sandboxed denoise.py' % name)


def _child_exec(argv, lookup_cset, out_fd):
    os.setgroups([])
    os.setgid(NOBODY)
    os.setuid(NOBODY)
    if os.getuid() == 0 or os.geteuid() == 0:
        os._exit(3)
    record = {'commands': []}

    def fake_check_output(cmd, **kw):
        cmd = list(cmd)
        record['commands'].append(cmd)
        if cmd[:1] == ['/usr/bin/which']:
            if lookup_cset:
                return (lookup_cset + '\n').encode()
            raise dn.CalledProcessError(1, cmd)
        if cmd[1:] == ['--help']:
            if lookup_cset and cmd[0] in (lookup_cset, os.path.realpath(lookup_cset)):
                return b'usage'
            raise FileNotFoundError(2, 'No such file or directory', cmd[0])
        raise OSError(2, 'not scripted')

    def fake_open(path, mode='r', **kw):
        raise IOError(13, 'Permission denied', path)
    shim = _OsShim(record)
    dn.open = fake_open
    dn.check_output = fake_check_output
    dn.os = shim
    dn.paths._cset_path = None
    dn.paths._which_path = '/usr/bin/which'
    if dn.os is not shim or dn.check_output is not fake_check_output:
        os._exit(4)
    sys.argv = list(argv)
    devnull = open(os.devnull, 'w')
    sys.stdout = devnull
    try:
        rc = dn.main_func()
        record['rc'] = rc
    except SystemExit as e:
        record['rc'] = 'exit:%s' % e.code
    except BaseException as e:  # pylint: disable=broad-except
        record['crash'] = type(e).__name__ + ': ' + str(e)[:200]
    os.write(out_fd, json.dumps(record).encode())
    os._exit(0)


def call_exec(argv, lookup_cset=None):
    """`denoise.py <flags> --num-cores n exec -- cmd…` through the real `main_func` / `_exec` in the
    sandbox; returns what would have been handed to `os.execvpe`"""
    return _fork(lambda w: _child_exec(argv, lookup_cset, w))


def call(op, host, n, nice=False, shield=False, prof=False):
    """run `_minimize_noise` / `_restore_standard_settings` of the real denoise.py in the sandbox"""
    return _fork(lambda w: _child(op, host, n, nice, shield, prof, w))


def _fork(child_fn):
    if os.getuid() != 0:
        raise lib.InfraError('expected to run as root (to drop privileges in the child)')
    r, w = os.pipe()
    sys.stdout.flush()
    sys.stderr.flush()
    pid = os.fork()
    if pid == 0:
        try:
            os.close(r)
            child_fn(w)
        except BaseException:  # pylint: disable=broad-except
            import traceback
            traceback.print_exc()
        finally:
            os._exit(5)
    os.close(w)
    data = b''
    while True:
        chunk = os.read(r, 65536)
        if not chunk:
            break
        data += chunk
    os.close(r)
    _, status = os.waitpid(pid, 0)
    if status != 0 or not data:
        raise lib.InfraError('sandboxed denoise.py call failed: status %s' % status)
    return json.loads(data.decode())
