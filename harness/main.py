"""entry point: ./check <Cxx> --tier quick|thorough [--replay file]"""
import argparse
import importlib
import json
import os
import sys
import traceback

sys.dont_write_bytecode = True
sys.path.insert(0, os.path.dirname(os.path.abspath(__file__)))
import lib  # noqa: E402


def main():
    ap = argparse.ArgumentParser()
    ap.add_argument('pid')
    ap.add_argument('--tier', default=os.environ.get('VERIF_TIER', 'quick'), choices=['quick', 'thorough'])
    ap.add_argument('--replay', default=None)
    ap.add_argument('--skip-proof', action='store_true', help='development only')
    a = ap.parse_args()
    seed = int(os.environ.get('VERIF_SEED', '0') or 0)
    ck = lib.Check(a.pid, a.tier, seed)
    try:
        lib.use_repo()
        mod = importlib.import_module('corr.' + a.pid.lower())
        if not a.skip_proof:
            ck.proof_step()
        else:
            ck.dev_run = True
        if a.replay:
            data = json.load(open(a.replay))
            mod.replay(ck, data)
        else:
            mod.run(ck)
        rc = ck.finish()
    except lib.InfraError as e:
        print('INFRA-ERROR %s: %s' % (a.pid, e))
        ck.cleanup()
        rc = 2
    except Exception as e:
        tb = traceback.extract_tb(e.__traceback__)
        in_repo = [f for f in tb if os.path.abspath(f.filename).startswith(os.path.abspath(lib.REPO) + os.sep)]
        traceback.print_exc()
        if in_repo and not a.replay:
            # the exception was raised inside ReBench code that the harness drives: the implementation no longer
            # behaves as the correspondence assumes (on the unchanged tree this never happens). That is a broken
            # correspondence, reported as such; the replay names the call that failed.
            path = ck._write_replay('crash', {
                'property': a.pid, 'seed': seed, 'tier': a.tier, 'kind': 'correspondence-broken',
                'correspondence': 'the harness of %s drives ReBench code that raised %s' % (a.pid, type(e).__name__),
                'exception': '%s: %s' % (type(e).__name__, str(e)[:500]),
                'raised_in': ['%s:%d %s' % (f.filename, f.lineno, f.name) for f in in_repo[-4:]],
                'theorems_resting_on_it': ck.obligations,
                'note': 'no failing input of the property was identified before the implementation raised'})
            print('VIOLATION property=%s replay=%s no-failing-input-found' % (a.pid, path))
            ck.cleanup()
            rc = 1
        else:
            # a crash of the harness itself is tooling trouble, not a finding
            print('INFRA-ERROR %s: harness exception' % a.pid)
            ck.cleanup()
            rc = 2
    sys.exit(rc)


if __name__ == '__main__':
    main()
