"""entry point: ./check <Cxx> --tier quick|thorough [--replay file]"""
import argparse
import importlib
import json
import os
import sys
import traceback

sys.dont_write_bytecode = True
sys.path.insert(0, os.path.dirname(os.path.abspath(__file__)))
import lib  # noqa: E402


def main():
    ap = argparse.ArgumentParser()
    ap.add_argument('pid')
    ap.add_argument('--tier', default=os.environ.get('VERIF_TIER', 'quick'), choices=['quick', 'thorough'])
    ap.add_argument('--replay', default=None)
    ap.add_argument('--skip-proof', action='store_true', help='development only')
    a = ap.parse_args()
    seed = int(os.environ.get('VERIF_SEED', '0') or 0)
    ck = lib.Check(a.pid, a.tier, seed)
    try:
        lib.use_repo()
        mod = importlib.import_module('corr.' + a.pid.lower())
        if not a.skip_proof:
            ck.proof_step()
        else:
            ck.dev_run = True
        if a.replay:
            data = json.load(open(a.replay))
            mod.replay(ck, data)
        else:
            mod.run(ck)
        rc = ck.finish()
    except lib.InfraError as e:
        print('INFRA-ERROR %s: %s' % (a.pid, e))
        ck.cleanup()
        rc = 2
    except Exception:
        # a crash of the harness itself is tooling trouble, not a finding
        traceback.print_exc()
        print('INFRA-ERROR %s: harness exception' % a.pid)
        ck.cleanup()
        rc = 2
    sys.exit(rc)


if __name__ == '__main__':
    main()
