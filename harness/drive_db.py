"""Driving the real ReBenchDB back end (C17) from outside.

The real `_ReBenchDB` / `_CompositePersistence` / `_FilePersistence` (created by the
real `DataStore.get` through a real `Configurator`) and the real `ReBenchDB`
connector run unchanged.  Scripted from here:
  * `urlopen` as imported by `rebench.rebenchdb` (or a real HTTP server on 127.0.0.1),
  * `sleep` as imported by `rebench.rebenchdb` (advances the fake clock),
  * `time` as imported by `rebench.persistence` (the 30 s cache clock),
  * `get_current_time` as imported by `rebench.persistence` (the start stamp),
  * the cached environment / source details of `rebench.environment`.
"""
import copy
import io
import json
import os
import threading
import urllib.error
from fractions import Fraction
from http.server import BaseHTTPRequestHandler, HTTPServer

import lib
import drive

lib.use_repo()

from rebench import persistence as P  # noqa: E402
from rebench import rebenchdb as R  # noqa: E402
from rebench import environment as E  # noqa: E402
from rebench.configurator import Configurator, load_config  # noqa: E402
from rebench.rebench import ReBench  # noqa: E402
from rebench.ui import TestDummyUI  # noqa: E402
from rebench.model.data_point import DataPoint  # noqa: E402
from rebench.model.measurement import Measurement  # noqa: E402

PROJECT = 'Verif Proj'
EXPERIMENT = 'Verif Exp'
SOURCE = {'repoURL': 'http://example.org/r.git', 'branchOrTag': 'main', 'commitId': 'c0ffee' * 6 + 'abcd',
          'commitMsg': 'msg', 'authorName': 'A', 'committerName': 'C', 'authorEmail': 'a@x', 'committerEmail': 'c@x'}


# `reporting.rebenchdb.repo_url`: deliberately not the URL the working copy reports
CFG_REPO_URL = 'https://cfg.example.org/configured/override.git'


class _Resp(object):
    """what `urlopen` returns: the surface of http.client.HTTPResponse / urllib.response.addinfourl
    that client code may touch (context manager, status / code / getcode(), read(), headers …)"""

    def __init__(self, header=None, status=200, url=None, body=b'{"ok":true}', incomplete=False):
        self._incomplete = incomplete
        import email.message
        self._header = header
        self.status = status
        self.code = status
        self.reason = self.msg = {200: 'OK', 201: 'Created', 202: 'Accepted', 204: 'No Content'}.get(status, 'OK')
        self.url = url
        self.version = 11
        self.closed = False
        self._body = b'' if status == 204 else body
        self.headers = email.message.Message()
        self.headers['Content-Length'] = str(len(self._body))
        if header is not None:
            self.headers['X-ReBenchDB-Result-API-Version'] = header

    def __enter__(self):
        return self

    def __exit__(self, *a):
        self.close()
        return False

    def close(self):
        self.closed = True

    def read(self, amt=None):
        if self._incomplete:
            import http.client
            raise http.client.IncompleteRead(self._body[:3], len(self._body) - 3)
        b, self._body = self._body, b''
        return b

    def getcode(self):
        return self.status

    def geturl(self):
        return self.url

    def info(self):
        return self.headers

    def getheader(self, name, default=None):
        if name == 'X-ReBenchDB-Result-API-Version':
            return self._header
        return self.headers.get(name, default)

    def getheaders(self):
        return list(self.headers.items())


# what a server may put into the body (and the reason phrase) of an error response
ERROR_BODIES = {
    '': b'',
    'json': b'{"error": "rejected", "details": {"field": "data[0].runId", "expected": "{object}"}}',
    'braces': b'unbalanced } and { and {0} and {ind}',
    'percent': b'100% of %s and %(name)s and %d',
    'unicode': '\u00fcbergro\u00df \u2603 {snow}'.encode('utf-8'),
    'long': (b'{"trace": "' + b'x' * 5000 + b'"}'),
    'binary': b'\xff\xfe{\x00}',
}
ERROR_REASONS = {'': None, 'braces': 'Bad {request}', 'percent': 'Not 100% %s'}


BIG = 10 ** 400


def fr(v):
    """lib.frac for measurement values, which may be inf / -inf / nan (a harness printed 1e999 or nan): they cross
    to the model, which only moves values around, as three rationals no finite double can equal"""
    if isinstance(v, float) and v != v:
        return '%d/1' % (BIG * 10)
    if v == float('inf'):
        return '%d/1' % BIG
    if v == float('-inf'):
        return '%d/1' % -BIG
    return lib.frac(v)


def fraction(v):
    return lib.unfrac(fr(v))


def raise_for(kind, url, status=None, body=b'', reason=None):
    if kind == 'refused':
        raise urllib.error.URLError(ConnectionRefusedError(111, 'Connection refused'))
    if kind == '5xx':
        st = status or 503
        raise urllib.error.HTTPError(url, st, reason or 'Server Error', {}, io.BytesIO(body))
    if kind == '4xx':
        st = status or 400
        raise urllib.error.HTTPError(url, st, reason or 'Client Error', {}, io.BytesIO(body))
    if kind == 'type':
        raise TypeError('scripted TypeError')
    # the request was received, no complete answer came back: what http.client lets through unwrapped
    # (urllib wraps only errors of the *sending* half in URLError)
    if kind == 'reset':
        raise ConnectionResetError(104, 'Connection reset by peer')
    if kind == 'timeout':
        import socket
        raise socket.timeout('timed out')
    if kind == 'brokenpipe':
        raise BrokenPipeError(32, 'Broken pipe')
    if kind == 'disconnected':
        import http.client
        raise http.client.RemoteDisconnected('Remote end closed connection without response')
    raise lib.InfraError('unknown attempt kind %r' % kind)


DROPPED = ('reset', 'timeout', 'brokenpipe', 'disconnected', 'incomplete')


def model_kind(kind):
    """the attempt class of the Lean model"""
    return 'dropped' if kind in DROPPED else kind


class World(object):
    """patches + recording for one scenario"""

    def __init__(self, v2, env_tag, start_stamp, server=None):
        self.v2 = v2
        self.clock = 1000.0
        self.sleeps = []
        self.calls = []          # per point: list of dicts
        self.point = None        # current transmission point record
        self.points = []
        self.script = []
        self.statuses = {}
        self.env = {'hostName': 'verif-' + env_tag, 'cpu': 'x', 'clockSpeed': 1, 'memory': 2,
                    'osType': 'Linux', 'software': [], 'userName': 'u', 'manualRun': True, 'denoise': {}}
        self.start_stamp = start_stamp
        self.server = server
        self.options_calls = 0
        self.script_underrun = False
        self.hook = None         # called once, at the first attempt of the current point (request in flight)

    # ---- scripted pieces
    def time(self):
        return self.clock

    def sleep(self, s):
        self.sleeps.append(s)
        if self.point is not None:
            self.point['waits'].append(s)
        self.clock += s

    def urlopen(self, req, *a, **kw):
        method = req.get_method()
        if method == 'OPTIONS':
            self.options_calls += 1
            return _Resp('2.0.0' if self.v2 else None)
        rec = {'method': method, 'url': req.full_url, 'body': req.data,
               'ctype': dict((k.lower(), v) for k, v in req.header_items()).get('content-type')}
        if self.point is None:
            self.point = self._new_point('unexpected')
            self.points.append(self.point)
        self.fire_hook()
        if not self.script:
            self.script_underrun = True
            kind = 'refused'
        else:
            kind = self.script.pop(0)
        rec['kind'] = kind
        self.point['attempts'].append(rec)
        if kind == 'ok':
            # the server acknowledges: any 2xx is an acknowledgement
            rec['status'] = self.statuses.get('ok', 200)
            return _Resp(status=rec['status'], url=req.full_url)
        if kind == 'incomplete':
            # status line and headers arrive, the body does not
            return _Resp(status=200, url=req.full_url, incomplete=True)
        raise_for(kind, req.full_url, self.statuses.get(kind), ERROR_BODIES[self.statuses.get('body', '')],
                  ERROR_REASONS[self.statuses.get('reason', '')])

    def fire_hook(self):
        h, self.hook = self.hook, None
        if h is not None:
            h()

    @staticmethod
    def _new_point(label):
        return {'label': label, 'attempts': [], 'waits': []}

    def begin_point(self, label, script, statuses=None):
        self.point = self._new_point(label)
        self.points.append(self.point)
        self.script = list(script)
        self.statuses = statuses or {}
        if self.server is not None:
            self.server.set_script(self, script, self.statuses)

    def end_point(self):
        self.point = None
        self.hook = None

    # ---- activation
    def __enter__(self):
        self._saved = (P.time, R.sleep, R.urlopen, getattr(P, 'get_current_time', None),
                       E._source, E._environment)
        P.time = self.time
        R.sleep = self.sleep
        if self.server is None:
            R.urlopen = self.urlopen
        P.get_current_time = lambda: self.start_stamp
        E._source = dict(SOURCE)
        E._environment = dict(self.env)
        return self

    def __exit__(self, *a):
        P.time, R.sleep, R.urlopen = self._saved[0], self._saved[1], self._saved[2]
        if self._saved[3] is not None:
            P.get_current_time = self._saved[3]
        E._source, E._environment = self._saved[4], self._saved[5]
        return False


# ------------------------------------------------------------------ real HTTP server
class _Handler(BaseHTTPRequestHandler):
    protocol_version = 'HTTP/1.0'

    def do_OPTIONS(self):
        self.send_response(200)
        if self.server.world is not None and self.server.world.v2:
            self.send_header('X-ReBenchDB-Result-API-Version', '2.0.0')
        self.send_header('Allow', 'PUT')
        self.send_header('Content-Length', '0')
        self.end_headers()
        if self.server.world is not None:
            self.server.world.options_calls += 1

    def do_PUT(self):
        n = int(self.headers.get('Content-Length') or 0)
        body = self.rfile.read(n)
        w = self.server.world
        kind = self.server.script.pop(0) if self.server.script else '5xx'
        rec = {'method': 'PUT', 'url': 'http://127.0.0.1:%d%s' % (self.server.server_port, self.path),
               'body': body, 'ctype': self.headers.get('Content-Type'), 'kind': kind}
        if w.point is None:
            w.point = w._new_point('unexpected')
            w.points.append(w.point)
        w.fire_hook()
        w.point['attempts'].append(rec)
        if kind in ('disconnected', 'reset', 'incomplete'):
            import socket as _socket
            import struct
            if kind == 'incomplete':
                self.wfile.write(b'HTTP/1.0 200 OK\r\nContent-Length: 50\r\n\r\n{"ok"')
                self.wfile.flush()
            elif kind == 'reset':
                # close with RST instead of FIN: the client sees ECONNRESET while it waits for the response
                self.connection.setsockopt(_socket.SOL_SOCKET, _socket.SO_LINGER, struct.pack('ii', 1, 0))
            self.close_connection = True
            try:
                self.connection.shutdown(_socket.SHUT_RDWR) if kind != 'reset' else None
            except OSError:
                pass
            self.connection.close()
            return
        status = {'ok': self.server.statuses.get('ok', 200), '5xx': self.server.statuses.get('5xx', 503),
                  '4xx': self.server.statuses.get('4xx', 400)}[kind]
        body = b'ok' if kind == 'ok' else ERROR_BODIES[self.server.statuses.get('body', '')]
        if status == 204:
            body = b''
        self.send_response(status, ERROR_REASONS[self.server.statuses.get('reason', '')] if kind != 'ok' else None)
        self.send_header('Content-Length', str(len(body)))
        self.end_headers()
        self.wfile.write(body)

    def log_message(self, *a):
        pass


class RealServer(object):
    """a local HTTP server standing in for ReBenchDB (thorough tier)"""

    def __init__(self):
        self.httpd = HTTPServer(('127.0.0.1', 0), _Handler)
        self.httpd.world = None
        self.httpd.script = []
        self.httpd.statuses = {}
        self.port = self.httpd.server_port
        self.thread = threading.Thread(target=self.httpd.serve_forever, kwargs={'poll_interval': 0.01})
        self.thread.daemon = True
        self.thread.start()

    def set_script(self, world, script, statuses):
        # only ok / 5xx / 4xx can be answered by a server that is up
        self.httpd.world = world
        self.httpd.script = [k for k in script]
        self.httpd.statuses = statuses

    def stop(self):
        self.httpd.shutdown()
        self.httpd.server_close()


# ------------------------------------------------------------------ configuration / session objects
_raw_cache = {}


def raw_config(workdir, n_runs, url):
    key = n_runs   # the first work directory becomes the configuration's directory for all
    if key not in _raw_cache:
        cfg = {'default_experiment': 'T', 'default_data_file': 't.data',
               'reporting': {'rebenchdb': {'db_url': url, 'repo_url': CFG_REPO_URL,
                                           'project_name': PROJECT, 'record_all': True}},
               'benchmark_suites': {'S': {'gauge_adapter': 'RebenchLog', 'command': 'h %(benchmark)s',
                                          'benchmarks': ['B%d' % i for i in range(n_runs)]}},
               'executors': {'E': {'path': '.', 'executable': 'exe'}},
               'experiments': {'T': {'suites': ['S'], 'executions': ['E']}}}
        conf = drive.write_config(workdir, cfg, 'c%d.conf' % n_runs)
        _raw_cache[key] = load_config(conf)
    raw = copy.deepcopy(_raw_cache[key])
    raw['reporting']['rebenchdb']['db_url'] = url
    return raw


_opt_parser = None


def options(extra):
    global _opt_parser
    if _opt_parser is None:
        _opt_parser = ReBench().shell_options()
    return _opt_parser.parse_args(['--experiment=' + EXPERIMENT, '-D'] + extra + ['x.conf'])


class Session(object):
    """one ReBench session's persistence objects, built by the real code"""

    def __init__(self, workdir, n_runs, data_file, url, with_db=True, branch=None, real_ui=None, clean=False):
        # the real command-line UI (its messages go through str.format), or the test dummy that ignores them
        if real_ui is None:
            self.ui = TestDummyUI()
        else:
            from rebench.ui import UI
            self.ui = UI()
            self.ui.init(real_ui.get('verbose', False), real_ui.get('debug', False))
        self.ds = P.DataStore(self.ui)
        created = []
        cls = P._ReBenchDB
        orig_init = cls.__init__

        def spy_init(obj, *a, **kw):
            orig_init(obj, *a, **kw)
            created.append(obj)
        cls.__init__ = spy_init
        try:
            # -c / --clean: the data file is emptied when it is opened, the session starts a new record
            opts = options(([] if with_db else ['-R']) + (['--branch=' + branch] if branch else []) + (['-c'] if clean else []))
            self.cnf = Configurator(raw_config(workdir, n_runs, url), self.ds, self.ui, opts, data_file=data_file)
            runs = list(self.cnf.get_runs())
        finally:
            cls.__init__ = orig_init
        self.runs = sorted(runs, key=lambda r: r.benchmark.name)
        self.db = created[0] if created else None
        if with_db and self.db is None:
            raise lib.InfraError('the real DataStore.get did not create a _ReBenchDB')

    def load(self):
        self.ds.load_data(self.runs, False)

    def make_dp(self, d):
        run = self.runs[d['run']]
        dp = DataPoint(run)
        for (c, u, v) in d['ms']:
            dp.add_measurement(Measurement(d['in'], d['it'], v, u, run, c))
        return run, dp

    def feed(self, d):
        run, dp = self.make_dp(d)
        if d.get('direct'):
            # straight to the run's persistence objects (data points without a total)
            for p in list(run._persistence):
                p.persist_data_point(dp)
        else:
            run.add_data_point(dp, bool(d.get('warmup')))

    def completed(self, run_idx):
        self.runs[run_idx].report_run_completed('cmdline')

    def close(self):
        for r in self.runs:
            r.close_files()


# ------------------------------------------------------------------ independent payload decoding (oracle side)
def decode_body(body, runs):
    """request body -> dict with canonical wire form and the flat measurement multiset.
    Independent of the model: written from the ReBenchDB API description."""
    j = json.loads(body)
    crit = sorted(j.get('criteria', []), key=lambda c: c['i'])
    crit_ok = [c['i'] for c in crit] == list(range(len(crit)))
    table = [(c['c'], c['u']) for c in crit]
    by_cmd = dict((r.cmdline(), i) for i, r in enumerate(runs))
    flat = []
    wire = []
    is_v2 = None
    run_dicts_ok = True
    for entry in j['data']:
        ridx = by_cmd.get(entry['runId'].get('cmdline'))
        if ridx is None or entry['runId'] != runs[ridx].as_dict():
            run_dicts_ok = False
        dps = []
        for d in entry['d']:
            if 'it' in d:      # v1
                is_v2 = False if is_v2 is None else is_v2
                ms = []
                for m in d['m']:
                    ms.append([fr(m['v']), m['c']])
                    cu = table[m['c']] if 0 <= m['c'] < len(table) else (None, None)
                    flat.append((ridx, d['in'], d['it'], cu[0], cu[1], fraction(m['v'])))
                dps.append({'in': d['in'], 'it': d['it'], 'm': ms})
            else:              # v2
                is_v2 = True
                cols = []
                for ci, col in enumerate(d['m']):
                    cols.append([None if v is None else fr(v) for v in col])
                    cu = table[ci] if ci < len(table) else (None, None)
                    for p, v in enumerate(col):
                        if v is not None:
                            flat.append((ridx, d['in'], p + 1, cu[0], cu[1], fraction(v)))
                dps.append({'in': d['in'], 'm': cols})
        wire.append({'run': ridx, 'd': dps})
    return {'wire': {'data': wire, 'criteria': [list(t) for t in table]}, 'flat': sorted(flat, key=repr),
            'crit_index_ok': crit_ok, 'run_dicts_ok': run_dicts_ok, 'v2': bool(is_v2),
            'startTime': j.get('startTime'), 'env': j.get('env'), 'source': j.get('source'),
            'projectName': j.get('projectName'), 'experimentName': j.get('experimentName')}


def first_start_time(path):
    """`# Execution Start:` of the data file's first comment block, read independently"""
    if not os.path.exists(path):
        return None
    with open(path) as f:
        for line in f:
            if not line.startswith('#'):
                return None
            if line.startswith('# Execution Start: '):
                return line[len('# Execution Start: '):].strip()
    return None


def last_block_meta(path):
    env = src = None
    if not os.path.exists(path):
        return None, None
    with open(path) as f:
        for line in f:
            if line.startswith('# Environment: '):
                env = json.loads(line[len('# Environment: '):])
            elif line.startswith('# Source: '):
                src = json.loads(line[len('# Source: '):])
    return env, src


def block_count(path):
    if not os.path.exists(path):
        return 0
    with open(path) as f:
        return sum(1 for line in f if line.startswith('# Execution Start: '))


class InFlight(object):
    """data points that *another thread* hands to the run while a request is in flight: the
    rendezvous is the first attempt of the request (the payload has been built by then)"""

    def __init__(self, session, dps):
        self.session = session
        self.dps = dps
        self.fired = False
        self.blocked = False     # the other thread could not finish while the request was in flight
        self.error = None
        self.thread = None

    def __call__(self):
        self.fired = True

        def work():
            try:
                for d in self.dps:
                    self.session.feed(d)
            except BaseException as e:  # noqa
                self.error = '%s: %s' % (type(e).__name__, e)
        self.thread = threading.Thread(target=work)
        self.thread.start()
        self.thread.join(2.0)
        self.blocked = self.thread.is_alive()

    def finish(self):
        if self.thread is not None:
            self.thread.join(30)
            if self.thread.is_alive():
                raise lib.InfraError('a persisting thread never finished')
