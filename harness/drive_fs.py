"""File-system tracer and crash injector for the data-file rewrite (C14).

`run_traced(fn, …)` forks a child, installs the tracer on the names that
`rebench.persistence` uses for file-system work (`NamedTemporaryFile`, `os`,
`shutil`, `open`: module-level names, patched from outside), runs `fn` there
and returns what happened.  With `crash_at=k` the child calls `os._exit(137)`
immediately before the k-th mutating call (k counted from 0); `k == number of
calls` never fires.  Nothing is flushed by `os._exit`, exactly like a kill.
"""
import json
import os
import sys
import tempfile
import traceback


class _Tracer(object):
    def __init__(self, data_paths, crash_at, fault=None):
        self.fault = fault       # (index of the mutating call, errno name): that call raises OSError instead
        self.events = []
        self.data_paths = [os.path.abspath(p) for p in data_paths]
        self.crash_at = crash_at
        self.n_mut = 0
        self.snapshots = {}      # data path -> content when first opened for appending
        self.tmp_paths = []

    # -- classification
    def cls(self, path):
        p = os.path.abspath(path)
        if p in self.data_paths:
            return 'data%d' % self.data_paths.index(p)
        if p in self.tmp_paths:
            return 'tmp'
        return 'other'

    def mutating(self, ev):
        """called immediately before a mutating call is performed"""
        if self.crash_at is not None and self.n_mut == self.crash_at:
            os._exit(137)
        if self.fault is not None and self.n_mut == self.fault[0]:
            import errno
            self.n_mut += 1
            self.events.append(list(ev) + ['FAULT:' + self.fault[1]])
            code = getattr(errno, self.fault[1])
            raise OSError(code, os.strerror(code))
        self.n_mut += 1
        self.events.append(ev)


class _TracedTemp(object):
    def __init__(self, tracer, f):
        self._t = tracer
        self._f = f
        self.name = f.name

    def write(self, s):
        self._t.mutating(['write', s])
        return self._f.write(s)

    def flush(self):
        self._t.mutating(['flush'])
        return self._f.flush()

    def close(self):
        self._t.mutating(['close'])
        return self._f.close()

    def __enter__(self):
        return self

    def __exit__(self, *a):
        self.close()
        return False

    def __getattr__(self, k):
        return getattr(self._f, k)


class _ModProxy(object):
    """stands in for a module inside rebench.persistence; selected functions are traced"""

    def __init__(self, mod, overrides):
        self._mod = mod
        self._over = overrides

    def __getattr__(self, k):
        if k in self._over:
            return self._over[k]
        return getattr(self._mod, k)


def install(tracer):
    import shutil
    from rebench import persistence as P
    real_ntf = P.NamedTemporaryFile
    real_open = open
    _real_move = shutil.move

    def ntf(*a, **kw):
        tracer.mutating(['mktemp', None])
        f = real_ntf(*a, **kw)
        tracer.tmp_paths.append(os.path.abspath(f.name))
        d = os.path.dirname(os.path.abspath(f.name))
        where = 'datadir' if any(os.path.dirname(p) == d for p in tracer.data_paths) else 'tmpdir'
        same = all(os.stat(d).st_dev == os.stat(os.path.dirname(p)).st_dev for p in tracer.data_paths)
        tracer.events[-1][1] = {'where': where, 'same_fs': same, 'delete': kw.get('delete', True)}
        return _TracedTemp(tracer, f)

    def unlink(path, *a, **kw):
        tracer.mutating(['unlink', tracer.cls(path)])
        return os.unlink(path, *a, **kw)

    def replace(src, dst, *a, **kw):
        tracer.mutating(['replace', tracer.cls(src), tracer.cls(dst)])
        return os.replace(src, dst, *a, **kw)

    def rename(src, dst, *a, **kw):
        tracer.mutating(['rename', tracer.cls(src), tracer.cls(dst)])
        return os.rename(src, dst, *a, **kw)

    def move(src, dst, *a, **kw):
        same = os.stat(src).st_dev == os.stat(os.path.dirname(os.path.abspath(dst))).st_dev
        tracer.mutating(['move', tracer.cls(src), tracer.cls(dst), 'same_fs' if same else 'other_fs'])
        return _real_move(src, dst, *a, **kw)

    def traced_open(path, mode='r', *a, **kw):
        c = tracer.cls(path) if isinstance(path, str) else 'other'
        if c.startswith('data'):
            if 'w' in mode:
                tracer.mutating(['truncate', c])
            elif 'a' in mode:
                p = os.path.abspath(path)
                if p not in tracer.snapshots:
                    try:
                        with real_open(p, 'r', newline='') as f:
                            tracer.snapshots[p] = f.read()
                    except IOError:
                        tracer.snapshots[p] = None
        return real_open(path, mode, *a, **kw)

    # ---- copying a file over another one (shutil.copyfile / copy / copy2 / copyfileobj): the
    # destination is opened for writing (truncated), filled chunk by chunk, closed.  Each step is a
    # mutating call with a kill point; the chunks are written unbuffered, like sendfile does.
    CHUNK = 4096
    real_copymode, real_copystat = shutil.copymode, shutil.copystat

    def copyfile(src, dst, *a, **kw):
        cs, cd = tracer.cls(src), tracer.cls(dst)
        if not (cd.startswith('data') or cd == 'tmp' or cs.startswith('data') or cs == 'tmp'):
            return real_copyfile(src, dst, *a, **kw)
        with real_open(src, 'rb') as fsrc:
            tracer.mutating(['copy-open', cs, cd])
            fdst = real_open(dst, 'wb', buffering=0)
            try:
                while True:
                    buf = fsrc.read(CHUNK)
                    if not buf:
                        break
                    tracer.mutating(['copy-chunk', len(buf)])
                    fdst.write(buf)
                tracer.mutating(['copy-close', cd])
            finally:
                fdst.close()
        return dst

    def copy(src, dst, *a, **kw):
        if os.path.isdir(dst):
            dst = os.path.join(dst, os.path.basename(src))
        copyfile(src, dst)
        real_copymode(src, dst)
        return dst

    def copy2(src, dst, *a, **kw):
        if os.path.isdir(dst):
            dst = os.path.join(dst, os.path.basename(src))
        copyfile(src, dst)
        real_copystat(src, dst)
        return dst

    def copyfileobj(fsrc, fdst, length=0):
        name = getattr(fdst, 'name', None)
        cd = tracer.cls(name) if isinstance(name, str) else 'other'
        if not (cd.startswith('data') or cd == 'tmp'):
            return real_copyfileobj(fsrc, fdst, length) if length else real_copyfileobj(fsrc, fdst)
        while True:
            buf = fsrc.read(CHUNK)
            if not buf:
                break
            tracer.mutating(['copy-chunk', len(buf)])
            fdst.write(buf)

    real_copyfile, real_copyfileobj = shutil.copyfile, shutil.copyfileobj
    over = {'move': move, 'copyfile': copyfile, 'copy': copy, 'copy2': copy2, 'copyfileobj': copyfileobj}
    P.NamedTemporaryFile = ntf
    P.os = _ModProxy(os, {'unlink': unlink, 'replace': replace, 'rename': rename, 'remove': unlink})
    P.shutil = _ModProxy(shutil, over)
    P.open = traced_open
    # this is a forked child that runs one session: the functions of the shutil module itself are
    # replaced as well, so that `from shutil import copyfile`, an alias, or a helper module is traced too
    real_move = shutil.move
    for k, f in over.items():
        if k != 'move':
            setattr(shutil, k, f)
    for k in ('copyfile', 'copy', 'copy2', 'copyfileobj', 'move'):
        if k in P.__dict__:
            setattr(P, k, over[k])


def run_traced(fn, data_paths, tmpdir, crash_at=None, fault=None):
    """fork; in the child: TMPDIR=tmpdir, tracer installed, `fn()` (returns a JSON-able dict).
    Returns dict: exit ('ok' | 'killed' | 'child-error'), result, events, snapshots."""
    r, w = os.pipe()
    sys.stdout.flush()
    sys.stderr.flush()
    pid = os.fork()
    if pid == 0:
        code = 0
        try:
            os.close(r)
            os.environ['TMPDIR'] = tmpdir
            tempfile.tempdir = None
            tracer = _Tracer(data_paths, crash_at, fault)
            install(tracer)
            res = fn()
            # data files never opened for appending: snapshot at the end
            for p in tracer.data_paths:
                if p not in tracer.snapshots:
                    try:
                        with open(p, 'r', newline='') as f:
                            tracer.snapshots[p] = f.read()
                    except IOError:
                        tracer.snapshots[p] = None
            finals = {}
            for p in tracer.data_paths:
                try:
                    with open(p, 'r', newline='') as f:
                        finals[p] = f.read()
                except IOError:
                    finals[p] = None
            payload = json.dumps({'result': res, 'events': tracer.events, 'snapshots': tracer.snapshots,
                                  'finals': finals, 'tmp_paths': tracer.tmp_paths}).encode()
            with os.fdopen(w, 'wb') as f:
                f.write(payload)
        except BaseException:
            code = 3
            try:
                os.write(2, traceback.format_exc().encode())
            except Exception:
                pass
        finally:
            os._exit(code)
    os.close(w)
    chunks = []
    with os.fdopen(r, 'rb') as f:
        while True:
            b = f.read(1 << 16)
            if not b:
                break
            chunks.append(b)
    _, status = os.waitpid(pid, 0)
    code = os.waitstatus_to_exitcode(status)
    if code == 137:
        return {'exit': 'killed'}
    if code != 0 or not chunks:
        return {'exit': 'child-error', 'code': code}
    out = json.loads(b''.join(chunks).decode())
    out['exit'] = 'ok'
    return out
