"""Real-CLI slice for C04 / C10: ReBench in a child process, the real UI, a real `/bin/sh` harness whose output
is given byte by byte (invalid UTF-8, encoded lone surrogates, latin-1) and a strict UTF-8 stdout.

Nothing here is scripted inside ReBench: what is observed is the exit status, stdout / stderr of the child, the
data file, the build log and a log the harness script writes for every start.
"""
import os
import stat
import subprocess
import sys

import yaml

import lib
import drive

BYTE_TEXTS = [
    b'caf\xe9 au lait',               # latin-1
    b'\xff\xfe garbage \x80',         # never valid UTF-8
    b'lone \xed\xa0\x80 surrogate',   # CESU-style encoded surrogate
    b'fine \xc3\xa9 {x} 100%',        # valid UTF-8, braces, percent
    b'',
]


def _octal(bs):
    return ''.join('\\%03o' % b for b in bs)


def write_harness(wd, plans):
    """plans: {benchmark name: [(rc, bytes printed before the result, n data points)]} by start ordinal;
    starts beyond the plan exit 1 without output"""
    path = os.path.join(wd, 'h.sh')
    lines = ['#!/bin/sh', 'd=%s' % wd, 'echo "$1 $2" >> $d/starts.log',
             'n=$(/bin/cat $d/n.$1 2>/dev/null || echo 0)', 'n=$((n+1))', 'echo $n > $d/n.$1', 'case "$1:$n" in']
    for bench, plan in plans.items():
        for k, step in enumerate(plan, 1):
            rc, text, dps = step[0], step[1], step[2]
            body = ''
            if len(step) > 3 and step[3]:
                body += '/bin/sleep %s; ' % step[3]
            if text:
                body += "printf '%s\\n'; " % _octal(text)
            for j in range(1, dps + 1):
                body += "echo '%s: iterations=1 runtime: %dms'; " % (bench, 1000 * k + j)
            lines.append('  %s:%d) %sexit %d;;' % (bench, k, body, rc))
    lines += ['  *) exit 1;;', 'esac']
    with open(path, 'w') as f:
        f.write('\n'.join(lines) + '\n')
    os.chmod(path, os.stat(path).st_mode | stat.S_IXUSR | stat.S_IXGRP | stat.S_IXOTH)
    return path


def run_cli(wd, cfg, argv=(), env_extra=None, timeout=90):
    conf = os.path.join(wd, 'cli.conf')
    with open(conf, 'w') as f:
        yaml.safe_dump(cfg, f, default_flow_style=False, sort_keys=False)
    env = {'PATH': '/usr/bin:/bin', 'PYTHONPATH': lib.REPO, 'PYTHONHASHSEED': '0', 'PYTHONDONTWRITEBYTECODE': '1',
           'PYTHONIOENCODING': 'utf-8', 'LC_ALL': 'C.UTF-8', 'HOME': wd}
    env.update(env_extra or {})
    try:
        r = subprocess.run([sys.executable, '-B', '-m', 'rebench.rebench', '-D', conf] + list(argv), cwd=wd, env=env,
                           stdout=subprocess.PIPE, stderr=subprocess.PIPE, timeout=timeout)
    except subprocess.TimeoutExpired:
        raise lib.InfraError('real-CLI session did not finish in %d s' % timeout)
    starts = []
    p = os.path.join(wd, 'starts.log')
    if os.path.exists(p):
        starts = [l.split() for l in open(p).read().split('\n') if l.strip()]
    out = r.stdout.decode('utf-8', 'replace')
    err = r.stderr.decode('utf-8', 'replace')
    data = drive.read_data_file(os.path.join(wd, 'cli.data'))
    rows = [[c[5], int(c[0]), int(c[1]), c[4], float(c[2])] for c in data['rows'] if len(c) > 5]
    return {'exit': r.returncode, 'stdout_tail': out[-400:], 'stderr_tail': err[-600:],
            'traceback': 'Traceback (most recent call last)' in out + err,
            'starts': starts, 'rows': rows}


def run_cli_interrupt(wd, cfg, wait_starts, sig, argv=(), timeout=40):
    """start the real CLI, wait until the harness has logged `wait_starts` starts, send `sig` to the ReBench process
    (a pid started here), collect exit status and output"""
    import signal
    import time
    conf = os.path.join(wd, 'cli.conf')
    with open(conf, 'w') as f:
        yaml.safe_dump(cfg, f, default_flow_style=False, sort_keys=False)
    env = {'PATH': '/usr/bin:/bin', 'PYTHONPATH': lib.REPO, 'PYTHONHASHSEED': '0', 'PYTHONDONTWRITEBYTECODE': '1',
           'PYTHONIOENCODING': 'utf-8', 'LC_ALL': 'C.UTF-8', 'HOME': wd}
    # a child of a backgrounded shell would inherit SIGINT = ignore: make sure the child handles it
    proc = subprocess.Popen([sys.executable, '-B', '-c',
                             'import signal, runpy, sys; signal.signal(signal.SIGINT, signal.default_int_handler); '
                             'sys.argv = ["rebench"] + sys.argv[1:]; runpy.run_module("rebench.rebench", run_name="__main__")',
                             '-D', conf] + list(argv), cwd=wd, env=env, stdout=subprocess.PIPE, stderr=subprocess.PIPE)
    log = os.path.join(wd, 'starts.log')
    t0 = time.time()
    seen = 0
    while time.time() - t0 < 20 and proc.poll() is None:
        if os.path.exists(log):
            seen = len([l for l in open(log).read().split('\n') if l.strip()])
            if seen >= wait_starts:
                break
        time.sleep(0.05)
    time.sleep(0.2)
    delivered = proc.poll() is None
    if delivered:
        os.kill(proc.pid, sig)
    try:
        out, err = proc.communicate(timeout=timeout)
    except subprocess.TimeoutExpired:
        proc.kill()
        proc.communicate()
        raise lib.InfraError('interrupted real-CLI session did not end in %d s' % timeout)
    out = out.decode('utf-8', 'replace')
    err = err.decode('utf-8', 'replace')
    return {'exit': proc.returncode, 'delivered': delivered, 'starts_seen': seen, 'stdout_tail': out[-300:],
            'stderr_tail': err[-800:], 'traceback': ('Traceback (most recent call last)' in out + err),
            'thread_exception': ('Exception in thread' in out + err)}


def base_config(wd, benches, builds=None):
    """benches: {name: {'N':, 'retries':, 'exe': id}}; builds: {exe id: shell text}"""
    suites, execs, per_exe = {}, {}, {}
    for name, b in benches.items():
        suites['S' + name] = {'gauge_adapter': 'RebenchLog', 'command': '%(benchmark)s %(invocation)s',
                              'benchmarks': [{name: {'invocations': b['N'], 'retries_after_failure': b.get('retries', 0),
                                                     'execute_exclusively': bool(b.get('excl', True))}}]}
        per_exe.setdefault(b.get('exe', 0), []).append('S' + name)
    for x, ss in per_exe.items():
        e = {'path': wd, 'executable': 'h.sh'}
        if builds and x in builds:
            e['build'] = [builds[x]]
        execs['E%d' % x] = e
    return {'default_experiment': 'T', 'default_data_file': os.path.join(wd, 'cli.data'),
            'benchmark_suites': suites, 'executors': execs,
            'experiments': {'T': {'executions': [{'E%d' % x: {'suites': ss}} for x, ss in sorted(per_exe.items())]}}}
